#!/bin/bash
# MANIFEST.setup_cmd: build every flavour and its drivers from /repo's working tree (offline).
set -u
cd "$(dirname "$0")"
rc=0
for f in plain asan tsan; do
  VERIF_VERBOSE=1 build/ensure.sh $f || rc=2
done
exit $rc
