<xsl:stylesheet version="1.0" xmlns:xsl="http://www.w3.org/1999/XSL/Transform" xmlns:a="urn:ext-e" xmlns:b="urn:ext-e" xmlns:c="urn:ext-f" extension-element-prefixes="a b c" exclude-result-prefixes="a b c">
<xsl:template match="/"><out><a:nothing><xsl:fallback><f/></xsl:fallback></a:nothing><xsl:if test="function-available('b:f')">no</xsl:if><xsl:value-of select="element-available('c:e')"/></out></xsl:template>
</xsl:stylesheet>
