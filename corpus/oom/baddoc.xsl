<xsl:stylesheet version="1.0" xmlns:xsl="http://www.w3.org/1999/XSL/Transform">
<xsl:template match="/"><out><xsl:value-of select="count(document('nonexistent-file.xml')//x)"/><xsl:value-of select="count(document('bad.xml')//x)"/><xsl:copy-of select="document('s1.xml')/root/item[1]"/></out></xsl:template>
</xsl:stylesheet>
