<xsl:stylesheet version="1.0" xmlns:xsl="http://www.w3.org/1999/XSL/Transform">
<xsl:template match="/"><html><head><title>t &#233;</title></head><body><xsl:for-each select="//item"><p><xsl:value-of select="."/></p></xsl:for-each></body></html></xsl:template>
</xsl:stylesheet>
