<xsl:stylesheet version="1.0" xmlns:xsl="http://www.w3.org/1999/XSL/Transform" xmlns:set="http://exslt.org/sets" xmlns:str="http://exslt.org/strings" xmlns:math="http://exslt.org/math" xmlns:xalan="http://xml.apache.org/xalan">
<xsl:output method="text" encoding="UTF-16"/>
<xsl:variable name="rtf"><a>1</a><a>2</a><a>1</a></xsl:variable>
<xsl:template match="/"><xsl:value-of select="count(set:distinct(xalan:nodeset($rtf)/a))"/>|<xsl:value-of select="math:max(//item/@v)"/>|<xsl:value-of select="str:padding(5,'ab')"/>|<xsl:value-of select="translate(normalize-space(.),'abc','ABC')"/>|<xsl:value-of select="substring-before(//item[2],'&amp;')"/>|<xsl:value-of select="id('x')"/>|<xsl:value-of select="lang('en')"/>|<xsl:value-of select="system-property('xsl:version')"/></xsl:template>
</xsl:stylesheet>
