<xsl:stylesheet version="1.0" xmlns:xsl="http://www.w3.org/1999/XSL/Transform">
<xsl:output method="html" encoding="ISO-8859-1" indent="yes"/>
<xsl:template match="/"><html><head><title>t &#233; &#8364;</title><script>if (a &lt; b) x();</script></head><body><p class="a&amp;b">x<br/><img src="a b.png"/></p><xsl:for-each select="//item"><xsl:sort select="."/><li><xsl:value-of select="."/></li></xsl:for-each></body></html></xsl:template>
</xsl:stylesheet>
