<xsl:stylesheet version="1.0" xmlns:xsl="http://www.w3.org/1999/XSL/Transform">
<xsl:key name="k" match="item" use="@v"/>
<xsl:decimal-format name="df" decimal-separator="," grouping-separator="."/>
<xsl:attribute-set name="as"><xsl:attribute name="q">1</xsl:attribute></xsl:attribute-set>
<xsl:variable name="g"><g><h/></g></xsl:variable>
<xsl:template match="/"><out><xsl:for-each select="//item"><xsl:sort select="@v" data-type="number" order="descending"/><i xsl:use-attribute-sets="as"><xsl:number level="any"/>.<xsl:number level="multiple" count="*" format="1.a.i"/>:<xsl:value-of select="count(key('k', @v))"/>:<xsl:value-of select="format-number(@v * 1000.5, '#.##0,0', 'df')"/></i></xsl:for-each><xsl:copy-of select="$g"/><xsl:value-of select="generate-id(/*) = generate-id(/*)"/><xsl:value-of select="translate(substring-after(concat('a', 'b:c'), ':'), 'c', 'C')"/><xsl:apply-templates select="//item" mode="m"/></out></xsl:template>
<xsl:template match="item[@v &gt; 5]" mode="m" priority="2"><big/></xsl:template>
<xsl:template match="item" mode="m"><small><xsl:apply-imports/></small></xsl:template>
</xsl:stylesheet>
