<xsl:stylesheet version="1.0" xmlns:xsl="http://www.w3.org/1999/XSL/Transform">
<xsl:param name="p1" select="'d'"/><xsl:param name="p2" select="0"/><xsl:param name="p3"/><xsl:param name="p4"/>
<xsl:template match="/"><o a="{$p1}" b="{$p2 * 2}" c="{$p3}" d="{$p4}"><xsl:for-each select="//item"><xsl:value-of select="concat(@v + $p2, ';')"/></xsl:for-each></o></xsl:template>
</xsl:stylesheet>
