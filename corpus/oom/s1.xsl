<?xml version="1.0"?>
<xsl:stylesheet version="1.0" xmlns:xsl="http://www.w3.org/1999/XSL/Transform" xmlns:x="urn:x" exclude-result-prefixes="x">
<xsl:output method="xml" indent="yes" encoding="UTF-8"/>
<xsl:param name="p1" select="'d1'"/><xsl:param name="p2" select="2"/><xsl:param name="p3"/><xsl:param name="p4"/>
<xsl:key name="byv" match="item" use="@v"/>
<xsl:decimal-format name="eu" decimal-separator="," grouping-separator="."/>
<xsl:attribute-set name="as"><xsl:attribute name="a1">x<xsl:value-of select="$p2"/></xsl:attribute></xsl:attribute-set>
<xsl:variable name="g"><a>1</a><b>2</b></xsl:variable>
<xsl:template match="/">
 <out p1="{$p1}" xsl:use-attribute-sets="as">
  <xsl:apply-templates select="root/item"><xsl:sort select="@v" data-type="number" order="descending"/><xsl:sort select="."/><xsl:with-param name="w" select="count(//item)"/></xsl:apply-templates>
  <k><xsl:value-of select="count(key('byv','3'))"/></k>
  <f><xsl:value-of select="format-number(sum(root/item/@v) div 7, '#.##0,00', 'eu')"/></f>
  <c><xsl:copy-of select="$g"/><xsl:copy-of select="root/x:n"/></c>
  <xsl:for-each select="root/item[position() mod 2 = 1]"><n><xsl:number level="any" count="item" format="i."/><xsl:number value="position()" format="A"/></n></xsl:for-each>
  <xsl:call-template name="t"><xsl:with-param name="d" select="3"/></xsl:call-template>
  <xsl:comment>c<xsl:value-of select="string-length(normalize-space(root))"/></xsl:comment>
  <xsl:processing-instruction name="pi">d</xsl:processing-instruction>
  <xsl:element name="x:e" namespace="urn:x"><xsl:attribute name="q" namespace="urn:q">v</xsl:attribute></xsl:element>
  <xsl:value-of select="concat($p3,'|',$p4,'|',generate-id(root)=generate-id(root/item[1]/..))"/>
 </out>
</xsl:template>
<xsl:template match="item"><xsl:param name="w"/>
 <i w="{$w}" pos="{position()}"><xsl:choose><xsl:when test="@v &gt; 5">big</xsl:when><xsl:otherwise>small</xsl:otherwise></xsl:choose><xsl:if test="text()"><xsl:copy><xsl:apply-templates select="@*|node()"/></xsl:copy></xsl:if></i>
</xsl:template>
<xsl:template match="@*|text()"><xsl:copy/></xsl:template>
<xsl:template name="t"><xsl:param name="d"/><xsl:if test="$d &gt; 0"><r d="{$d}"><xsl:call-template name="t"><xsl:with-param name="d" select="$d - 1"/></xsl:call-template></r></xsl:if></xsl:template>
</xsl:stylesheet>
