<xsl:stylesheet version="1.0" xmlns:xsl="http://www.w3.org/1999/XSL/Transform">
<xsl:output method="xml" encoding="ISO-8859-1" indent="yes" cdata-section-elements="c" doctype-system="d.dtd" doctype-public="-//x//y"/>
<xsl:template match="/"><out a="&#233;&#8364;"><c>x ]]&gt; &#8364; y</c><xsl:comment>k</xsl:comment><xsl:processing-instruction name="p">q</xsl:processing-instruction><xsl:copy-of select="//item[1]"/></out></xsl:template>
</xsl:stylesheet>
