<xsl:stylesheet version="1.0" xmlns:xsl="http://www.w3.org/1999/XSL/Transform">
<xsl:output method="xml" encoding="UTF-16"/>
<xsl:template match="/"><out a="&#233;"><xsl:copy-of select="/*"/></out></xsl:template>
</xsl:stylesheet>
