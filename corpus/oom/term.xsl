<xsl:stylesheet version="1.0" xmlns:xsl="http://www.w3.org/1999/XSL/Transform">
<xsl:key name="k" match="item" use="@v"/>
<xsl:template match="/"><out><xsl:for-each select="root/item"><xsl:sort select="@v"/><xsl:variable name="rtf"><a><xsl:value-of select="."/></a></xsl:variable><e a="{@v}"><xsl:attribute name="b"><xsl:if test="position()=3"><xsl:message terminate="yes">stop <xsl:value-of select="count(key('k',@v))"/></xsl:message></xsl:if>x</xsl:attribute></e></xsl:for-each></out></xsl:template>
</xsl:stylesheet>
