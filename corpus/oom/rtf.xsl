<xsl:stylesheet version="1.0" xmlns:xsl="http://www.w3.org/1999/XSL/Transform" xmlns:exsl="http://exslt.org/common" xmlns:xalan="http://xml.apache.org/xalan" exclude-result-prefixes="exsl xalan">
<xsl:key name="k" match="item" use="@v"/>
<xsl:key name="r" match="e" use="@w"/>
<xsl:variable name="frag"><f><e w="1">a</e><e w="2">b</e><e w="1">c</e><xsl:copy-of select="//item[1]"/></f></xsl:variable>
<xsl:template match="/"><out>
<xsl:variable name="local"><l><xsl:for-each select="//item"><e w="{@v mod 2}"><xsl:value-of select="@v"/></e></xsl:for-each></l></xsl:variable>
<xsl:for-each select="exsl:node-set($frag)/f"><a n="{count(key('r', '1'))}" m="{count(key('k', item/@v))}"><xsl:for-each select="e"><xsl:sort select="." order="descending"/><xsl:number level="any" count="e"/><xsl:value-of select="."/></xsl:for-each></a></xsl:for-each>
<xsl:for-each select="xalan:nodeset($local)/l"><b n="{count(key('r', '0'))}"><xsl:for-each select="e[. = key('r', '1')]"><xsl:number/>,</xsl:for-each><xsl:copy-of select="e[1] | e[last()]"/></b></xsl:for-each>
<c n="{count(key('k', //item[1]/@v))}"><xsl:copy-of select="$frag"/><xsl:apply-templates select="exsl:node-set($local)//e[position() &lt; 3]" mode="m"/></c>
</out></xsl:template>
<xsl:template match="e" mode="m"><m><xsl:value-of select="count(key('r', @w))"/></m></xsl:template>
</xsl:stylesheet>
