// `ser` command of xvdrv: replays a SAX event script into one of the library's serializers
// (FormatterToXML, the XalanXMLSerializerFactory product, FormatterToHTML, FormatterToText) and
// returns the bytes that reach the output stream.
//
// script: one record per line, "<op> <hex> <hex> ..." where every field is the hex of the
// UTF-8 (WTF-8 for unpaired surrogates) bytes of a string:
//   S name a1 v1 a2 v2 ...   startElement          E name        endElement
//   T text                   characters            D text        cdata
//   R text                   charactersRaw         W text        ignorableWhitespace
//   M text                   comment               P target data processingInstruction
//   N name                   entityReference
// startDocument / endDocument are issued by the command itself.
#pragma once
#include "xvproto.hpp"
#include "xvcommon.hpp"

#include <sstream>
#include <xercesc/sax/SAXException.hpp>
#include <xalanc/PlatformSupport/AttributeListImpl.hpp>
#include <xalanc/PlatformSupport/XalanOutputStreamPrintWriter.hpp>
#include <xalanc/PlatformSupport/XalanStdOutputStream.hpp>
#include <xalanc/PlatformSupport/XSLException.hpp>
#include <xalanc/XMLSupport/FormatterToXML.hpp>
#include <xalanc/XMLSupport/FormatterToHTML.hpp>
#include <xalanc/XMLSupport/FormatterToText.hpp>
#include <xalanc/XMLSupport/XalanXMLSerializerFactory.hpp>

namespace xvser {
using namespace xalanc;
using namespace xv;

inline std::string unhex(const std::string& h) {
    std::string o;
    o.reserve(h.size() / 2);
    for (size_t i = 0; i + 1 < h.size(); i += 2) {
        unsigned v = 0;
        for (int k = 0; k < 2; ++k) {
            char c = h[i + k];
            v = v * 16 + (c >= '0' && c <= '9' ? c - '0' : (c | 0x20) - 'a' + 10);
        }
        o += char(v);
    }
    return o;
}

inline void cmdSer(const Msg& q, Msg& r) {
    MemoryManager& mm = XalanMemMgrs::getDefaultXercesMemMgr();
    const std::string which = get(q, "which", "factory");
    const XalanDOMString enc = xs(get(q, "enc", "UTF-8"));
    const XalanDOMString ver = xs(get(q, "ver", "1.0"));
    const bool indent = geti(q, "indent", 0) != 0;
    const int amount = int(geti(q, "amount", 0));
    const bool decl = geti(q, "xmldecl", 1) != 0;
    const XalanDOMString standalone = xs(get(q, "standalone"));
    const XalanDOMString dsys = xs(get(q, "dsys"));
    const XalanDOMString dpub = xs(get(q, "dpub"));
    const XalanDOMString media = xs(get(q, "media"));
    std::ostringstream os;
    long events = 0;
    try {
        XalanStdOutputStream stream(os, mm);
        XalanOutputStreamPrintWriter writer(stream);
        FormatterListener* fl = 0;
        if (which == "fxml") fl = FormatterToXML::create(mm, writer, ver, indent, amount, enc, media, dsys, dpub, decl, standalone);
        else if (which == "factory") fl = XalanXMLSerializerFactory::create(mm, writer, ver, indent, amount, enc, media, dsys, dpub, decl, standalone);
        else if (which == "html") fl = FormatterToHTML::create(mm, writer, enc, media, dsys, dpub, indent, amount, geti(q, "escapeurls", 1) != 0, geti(q, "omitmeta", 0) != 0);
        else if (which == "text") fl = FormatterToText::create(mm, writer, enc);
        else { r["error"] = "unknown serializer " + which; return; }
        struct Del { FormatterListener* p; MemoryManager& m; ~Del() { if (p) { p->~FormatterListener(); m.deallocate(p); } } } del = { fl, mm };
        const std::string& script = get(q, "script");
        fl->startDocument();
        size_t pos = 0;
        AttributeListImpl atts(mm);
        while (pos < script.size()) {
            size_t nl = script.find('\n', pos);
            if (nl == std::string::npos) nl = script.size();
            std::string line = script.substr(pos, nl - pos);
            pos = nl + 1;
            if (line.empty()) continue;
            std::vector<XalanDOMString> f;
            size_t p = 1;
            while (p < line.size()) {
                while (p < line.size() && line[p] == ' ') ++p;
                size_t e = line.find(' ', p);
                if (e == std::string::npos) e = line.size();
                std::string tok = line.substr(p, e - p);
                f.push_back(tok == "-" ? XalanDOMString() : xs(unhex(tok)));
                p = e;
            }
            ++events;
            static const XalanDOMChar cdataType[] = { 'C', 'D', 'A', 'T', 'A', 0 };
            switch (line[0]) {
            case 'S':
                atts.clear();
                for (size_t i = 1; i + 1 < f.size(); i += 2) atts.addAttribute(f[i].c_str(), cdataType, f[i + 1].c_str());
                fl->startElement(f[0].c_str(), atts);
                break;
            case 'E': fl->endElement(f[0].c_str()); break;
            case 'T': fl->characters(f[0].c_str(), f[0].length()); break;
            case 'D': fl->cdata(f[0].c_str(), f[0].length()); break;
            case 'R': fl->charactersRaw(f[0].c_str(), f[0].length()); break;
            case 'W': fl->ignorableWhitespace(f[0].c_str(), f[0].length()); break;
            case 'M': fl->comment(f[0].c_str()); break;
            case 'P': fl->processingInstruction(f[0].c_str(), f.size() > 1 ? f[1].c_str() : f[0].c_str() + f[0].length()); break;
            case 'N': fl->entityReference(f[0].c_str()); break;
            default: r["error"] = "bad script op"; return;
            }
        }
        fl->endDocument();
        writer.flush();
        stream.flush();
        r["status"] = "0";
    }
    catch (const XSLException& e) { XalanDOMString s; e.defaultFormat(s); r["exception"] = "XSLException: " + u8(s); r["status"] = "1"; }
    catch (const xercesc::SAXException& e) { r["exception"] = "SAXException: " + u8(e.getMessage()); r["status"] = "1"; }
    catch (const xercesc::XMLException& e) { r["exception"] = "XMLException: " + u8(e.getMessage()); r["status"] = "1"; }
    catch (const std::exception& e) { r["exception"] = std::string("std::exception: ") + e.what(); r["status"] = "1"; }
    catch (...) { r["exception"] = "unknown exception"; r["status"] = "1"; }
    r["events"] = itos(events);
    r["out"] = os.str();
}

inline bool dispatch(const std::string& cmd, const Msg& q, Msg& r) {
    if (cmd == "ser") cmdSer(q, r);
    else return false;
    return true;
}
}  // namespace xvser
