// xvoom — allocation-failure sweeper and balance checker for the pluggable MemoryManager (C19).
//
// usage: xvoom <scenario> <xsl-file> <xml-file> <exc: bad_alloc|oom> [from [to]]
// scenario: a '+'-separated list of steps run on ONE manager (one transformer per step unless noted):
//   ctor | compile | parse | parsex | stream | prebuilt | callback | dom | builder | params |
//   terminate (xsl:message terminate stylesheet = <xsl-file>) | badxml | baddoc
// Phase 1 (counting): run once with a counting manager; every block must have come back by the
//   time the transformers are gone; no foreign / double frees.
// Phase 2 (injection): for every k in [from, to] (default 1..n) the k-th allocation throws;
//   k's are run in forked children (a death is attributed to the k in flight and the sweep
//   resumes at k+1); after every injected failure the outstanding blocks are reclaimed by the
//   manager itself and a fresh default-manager transformer must still transform correctly.
// Output (stdout), one record per line:
//   COUNT allocs=<n> live=<l> foreign=<f> double=<d> status=<rc>
//   DEATH k=<k> kind=<terminate|signal-N|exit-N|timeout> site=<f1;f2;f3>
//   RECOVERY-FAIL k=<k> what=<...>
//   FOREIGN k=<k> n=<count>
//   SUMMARY injected=<n> exception=<a> status=<b> completed=<c> deaths=<d> recovery_fail=<e>
#include <xalanc/Include/PlatformDefinitions.hpp>
#include <cassert>
#include <cstdarg>
#include <csignal>
#include <cstdio>
#include <cstdlib>
#include <cstring>
#include <exception>
#include <fstream>
#include <map>
#include <set>
#include <sstream>
#include <string>
#include <vector>
#include <cxxabi.h>
#include <dlfcn.h>
#include <execinfo.h>
#include <sys/wait.h>
#include <unistd.h>

#include <xercesc/util/PlatformUtils.hpp>
#include <xercesc/util/OutOfMemoryException.hpp>
#include <xercesc/util/XMLException.hpp>
#include <xercesc/sax/SAXException.hpp>
#include <xercesc/sax2/SAX2XMLReader.hpp>
#include <xercesc/sax2/XMLReaderFactory.hpp>
#include <xercesc/framework/MemBufInputSource.hpp>
#include <xercesc/dom/DOM.hpp>
#include <xalanc/Include/XalanMemoryManagement.hpp>
#if defined(APACHE_XALAN_C_VERIF)
#include <xalanc/Include/XalanVerifProbes.hpp>
#endif
#include <xalanc/Include/XalanAutoPtr.hpp>
#include <xalanc/PlatformSupport/XSLException.hpp>
#include <xalanc/XalanDOM/XalanDOMException.hpp>
#include <xalanc/XPath/XObjectFactory.hpp>
#include <xalanc/XalanTransformer/XalanTransformer.hpp>
#include <xalanc/XalanTransformer/XalanDocumentBuilder.hpp>
#include <xalanc/XercesParserLiaison/FormatterToXercesDOM.hpp>

using namespace xalanc;
using xercesc::MemoryManager;

static std::string readFile(const char* p) { std::ifstream f(p, std::ios::binary); std::ostringstream o; o << f.rdbuf(); return o.str(); }

// ---------------------------------------------------------------------------------------
static int g_pipe = -1;          // child -> parent records
static bool g_useOom = false;

static void emit(const char* fmt, ...) {
    char b[2048]; va_list ap; va_start(ap, fmt); int n = vsnprintf(b, sizeof b, fmt, ap); va_end(ap);
    if (n > int(sizeof b) - 1) n = sizeof b - 1;
    if (g_pipe >= 0) { if (write(g_pipe, b, n)) {} }
}

static std::string siteOfHere() {
    void* fr[40]; int n = backtrace(fr, 40);
    std::string out; int got = 0;
    for (int i = 2; i < n && got < 4; ++i) {
        Dl_info di;
        if (dladdr(fr[i], &di) && di.dli_sname) {
            int st = 0; char* d = abi::__cxa_demangle(di.dli_sname, 0, 0, &st);
            std::string name = st == 0 && d ? d : di.dli_sname; free(d);
            if (name.find("xalanc_1_12::") == std::string::npos && name.find("xercesc_3_2::") == std::string::npos) continue;
            if (name.find("FailMM") != std::string::npos) continue;
            size_t p = name.find('('); if (p != std::string::npos) name.erase(p);
            // drop template arguments
            std::string flat; int depth = 0;
            for (size_t j = 0; j < name.size(); ++j) { if (name[j] == '<') ++depth; else if (name[j] == '>') --depth; else if (!depth) flat += name[j]; }
            size_t q; while ((q = flat.find("xalanc_1_12::")) != std::string::npos) flat.erase(q, 13);
            while ((q = flat.find("xercesc_3_2::")) != std::string::npos) flat.replace(q, 13, "xerces::");
            if (!out.empty()) out += ';';
            out += flat; ++got;
        }
    }
    return out.empty() ? "?" : out;
}

class FailMM : public XalanMemoryManager {
public:
    FailMM() : failAt(0), count(0), foreign(0), dbl(0), refused(false) {}
    long failAt, count, foreign, dbl; bool refused;
    std::map<void*, size_t> live;
    std::set<void*> freed;     // addresses freed and not re-allocated since (double-free detection)
    virtual void* allocate(XMLSize_t n) {
        ++count;
        if (failAt && count == failAt) {
            refused = true;
            const char* tag = "";
#if defined(APACHE_XALAN_C_VERIF)
            if (xalan_verif_alloc_site == XALAN_VERIF_SITE_LIST_HEAD) tag = "list-head:";
#endif
            emit("REFUSE k=%ld site=%s%s\n", failAt, tag, siteOfHere().c_str());
            if (g_useOom) throw xercesc::OutOfMemoryException();
            throw std::bad_alloc();
        }
        void* p = ::operator new(n ? n : 1);
        live[p] = n; freed.erase(p);
        return p;
    }
    virtual void deallocate(void* p) {
        if (!p) return;
        std::map<void*, size_t>::iterator i = live.find(p);
        if (i == live.end()) { if (freed.count(p)) ++dbl; else ++foreign; emit("BADFREE kind=%s at=%s\n", freed.count(p) ? "double" : "foreign", siteOfHere().c_str()); return; }
        live.erase(i); freed.insert(p); ::operator delete(p);
    }
    virtual MemoryManager* getExceptionMemoryManager() { return this; }
    void reclaim() { for (std::map<void*, size_t>::iterator i = live.begin(); i != live.end(); ++i) ::operator delete(i->first); live.clear(); }
};

// ---------------------------------------------------------------------------------------
struct Inputs { std::string xsl, xml, xslPath, xmlPath; };

extern "C" { static CallbackSizeType cbW(const char* b, CallbackSizeType n, void* h) { static_cast<std::string*>(h)->append(b, n); return n; } static void cbF(void*) {} }

// returns the status of the last library call (0 ok); exceptions propagate
static int step(const std::string& s, MemoryManager& mm, const Inputs& in, std::string* outp) {
    int rc = 0;
    std::ostringstream out;
    if (s == "ctor") { XalanTransformer t(mm); return 0; }
    XalanTransformer t(mm);
    std::ostringstream warn; t.setWarningStream(&warn); t.setErrorStream(&warn);
    std::istringstream xs(in.xsl), xm(in.xml);
    if (s == "compile") { const XalanCompiledStylesheet* cs = 0; rc = t.compileStylesheet(XSLTInputSource(&xs), cs); }
    else if (s == "parse" || s == "parsex") { const XalanParsedSource* ps = 0; rc = t.parseSource(XSLTInputSource(&xm), ps, s == "parsex"); }
    else if (s == "stream" || s == "terminate" || s == "badxml" || s == "baddoc") { rc = t.transform(XSLTInputSource(&xm), XSLTInputSource(&xs), XSLTResultTarget(out)); }
    else if (s == "file") { rc = t.transform(XSLTInputSource(in.xmlPath.c_str()), XSLTInputSource(in.xslPath.c_str()), XSLTResultTarget(out)); }
    else if (s == "prebuilt" || s == "prebuiltx") {
        const XalanCompiledStylesheet* cs = 0; const XalanParsedSource* ps = 0;
        rc = t.compileStylesheet(XSLTInputSource(&xs), cs);
        if (rc == 0) rc = t.parseSource(XSLTInputSource(&xm), ps, s == "prebuiltx");
        if (rc == 0) rc = t.transform(*ps, cs, XSLTResultTarget(out));
        if (rc == 0) { std::ostringstream o2; rc = t.transform(*ps, cs, XSLTResultTarget(o2)); }
        if (ps) t.destroyParsedSource(ps);
        if (cs) t.destroyStylesheet(cs);
    }
    else if (s == "callback") { std::string sink; rc = t.transform(XSLTInputSource(&xm), XSLTInputSource(&xs), &sink, cbW, cbF); out << sink; }
    else if (s == "dom") {
        XalanAutoPtr<xercesc::DOMDocument> d(xercesc::DOMImplementation::getImplementation()->createDocument());
        FormatterToXercesDOM f(d.get(), 0);
        rc = t.transform(XSLTInputSource(&xm), XSLTInputSource(&xs), XSLTResultTarget(f));
    }
    else if (s == "builder") {
        XalanDocumentBuilder* b = t.createDocumentBuilder();
        {
            XalanAutoPtr<xercesc::SAX2XMLReader> rd(xercesc::XMLReaderFactory::createXMLReader());
            rd->setFeature(xercesc::XMLUni::fgSAX2CoreNameSpaces, true);
            rd->setFeature(xercesc::XMLUni::fgSAX2CoreNameSpacePrefixes, true);
            rd->setContentHandler(b->getContentHandler()); rd->setLexicalHandler(b->getLexicalHandler()); rd->setDTDHandler(b->getDTDHandler());
            xercesc::MemBufInputSource mb((const XMLByte*)in.xml.data(), in.xml.size(), "mem");
            rd->parse(mb);
        }
        rc = t.transform(*b, XSLTInputSource(&xs), XSLTResultTarget(out));
        t.destroyDocumentBuilder(b);
    }
    else if (s == "params") {
        t.setStylesheetParam("p1", "'string value'");
        t.setStylesheetParam(XalanDOMString("p2", mm), 42.5);
        t.setStylesheetParam("p3", "1 + 2");
        t.setStylesheetParam(XalanDOMString("p4", mm), t.getXObjectFactory().createString(XalanDOMString("xobj", mm)));
        t.setStylesheetParam("p1", "'reset'");
        rc = t.transform(XSLTInputSource(&xm), XSLTInputSource(&xs), XSLTResultTarget(out));
        t.clearStylesheetParams();
        t.setStylesheetParam("p2", 7.0);
        if (rc == 0) { std::istringstream xs2(in.xsl), xm2(in.xml); std::ostringstream o2; rc = t.transform(XSLTInputSource(&xm2), XSLTInputSource(&xs2), XSLTResultTarget(o2)); }
    }
    else { fprintf(stderr, "unknown step %s\n", s.c_str()); exit(2); }
    if (outp) *outp = out.str();
    return rc;
}

static std::vector<std::string> split(const std::string& s, char c) { std::vector<std::string> v; std::string cur; for (size_t i = 0; i < s.size(); ++i) { if (s[i] == c) { v.push_back(cur); cur.clear(); } else cur += s[i]; } v.push_back(cur); return v; }

// outcome: 0 completed ok, 1 error status, 2 exception
static int runScenario(const std::vector<std::string>& steps, MemoryManager& mm, const Inputs& in, std::string& what) {
    try {
        int worst = 0;
        for (size_t i = 0; i < steps.size(); ++i) { int rc = step(steps[i], mm, in, 0); if (rc != 0) worst = 1; }
        return worst;
    }
    catch (const std::bad_alloc&) { what = "std::bad_alloc"; }
    catch (const xercesc::OutOfMemoryException&) { what = "OutOfMemoryException"; }
    catch (const XSLException&) { what = "XSLException"; }
    catch (const xercesc::SAXException&) { what = "SAXException"; }
    catch (const xercesc::XMLException&) { what = "XMLException"; }
    catch (const XalanDOMException&) { what = "XalanDOMException"; }
    catch (const xercesc::DOMException&) { what = "DOMException"; }
    catch (const std::exception& e) { what = std::string("std::exception ") + e.what(); }
    catch (...) { what = "unknown exception"; }
    return 2;
}

static const char RECOVERY_XSL[] = "<xsl:stylesheet version='1.0' xmlns:xsl='http://www.w3.org/1999/XSL/Transform'><xsl:output method='text'/>"
    "<xsl:key name='k' match='i' use='@v'/><xsl:template match='/'><xsl:for-each select='r/i'><xsl:sort select='@v' data-type='number' order='descending'/>"
    "<xsl:value-of select='concat(@v,\":\",count(key(\"k\",@v)),\";\")'/></xsl:for-each><xsl:value-of select='format-number(sum(r/i/@v),\"#,##0.0\")'/></xsl:template></xsl:stylesheet>";
static const char RECOVERY_XML[] = "<r><i v='3'/><i v='10'/><i v='3'/><i v='7'/></r>";
static const char RECOVERY_OUT[] = "10:1;7:1;3:2;3:2;23.0";

static bool recoveryOk(std::string& what) {
    try {
        XalanTransformer t;
        std::istringstream xs(RECOVERY_XSL), xm(RECOVERY_XML); std::ostringstream out;
        int rc = t.transform(XSLTInputSource(&xm), XSLTInputSource(&xs), XSLTResultTarget(out));
        if (rc != 0) { what = std::string("status ") + t.getLastError(); return false; }
        if (out.str() != RECOVERY_OUT) { what = "output '" + out.str() + "'"; return false; }
        return true;
    } catch (...) { what = "exception"; return false; }
}

static void onTerminate() { emit("DYING kind=terminate\n"); _exit(97); }
static void onSig(int s) { emit("DYING kind=signal-%d\n", s); _exit(98); }
extern "C" void __sanitizer_set_death_callback(void (*)(void)) __attribute__((weak));
static void onSan() { emit("DYING kind=sanitizer\n"); }

int main(int argc, char** argv) {
    if (argc < 5) { fprintf(stderr, "usage: xvoom scenario xsl xml bad_alloc|oom [from [to]]\n"); return 2; }
    std::vector<std::string> steps = split(argv[1], '+');
    Inputs in; in.xslPath = argv[2]; in.xmlPath = argv[3]; in.xsl = readFile(argv[2]); in.xml = readFile(argv[3]);
    g_useOom = std::string(argv[4]) == "oom";
    long from = argc > 5 ? atol(argv[5]) : 1, to = argc > 6 ? atol(argv[6]) : 0;
    setvbuf(stdout, 0, _IOLBF, 0);
    xercesc::XMLPlatformUtils::Initialize();
    XalanTransformer::initialize();

    // ---- phase 1: counting ----------------------------------------------------------------
    long n = 0;
    {
        FailMM mm; std::string what;
        int oc = runScenario(steps, mm, in, what);
        n = mm.count;
        printf("COUNT allocs=%ld live=%ld foreign=%ld double=%ld status=%d%s%s\n", mm.count, (long)mm.live.size(), mm.foreign, mm.dbl, oc, what.empty() ? "" : " exc=", what.c_str());
        if (!mm.live.empty()) {
            // sizes of the outstanding blocks help to identify them
            std::map<size_t, int> sizes; for (std::map<void*, size_t>::iterator i = mm.live.begin(); i != mm.live.end(); ++i) ++sizes[i->second];
            printf("LIVE-SIZES"); int c = 0; for (std::map<size_t, int>::iterator i = sizes.begin(); i != sizes.end() && c < 12; ++i, ++c) printf(" %zu x%d", i->first, i->second); printf("\n");
        }
        mm.reclaim();
    }
    if (to == 0 || to > n) to = n;
    if (argc > 5 && from == 0) { printf("SUMMARY injected=0 exception=0 status=0 completed=0 deaths=0 recovery_fail=0\n"); return 0; }

    // ---- phase 2: injection -----------------------------------------------------------------
    long injected = 0, nExc = 0, nStatus = 0, nCompleted = 0, nDeaths = 0, nRecFail = 0, nForeign = 0;
    long k = from;
    while (k <= to) {
        int fds[2]; if (pipe(fds) != 0) { perror("pipe"); return 2; }
        fflush(stdout);
        pid_t pid = fork();
        if (pid == 0) {
            close(fds[0]); g_pipe = fds[1];
            std::set_terminate(onTerminate);
            signal(SIGSEGV, onSig); signal(SIGBUS, onSig); signal(SIGFPE, onSig); signal(SIGILL, onSig);
            if (__sanitizer_set_death_callback) __sanitizer_set_death_callback(onSan); else signal(SIGABRT, onSig);
            alarm(120);
            for (long kk = k; kk <= to; ++kk) {
                emit("BEGIN k=%ld\n", kk);
                FailMM mm; mm.failAt = kk; std::string what;
                int oc = runScenario(steps, mm, in, what);
                long foreign = mm.foreign + mm.dbl;
                mm.failAt = 0;
                mm.reclaim();       // whatever is outstanding must be reclaimable by the manager
                std::string rw; bool rec = recoveryOk(rw);
                emit("END k=%ld refused=%d outcome=%d foreign=%ld rec=%d what=%s|%s\n", kk, mm.refused ? 1 : 0, oc, foreign, rec ? 1 : 0, what.c_str(), rw.c_str());
            }
            _exit(0);
        }
        close(fds[1]);
        // parent: read records
        std::string buf; char tmp[4096]; ssize_t r;
        long cur = -1; std::string lastSite = "?", dying;
        long lastEnded = k - 1;
        FILE* f = fdopen(fds[0], "r");
        char line[4096];
        while (fgets(line, sizeof line, f)) {
            long kk;
            if (sscanf(line, "BEGIN k=%ld", &kk) == 1) { cur = kk; lastSite = "?"; dying.clear(); }
            else if (strncmp(line, "REFUSE", 6) == 0) { char* s = strstr(line, "site="); if (s) { lastSite = s + 5; while (!lastSite.empty() && lastSite[lastSite.size() - 1] == '\n') lastSite.erase(lastSite.size() - 1); } }
            else if (strncmp(line, "DYING", 5) == 0) { char* s = strstr(line, "kind="); if (s) { dying = s + 5; while (!dying.empty() && dying[dying.size() - 1] == '\n') dying.erase(dying.size() - 1); } }
            else if (strncmp(line, "BADFREE", 7) == 0) { printf("%s", line); }
            else if (strncmp(line, "END", 3) == 0) {
                int refused, oc, rec; long foreign; char what[3000] = "";
                if (sscanf(line, "END k=%ld refused=%d outcome=%d foreign=%ld rec=%d what=%2999[^\n]", &kk, &refused, &oc, &foreign, &rec, what) >= 5) {
                    lastEnded = kk;
                    if (refused) { ++injected; if (oc == 2) ++nExc; else if (oc == 1) ++nStatus; else ++nCompleted; }
                    if (foreign) { ++nForeign; printf("FOREIGN k=%ld n=%ld site=%s\n", kk, foreign, lastSite.c_str()); }
                    if (!rec) { ++nRecFail; printf("RECOVERY-FAIL k=%ld what=%s site=%s\n", kk, what, lastSite.c_str()); }
                }
            }
        }
        fclose(f);
        int st = 0; waitpid(pid, &st, 0);
        if (WIFEXITED(st) && WEXITSTATUS(st) == 0) { k = to + 1; }
        else {
            ++nDeaths; ++injected;
            char kind[64];
            if (!dying.empty()) snprintf(kind, sizeof kind, "%s", dying.c_str());
            else if (WIFSIGNALED(st)) snprintf(kind, sizeof kind, WTERMSIG(st) == SIGALRM ? "timeout" : "signal-%d", WTERMSIG(st));
            else snprintf(kind, sizeof kind, "exit-%d", WEXITSTATUS(st));
            long dead = cur >= 0 ? cur : lastEnded + 1;
            printf("DEATH k=%ld kind=%s site=%s\n", dead, kind, lastSite.c_str());
            k = dead + 1;
        }
    }
    printf("SUMMARY injected=%ld exception=%ld status=%ld completed=%ld deaths=%ld recovery_fail=%ld foreign=%ld\n", injected, nExc, nStatus, nCompleted, nDeaths, nRecFail, nForeign);
    XalanTransformer::terminate();
    xercesc::XMLPlatformUtils::Terminate();
    return 0;
}
