// xvcont — lock-step model checker for Xalan's containers and string class (C20).
// usage: xvcont <seed> <from> <count> [maxops]
// Every sequence i in [from, from+count) picks a container kind and a phase-biased op mix from
// hash(seed, i), applies each op to the Xalan container and to its std:: model and compares
// the observable results.  Output: one "MISMATCH ..." line per failing sequence, "SEQ i" on
// death (signal / sanitizer callback), a final "DONE ..." line with counters.
#include <xalanc/Include/PlatformDefinitions.hpp>
#include <xercesc/util/PlatformUtils.hpp>
#include <xalanc/Include/XalanMemoryManagement.hpp>
#include <xalanc/Include/XalanMap.hpp>
#include <xalanc/Include/XalanSet.hpp>
#include <xalanc/Include/XalanVector.hpp>
#include <xalanc/Include/XalanList.hpp>
#include <xalanc/Include/XalanDeque.hpp>
#include <xalanc/XalanDOM/XalanDOMString.hpp>
#include <xalanc/PlatformSupport/DOMStringHelper.hpp>
#include <xalanc/PlatformSupport/XalanDOMStringPool.hpp>
#include <xalanc/PlatformSupport/XalanBitmap.hpp>
#include <xalanc/XalanTransformer/XalanTransformer.hpp>

#include <algorithm>
#include <csignal>
#include <cstdio>
#include <cstdlib>
#include <cstring>
#include <deque>
#include <list>
#include <map>
#include <set>
#include <sstream>
#include <stdexcept>
#include <string>
#include <vector>
#include <stdint.h>
#include <unistd.h>

using namespace xalanc;
using xercesc::MemoryManager;

// ---------------------------------------------------------------------------------------
static volatile long g_seq = -1;
static volatile long g_op = -1;
static const char* volatile g_kind = "?";

static void noteFailure(const std::string& what) {
    printf("FAILING seq=%ld kind=%s op=%ld : %s\n", (long)g_seq, g_kind, (long)g_op, what.c_str());
    fflush(stdout);
}

static void announce() {
    char b[128];
    int n = snprintf(b, sizeof b, "\nSEQ %ld kind=%s op=%ld\n", (long)g_seq, g_kind, (long)g_op);
    if (write(1, b, n)) {}
}
static void onSignal(int s) {
    char b[64]; int n = snprintf(b, sizeof b, "XV-SIGNAL %d\n", s); if (write(2, b, n)) {}
    announce();
    signal(s, SIG_DFL); raise(s);
}
extern "C" void __sanitizer_set_death_callback(void (*)(void)) __attribute__((weak));

// counting manager: balance + foreign frees
class CountMM : public XalanMemoryManager {
public:
    CountMM() : foreign(0), total(0) {}
    std::map<void*, size_t> live;
    long foreign, total;
    virtual void* allocate(XMLSize_t n) { void* p = ::operator new(n ? n : 1); live[p] = n; ++total; return p; }
    virtual void deallocate(void* p) {
        if (!p) return;
        std::map<void*, size_t>::iterator i = live.find(p);
        if (i == live.end()) { ++foreign; return; }
        live.erase(i); ::operator delete(p);
    }
    virtual MemoryManager* getExceptionMemoryManager() { return this; }
    void reclaim() { for (std::map<void*, size_t>::iterator i = live.begin(); i != live.end(); ++i) ::operator delete(i->first); live.clear(); }
};

struct Rng {
    uint64_t s;
    explicit Rng(uint64_t seed) : s(seed * 0x9E3779B97F4A7C15ull + 0x1234567ull) { next(); next(); }
    uint64_t next() { s ^= s << 13; s ^= s >> 7; s ^= s << 17; return s * 0x2545F4914F6CDD1Dull; }
    unsigned below(unsigned n) { return n ? unsigned((next() >> 11) % n) : 0; }
    bool chance(unsigned pct) { return below(100) < pct; }
};

struct Fail { std::string what; explicit Fail(const std::string& w) : what(w) {} };
// a failed comparison is written at once (the containers of the sequence are still to be destroyed, and a damaged one may never get there)
#define CHECK(cond, msg) do { if (!(cond)) { std::ostringstream o_; o_ << msg; noteFailure(o_.str()); throw Fail(o_.str()); } } while (0)

static struct Counters { long seqs, ops, mismatches, rehash_sized, compactions, grow, reuse, imbalance; } g_c;

typedef std::basic_string<XalanDOMChar> U16;
static U16 toU16(const XalanDOMString& s) { return U16(s.c_str(), s.length()); }
static XalanDOMString mkStr(MemoryManager& mm, Rng& r, unsigned maxLen = 12) {
    XalanDOMString s(mm);
    unsigned n = r.below(maxLen + 1);
    for (unsigned i = 0; i < n; ++i) s.push_back(XalanDOMChar('a' + r.below(4)));
    return s;
}
static std::string show(const U16& s) { std::string o; for (size_t i = 0; i < s.size(); ++i) o += (s[i] < 128 && s[i] >= 32) ? char(s[i]) : '?'; return o; }

// element adaptors ------------------------------------------------------------------------
template <class T> struct Elem;
template <> struct Elem<int> {
    typedef int X; typedef int M;
    static X make(MemoryManager&, Rng& r) { return int(r.below(50)); }
    static M model(const X& x) { return x; }
    static bool same(const X& x, const M& m) { return x == m; }
};
template <> struct Elem<XalanDOMString> {
    typedef XalanDOMString X; typedef U16 M;
    static X make(MemoryManager& mm, Rng& r) { return mkStr(mm, r); }
    static M model(const X& x) { return toU16(x); }
    static bool same(const X& x, const M& m) { return toU16(x) == m; }
};

// weak hash to force collisions
struct WeakHash { size_t operator()(const int& k) const { return size_t(k) % 7u; } };
struct WeakTraits { typedef WeakHash Hasher; typedef std::equal_to<int> Comparator; };

// ---------------------------------------------------------------------------------------
// XalanMap<int,int> with weak hash, XalanMap<XalanDOMString,XalanDOMString>
template <class XMap, class MMap, class KeyGen>
static void compareMap(const XMap& x, const MMap& m, KeyGen, const char* when) {
    CHECK(x.size() == m.size(), when << ": size " << x.size() << " vs model " << m.size());
    CHECK(x.empty() == m.empty(), when << ": empty()");
    size_t n = 0;
    for (typename XMap::const_iterator i = x.begin(); i != x.end(); ++i, ++n) {
        typename MMap::const_iterator j = m.find(KeyGen::model((*i).first));
        CHECK(j != m.end(), when << ": iteration yields a key the model lacks");
        CHECK(KeyGen::sameV((*i).second, j->second), when << ": iteration value differs");
        CHECK(n <= m.size(), when << ": iteration longer than size");
    }
    CHECK(n == m.size(), when << ": iteration visited " << n << " entries, size " << m.size());
    for (typename MMap::const_iterator j = m.begin(); j != m.end(); ++j) {
        typename XMap::const_iterator i = x.find(KeyGen::unmodel(j->first, const_cast<XMap&>(x).getMemoryManager()));
        CHECK(i != x.end(), when << ": find() misses a present key");
        CHECK(KeyGen::sameV((*i).second, j->second), when << ": find() value differs");
    }
}
struct IntKG {
    typedef int XK; typedef int MK;
    static MK model(const XK& k) { return k; }
    static XK unmodel(const MK& k, MemoryManager&) { return k; }
    static bool sameV(int a, int b) { return a == b; }
    static XK key(MemoryManager&, Rng& r, unsigned range) { return int(r.below(range)); }
    static int val(MemoryManager&, Rng& r) { return int(r.below(1000)); }
    static int mval(int v) { return v; }
};
struct StrKG {
    typedef XalanDOMString XK; typedef U16 MK;
    static MK model(const XK& k) { return toU16(k); }
    static XK unmodel(const MK& k, MemoryManager& mm) { XalanDOMString s(mm); s.append(k.data(), k.size()); return s; }
    static bool sameV(const XalanDOMString& a, const U16& b) { return toU16(a) == b; }
    static XK key(MemoryManager& mm, Rng& r, unsigned range) { XalanDOMString s(mm); unsigned v = r.below(range); do { s.push_back(XalanDOMChar('a' + v % 3)); v /= 3; } while (v); return s; }
    static XalanDOMString val(MemoryManager& mm, Rng& r) { return mkStr(mm, r, 6); }
    static U16 mval(const XalanDOMString& v) { return toU16(v); }
};

template <class XMap, class KG, class MV>
static void runMap(CountMM& mm, CountMM& mm2, Rng& r, unsigned nops) {
    typedef std::map<typename KG::MK, MV> MMap;
    static const double lfs[] = {0.75, 0.5, 1.0, 2.0, 0.3};
    static const unsigned mbs[] = {1, 2, 5, 29};
    static const unsigned ets[] = {1, 2, 3, 5, 50};
    const double lf = lfs[r.below(5)]; const unsigned mb = mbs[r.below(4)], et = ets[r.below(5)];
    const unsigned range = 4 + r.below(60);
    XMap a(mm, lf, mb, et), b(mm, lf, mb, et);
    MMap ma, mb_;
    unsigned phase = r.below(3);   // 0 grow, 1 churn, 2 shrink
    for (unsigned op = 0; op < nops; ++op) {
        g_op = op; ++g_c.ops;
        if (r.chance(3)) phase = r.below(3);
        unsigned ins = phase == 0 ? 70 : phase == 1 ? 45 : 20;
        unsigned k = r.below(100);
        typename KG::XK key = KG::key(mm, r, range);
        typename KG::MK mkey = KG::model(key);
        if (k < ins) {
            unsigned how = r.below(3);
            if (how == 0) { typename XMap::data_type v = KG::val(mm, r); a.insert(key, v); ma.insert(std::make_pair(mkey, KG::mval(v))); }
            else if (how == 1) { typename XMap::data_type v = KG::val(mm, r); a[key] = v; ma[mkey] = KG::mval(v); }
            else { typename XMap::data_type v = KG::val(mm, r); a.insert(typename XMap::value_type(key, v)); ma.insert(std::make_pair(mkey, KG::mval(v))); }
        } else if (k < 85) {
            unsigned how = r.below(2);
            if (how == 0) { size_t n1 = a.erase(key); size_t n2 = ma.erase(mkey); CHECK(n1 == n2, "erase(key) returned " << n1 << " model " << n2); }
            else { typename XMap::iterator i = a.find(key); bool had = ma.count(mkey) != 0; CHECK((i != a.end()) == had, "find before erase(iterator)"); a.erase(i); ma.erase(mkey); }
        } else if (k < 90) {
            typename XMap::iterator i = a.find(key); typename MMap::iterator j = ma.find(mkey);
            CHECK((i != a.end()) == (j != ma.end()), "find() found/not found differs");
            if (i != a.end()) CHECK(KG::sameV((*i).second, j->second), "find() value differs");
        } else if (k < 92) { a.clear(); ma.clear(); }
        else if (k < 95) { a.swap(b); ma.swap(mb_); }
        else if (k < 97) { XMap c(a, r.chance(50) ? (MemoryManager&)mm2 : (MemoryManager&)mm); compareMap(c, ma, KG(), "copy"); }
        else if (k < 99) { b = a; mb_ = ma; compareMap(b, mb_, KG(), "assigned"); }
        else { a = a; }
        if (op % 7 == 0 || op + 1 == nops) { compareMap(a, ma, KG(), "a"); compareMap(b, mb_, KG(), "b"); }
    }
}

// XalanSet<int>
static void runSet(CountMM& mm, Rng& r, unsigned nops) {
    XalanSet<int> a(mm); std::set<int> m;
    unsigned range = 3 + r.below(80);
    for (unsigned op = 0; op < nops; ++op) {
        g_op = op; ++g_c.ops;
        int k = int(r.below(range)); unsigned w = r.below(100);
        if (w < 55) { a.insert(k); m.insert(k); }
        else if (w < 85) { size_t n1 = a.erase(k), n2 = m.erase(k); CHECK(n1 == n2, "set erase"); }
        else if (w < 97) { CHECK(a.count(k) == m.count(k), "set count(" << k << ")"); }
        else if (w < 98) { a.clear(); m.clear(); }
        else { XalanSet<int> c(a, mm); CHECK(c.size() == m.size(), "set copy size"); }
        CHECK(a.size() == m.size(), "set size " << a.size() << " vs " << m.size());
        if (op % 9 == 0) { size_t n = 0; for (XalanSet<int>::const_iterator i = a.begin(); i != a.end(); ++i, ++n) CHECK(m.count(*i) == 1, "set iteration yields absent value"); CHECK(n == m.size(), "set iteration count"); }
    }
}

// XalanVector<T>
template <class XV, class MV, class E>
static void compareSeq(const XV& x, const MV& m, E, const char* when) {
    CHECK(x.size() == m.size(), when << ": size " << x.size() << " vs model " << m.size());
    CHECK(x.empty() == m.empty(), when << ": empty()");
    typename MV::const_iterator j = m.begin(); size_t n = 0;
    for (typename XV::const_iterator i = x.begin(); i != x.end(); ++i, ++j, ++n) {
        CHECK(n < m.size(), when << ": iteration longer than size");
        CHECK(E::same(*i, *j), when << ": element " << n << " differs");
    }
    CHECK(n == m.size(), when << ": iteration count " << n);
}

template <class T, class Traits>
static void runVector(CountMM& mm, CountMM& mm2, Rng& r, unsigned nops) {
    typedef Elem<T> E; typedef XalanVector<T, Traits> XV; typedef std::vector<typename E::M> MV;
    XV a(mm, r.below(4)), b(r.chance(50) ? (MemoryManager&)mm2 : (MemoryManager&)mm);
    MV ma, mb;
    unsigned phase = r.below(3);
    for (unsigned op = 0; op < nops; ++op) {
        g_op = op; ++g_c.ops;
        if (r.chance(4)) phase = r.below(3);
        unsigned grow = phase == 0 ? 65 : phase == 1 ? 45 : 25;
        unsigned k = r.below(100);
        size_t cap0 = a.capacity();
        if (k < grow) {
            unsigned how = r.below(6);
            T v = E::make(mm, r);
            if (how <= 1) { a.push_back(v); ma.push_back(E::model(v)); }
            else if (how == 2) { size_t p = r.below(unsigned(ma.size()) + 1); typename XV::iterator it = a.insert(a.begin() + p, v); ma.insert(ma.begin() + p, E::model(v)); CHECK(size_t(it - a.begin()) == p, "insert(pos,v) returned iterator at " << (it - a.begin()) << " expected " << p); CHECK(E::same(*it, ma[p]), "insert(pos,v) iterator target"); }
            else if (how == 3) { size_t p = r.below(unsigned(ma.size()) + 1); unsigned n = r.below(5); a.insert(a.begin() + p, n, v); ma.insert(ma.begin() + p, n, E::model(v)); }
            else if (how == 4) { if (!mb.empty()) { size_t p = r.below(unsigned(ma.size()) + 1); size_t f = r.below(unsigned(mb.size())); size_t l = f + r.below(unsigned(mb.size() - f) + 1); a.insert(a.begin() + p, b.begin() + f, b.begin() + l); ma.insert(ma.begin() + p, mb.begin() + f, mb.begin() + l); } }
            else { size_t n = ma.size() + r.below(6); if (r.chance(50)) { a.resize(n, v); ma.resize(n, E::model(v)); } else { a.reserve(n + r.below(10)); } }
        } else if (k < 80) {
            unsigned how = r.below(5);
            if (ma.empty()) { /* nothing */ }
            else if (how == 0) { a.pop_back(); ma.pop_back(); }
            else if (how == 1) { size_t p = r.below(unsigned(ma.size())); typename XV::iterator it = a.erase(a.begin() + p); ma.erase(ma.begin() + p); CHECK(size_t(it - a.begin()) == p, "erase(pos) iterator"); }
            else if (how == 2) { size_t f = r.below(unsigned(ma.size())); size_t l = f + r.below(unsigned(ma.size() - f) + 1); typename XV::iterator it = a.erase(a.begin() + f, a.begin() + l); ma.erase(ma.begin() + f, ma.begin() + l); CHECK(size_t(it - a.begin()) == f, "erase(f,l) iterator"); }
            else if (how == 3) { size_t n = r.below(unsigned(ma.size()) + 1); T v = E::make(mm, r); a.resize(n, v); ma.resize(n, E::model(v)); }
            else { size_t p = r.below(unsigned(ma.size())); CHECK(E::same(a[p], ma[p]), "operator[]"); CHECK(E::same(a.at(p), ma.at(p)), "at()"); CHECK(E::same(a.front(), ma.front()), "front"); CHECK(E::same(a.back(), ma.back()), "back"); }
        } else if (k < 84) { a.swap(b); ma.swap(mb); }
        else if (k < 88) { b = a; mb = ma; }
        else if (k < 90) { a = a; }
        else if (k < 92) { XV c(a, r.chance(50) ? (MemoryManager&)mm2 : (MemoryManager&)mm, r.below(20)); compareSeq(c, ma, E(), "copy"); }
        else if (k < 94) { T v = E::make(mm, r); unsigned n = r.below(8); a.assign(n, v); ma.assign(n, E::model(v)); }
        else if (k < 96) { a.assign(b.begin(), b.end()); ma.assign(mb.begin(), mb.end()); }
        else if (k < 97) { a.clear(); ma.clear(); }
        else if (k < 98) { bool threw = false; try { a.at(ma.size() + r.below(3)); } catch (const std::out_of_range&) { threw = true; } catch (...) { threw = true; } CHECK(threw, "at() beyond size did not throw"); }
        else { size_t n = 0; typename MV::const_reverse_iterator j = ma.rbegin(); for (typename XV::const_reverse_iterator i = a.rbegin(); i != a.rend(); ++i, ++j, ++n) { CHECK(n < ma.size(), "reverse iteration too long"); CHECK(E::same(*i, *j), "reverse iteration element"); } CHECK(n == ma.size(), "reverse iteration count"); }
        if (a.capacity() != cap0) ++g_c.grow;
        CHECK(a.capacity() >= a.size(), "capacity < size");
        if (op % 5 == 0 || op + 1 == nops) { compareSeq(a, ma, E(), "a"); compareSeq(b, mb, E(), "b"); }
    }
}

// XalanList<T>
template <class T>
static void runList(CountMM& mm, Rng& r, unsigned nops) {
    typedef Elem<T> E; typedef XalanList<T> XL; typedef std::list<typename E::M> ML;
    XL a(mm), b(mm); ML ma, mb;
    unsigned phase = r.below(3);
    for (unsigned op = 0; op < nops; ++op) {
        g_op = op; ++g_c.ops;
        if (r.chance(4)) phase = r.below(3);
        unsigned grow = phase == 0 ? 65 : phase == 1 ? 45 : 25;
        unsigned k = r.below(100);
        if (k < grow) {
            T v = E::make(mm, r); unsigned how = r.below(3);
            if (how == 0) { a.push_back(v); ma.push_back(E::model(v)); }
            else if (how == 1) { a.push_front(v); ma.push_front(E::model(v)); }
            else { size_t p = r.below(unsigned(ma.size()) + 1); typename XL::iterator i = a.begin(); typename ML::iterator j = ma.begin(); std::advance(i, p); std::advance(j, p); typename XL::iterator ri = a.insert(i, v); ma.insert(j, E::model(v)); CHECK(E::same(*ri, E::model(v)), "list insert iterator target"); }
        } else if (k < 80) {
            if (!ma.empty()) {
                unsigned how = r.below(4);
                if (how == 0) { a.pop_back(); ma.pop_back(); }
                else if (how == 1) { a.pop_front(); ma.pop_front(); }
                else if (how == 2) { size_t p = r.below(unsigned(ma.size())); typename XL::iterator i = a.begin(); typename ML::iterator j = ma.begin(); std::advance(i, p); std::advance(j, p); a.erase(i); ma.erase(j); }
                else { CHECK(E::same(a.front(), ma.front()), "list front"); CHECK(E::same(a.back(), ma.back()), "list back"); }
            }
        } else if (k < 86) {   // splice one element b -> a
            if (!mb.empty()) { size_t p = r.below(unsigned(ma.size()) + 1), q = r.below(unsigned(mb.size())); typename XL::iterator i = a.begin(), bi = b.begin(); typename ML::iterator j = ma.begin(), bj = mb.begin(); std::advance(i, p); std::advance(j, p); std::advance(bi, q); std::advance(bj, q); a.splice(i, b, bi); ma.splice(j, mb, bj); }
        } else if (k < 90) {   // splice range b -> a
            if (!mb.empty()) { size_t p = r.below(unsigned(ma.size()) + 1), f = r.below(unsigned(mb.size())), l = f + r.below(unsigned(mb.size() - f) + 1); typename XL::iterator i = a.begin(), bf = b.begin(), bl = b.begin(); typename ML::iterator j = ma.begin(), mf = mb.begin(), ml = mb.begin(); std::advance(i, p); std::advance(j, p); std::advance(bf, f); std::advance(mf, f); std::advance(bl, l); std::advance(ml, l); a.splice(i, b, bf, bl); ma.splice(j, mb, mf, ml); }
        } else if (k < 92) {   // splice within the same list
            if (ma.size() >= 2) { size_t p = r.below(unsigned(ma.size()) + 1), q = r.below(unsigned(ma.size())); typename XL::iterator i = a.begin(), bi = a.begin(); typename ML::iterator j = ma.begin(), bj = ma.begin(); std::advance(i, p); std::advance(j, p); std::advance(bi, q); std::advance(bj, q); if (p != q) { a.splice(i, a, bi); ma.splice(j, ma, bj); } }
        } else if (k < 95) { a.swap(b); ma.swap(mb); }
        else if (k < 97) { a.clear(); ma.clear(); }
        else { size_t n = 0; typename ML::const_reverse_iterator j = ma.rbegin(); for (typename XL::const_reverse_iterator i = a.rbegin(); i != a.rend(); ++i, ++j, ++n) { CHECK(n < ma.size(), "list reverse too long"); CHECK(E::same(*i, *j), "list reverse element"); } CHECK(n == ma.size(), "list reverse count"); }
        if (op % 5 == 0 || op + 1 == nops) { compareSeq(a, ma, E(), "list a"); compareSeq(b, mb, E(), "list b"); }
    }
}

// XalanDeque<T>
template <class T, class Traits>
static void runDeque(CountMM& mm, CountMM& mm2, Rng& r, unsigned nops) {
    typedef Elem<T> E; typedef XalanDeque<T, Traits> XD; typedef std::deque<typename E::M> MD;
    const unsigned bs = 1 + r.below(12);
    const unsigned init = r.chance(30) ? r.below(25) : 0;
    XD a(mm, init, bs), b(mm, 0, bs); MD ma, mb;
    // initial elements are default constructed
    ma.clear(); for (unsigned i = 0; i < init; ++i) ma.push_back(typename E::M());
    unsigned phase = r.below(3);
    for (unsigned op = 0; op < nops; ++op) {
        g_op = op; ++g_c.ops;
        if (r.chance(4)) phase = r.below(3);
        unsigned grow = phase == 0 ? 65 : phase == 1 ? 45 : 25;
        unsigned k = r.below(100);
        if (k < grow) { T v = E::make(mm, r); a.push_back(v); ma.push_back(E::model(v)); }
        else if (k < 75) { if (!ma.empty()) { a.pop_back(); ma.pop_back(); } }
        else if (k < 82) { if (!ma.empty()) { size_t p = r.below(unsigned(ma.size())); CHECK(E::same(a[p], ma[p]), "deque operator[" << p << "]"); CHECK(E::same(a.back(), ma.back()), "deque back"); typename XD::iterator it = a.begin() + p; CHECK(E::same(*it, ma[p]), "deque begin()+n"); CHECK(size_t(it - a.begin()) == p, "deque iterator difference"); CHECK((a.begin() < it) == (p > 0), "deque iterator <"); } }
        else if (k < 86) { size_t n = r.chance(60) ? ma.size() + r.below(2 * bs + 2) : r.below(unsigned(ma.size()) + 1); a.resize(n); ma.resize(n); }
        else if (k < 89) { a.swap(b); ma.swap(mb); }
        else if (k < 92) { b = a; mb = ma; }
        else if (k < 94) { XD c(a, r.chance(50) ? (MemoryManager&)mm2 : (MemoryManager&)mm); compareSeq(c, ma, E(), "deque copy"); }
        else if (k < 96) { a.clear(); ma.clear(); }
        else if (k < 97) { a = a; }
        else { size_t n = 0; typename MD::const_reverse_iterator j = ma.rbegin(); const XD& ca = a; for (typename XD::const_reverse_iterator i = ca.rbegin(); i != ca.rend(); ++i, ++j, ++n) { CHECK(n < ma.size(), "deque reverse too long"); CHECK(E::same(*i, *j), "deque reverse element"); } CHECK(n == ma.size(), "deque reverse count"); }
        if (op % 5 == 0 || op + 1 == nops) { compareSeq(a, ma, E(), "deque a"); compareSeq(b, mb, E(), "deque b"); }
    }
}

// XalanDOMString vs u16string
static void checkStr(const XalanDOMString& x, const U16& m, const char* when) {
    CHECK(x.length() == m.size(), when << ": length " << x.length() << " vs model " << m.size() << " ('" << show(toU16(x)) << "' vs '" << show(m) << "')");
    CHECK(x.size() == m.size(), when << ": size()");
    CHECK(x.empty() == m.empty(), when << ": empty()");
    CHECK(x.c_str()[x.length()] == 0, when << ": not NUL terminated");
    CHECK(U16(x.c_str(), x.length()) == m, when << ": content '" << show(toU16(x)) << "' vs '" << show(m) << "'");
    CHECK(size_t(x.end() - x.begin()) == m.size(), when << ": end()-begin()");
    CHECK(x.capacity() >= x.length(), when << ": capacity < length");
}
static int sgn(int v) { return v < 0 ? -1 : v > 0 ? 1 : 0; }

static void runString(CountMM& mm, CountMM& mm2, Rng& r, unsigned nops) {
    XalanDOMString a(mm), b(r.chance(50) ? (MemoryManager&)mm2 : (MemoryManager&)mm); U16 ma, mb;
    for (unsigned op = 0; op < nops; ++op) {
        g_op = op; ++g_c.ops;
        unsigned k = r.below(40);
        XalanDOMString t = mkStr(mm, r, r.chance(10) ? 40 : 8); U16 mt = toU16(t);
        switch (k) {
        case 0: a.append(t); ma.append(mt); break;
        case 1: a.append(t.c_str()); ma.append(mt); break;
        case 2: { size_t n = r.below(unsigned(mt.size()) + 1); a.append(t.c_str(), n); ma.append(mt, 0, n); break; }
        case 3: { unsigned n = r.below(6); XalanDOMChar c = XalanDOMChar('x' + r.below(3)); a.append(n, c); ma.append(n, c); break; }
        case 4: a += t; ma += mt; break;
        case 5: { XalanDOMChar c = XalanDOMChar('A' + r.below(26)); a.push_back(c); ma.push_back(c); break; }
        case 6: a.append(a); ma.append(U16(ma)); break;                          // self append
        case 7: if (!mt.empty()) { size_t p = r.below(unsigned(mt.size())); size_t n = r.below(unsigned(mt.size() - p) + 1); a.append(t, p, n); ma.append(mt, p, n); } break;
        case 8: a.assign(t); ma.assign(mt); break;
        case 9: a.assign(t.c_str()); ma.assign(mt); break;
        case 10: { size_t n = r.below(unsigned(mt.size()) + 1); a.assign(t.c_str(), n); ma.assign(mt, 0, n); break; }
        case 11: { unsigned n = r.below(6); XalanDOMChar c = XalanDOMChar('p' + r.below(3)); a.assign(n, c); ma.assign(n, c); break; }
        case 12: a.assign(a); break;                                               // self assign
        case 13: a = a; break;
        case 14: if (!ma.empty()) { size_t p = r.below(unsigned(ma.size())); size_t n = r.below(unsigned(ma.size() - p) + 1); a.assign(a, p, n); ma = ma.substr(p, n); } break;   // self sub-assign
        case 15: if (!mt.empty()) { size_t p = r.below(unsigned(mt.size())); size_t n = r.below(unsigned(mt.size() - p) + 1); a.assign(t, p, n); ma.assign(mt, p, n); } break;
        case 16: { size_t p = r.below(unsigned(ma.size()) + 1); a.insert(p, t); ma.insert(p, mt); break; }
        case 17: { size_t p = r.below(unsigned(ma.size()) + 1); a.insert(p, t.c_str()); ma.insert(p, mt); break; }
        case 18: { size_t p = r.below(unsigned(ma.size()) + 1); unsigned n = r.below(5); XalanDOMChar c = XalanDOMChar('0' + r.below(10)); a.insert(p, n, c); ma.insert(p, n, c); break; }
        case 19: { size_t p = r.below(unsigned(ma.size()) + 1); XalanDOMChar c = XalanDOMChar('0' + r.below(10)); XalanDOMString::iterator it = a.insert(a.begin() + p, c); ma.insert(ma.begin() + p, c); CHECK(size_t(it - a.begin()) == p && *it == c, "insert(iterator,char) result"); break; }
        case 20: { size_t p = r.below(unsigned(ma.size()) + 1); unsigned n = r.below(5); XalanDOMChar c = XalanDOMChar('0' + r.below(10)); a.insert(a.begin() + p, n, c); ma.insert(ma.begin() + p, n, c); break; }
        case 21: { size_t p = r.below(unsigned(ma.size()) + 1); a.insert(a.begin() + p, t.begin(), t.end()); ma.insert(ma.begin() + p, mt.begin(), mt.end()); break; }
        case 22: { size_t p = r.below(unsigned(ma.size()) + 1); U16 copy(ma); a.insert(p, a); ma.insert(p, copy); break; }   // insert from itself
        case 23: if (!mt.empty()) { size_t p = r.below(unsigned(ma.size()) + 1); size_t q = r.below(unsigned(mt.size())); size_t n = r.below(unsigned(mt.size() - q) + 1); a.insert(p, t, q, n); ma.insert(p, mt, q, n); } break;
        case 24: if (!ma.empty()) { size_t p = r.below(unsigned(ma.size())); size_t n = r.below(unsigned(ma.size() - p) + 1); a.erase(p, n); ma.erase(p, n); } break;
        case 25: if (!ma.empty()) { size_t p = r.below(unsigned(ma.size())); a.erase(p); ma.erase(p); } break;
        case 26: if (!ma.empty()) { size_t p = r.below(unsigned(ma.size())); XalanDOMString::iterator it = a.erase(a.begin() + p); ma.erase(ma.begin() + p); CHECK(size_t(it - a.begin()) == p, "erase(iterator) result"); } break;
        case 27: if (!ma.empty()) { size_t p = r.below(unsigned(ma.size())); size_t q = p + r.below(unsigned(ma.size() - p) + 1); a.erase(a.begin() + p, a.begin() + q); ma.erase(ma.begin() + p, ma.begin() + q); } break;
        case 28: a.erase(); ma.erase(); break;
        case 29: a.clear(); ma.clear(); break;
        case 30: { size_t n = r.below(unsigned(ma.size()) + 6); XalanDOMChar c = XalanDOMChar('r' + r.below(3)); a.resize(n, c); ma.resize(n, c); break; }
        case 31: a.reserve(r.below(64)); break;
        case 32: a.swap(b); ma.swap(mb); break;
        case 33: b = a; mb = ma; break;
        case 34: if (!ma.empty()) { size_t p = r.below(unsigned(ma.size())); size_t n = r.below(unsigned(ma.size() - p) + 1); XalanDOMString s(mm); a.substr(s, p, n); checkStr(s, ma.substr(p, n), "substr"); } break;
        case 35: { CHECK(sgn(a.compare(t)) == sgn(ma.compare(mt)), "compare(string) '" << show(ma) << "' vs '" << show(mt) << "'"); CHECK(sgn(a.compare(t.c_str())) == sgn(ma.compare(mt)), "compare(ptr)"); CHECK((a == t) == (ma == mt), "operator=="); CHECK(XalanDOMString::equals(a, t) == (ma == mt), "equals"); break; }
        case 36: if (!ma.empty() && !mt.empty()) { size_t p = r.below(unsigned(ma.size())); size_t n = r.below(unsigned(ma.size() - p) + 1); size_t q = r.below(unsigned(mt.size())); size_t n2 = r.below(unsigned(mt.size() - q) + 1); CHECK(sgn(a.compare(p, n, t, q, n2)) == sgn(ma.compare(p, n, mt, q, n2)), "compare(p,n,s,q,n)"); CHECK(sgn(a.compare(p, n, t)) == sgn(ma.compare(p, n, mt)), "compare(p,n,s)"); } break;
        case 37: if (!ma.empty()) { size_t p = r.below(unsigned(ma.size())); CHECK(a[p] == ma[p], "operator[]"); CHECK(a.at(p) == ma.at(p), "at"); XalanDOMChar c = XalanDOMChar('!' + r.below(5)); a[p] = c; ma[p] = c; } break;
        case 38: { XalanDOMString c(a, r.chance(50) ? (MemoryManager&)mm2 : (MemoryManager&)mm); checkStr(c, ma, "copy ctor"); if (!ma.empty()) { size_t p = r.below(unsigned(ma.size())); XalanDOMString d(a, mm, p, XalanDOMString::npos); checkStr(d, ma.substr(p), "copy ctor(pos)"); } XalanDOMString e(a.c_str(), mm); checkStr(e, ma, "ctor(ptr)"); break; }
        default: { CHECK(a.hash() == XalanDOMString::hash(a.c_str(), a.length()), "hash"); XalanDOMString c(a, mm); CHECK(c.hash() == a.hash(), "hash of equal strings"); size_t n = 0; U16::const_reverse_iterator j = ma.rbegin(); for (XalanDOMString::const_reverse_iterator i = ((const XalanDOMString&)a).rbegin(); i != ((const XalanDOMString&)a).rend(); ++i, ++j, ++n) { CHECK(n < ma.size(), "reverse too long"); CHECK(*i == *j, "reverse element"); } CHECK(n == ma.size(), "reverse count"); break; }
        }
        checkStr(a, ma, "a"); checkStr(b, mb, "b");
    }
}

// XalanDOMStringPool vs std::set (pointer identity for equal strings), XalanBitmap vs vector<bool>
static void runPoolBitmap(CountMM& mm, Rng& r, unsigned nops) {
    XalanDOMStringPool pool(mm, 4 + r.below(8), 3 + r.below(20));
    std::map<U16, const XalanDOMString*> m;
    const unsigned bits = 1 + r.below(200);
    XalanBitmap bm(mm, bits); std::vector<bool> mbm(bits, false);
    for (unsigned op = 0; op < nops; ++op) {
        g_op = op; ++g_c.ops;
        unsigned k = r.below(100);
        if (k < 50) {
            XalanDOMString s = mkStr(mm, r, 5); U16 ms = toU16(s);
            const XalanDOMString& got = r.chance(50) ? pool.get(s) : pool.get(s.c_str(), s.length());
            CHECK(toU16(got) == ms, "pool returned a different string");
            std::map<U16, const XalanDOMString*>::iterator i = m.find(ms);
            if (ms.empty()) { /* the empty string is a shared static, not pooled */ }
            else if (i == m.end()) m[ms] = &got; else CHECK(i->second == &got, "pool returned a second instance for an equal string");
            CHECK(pool.size() == m.size(), "pool size " << pool.size() << " vs " << m.size());
        } else if (k < 52) { pool.clear(); m.clear(); CHECK(pool.size() == 0, "pool size after clear"); }
        else if (k < 53) { for (std::map<U16, const XalanDOMString*>::iterator i = m.begin(); i != m.end(); ++i) CHECK(toU16(*i->second) == i->first, "pooled string changed"); }
        else if (k < 70) { unsigned b = r.below(bits); bm.set(b); mbm[b] = true; }
        else if (k < 80) { unsigned b = r.below(bits); bm.clear(b); mbm[b] = false; }
        else if (k < 88) { unsigned b = r.below(bits); bm.toggle(b); mbm[b] = !mbm[b]; }
        else if (k < 89) { bm.clearAll(); mbm.assign(bits, false); }
        else { for (unsigned b = 0; b < bits; ++b) CHECK(bm.isSet(b) == mbm[b], "bitmap bit " << b); CHECK(bm.getSize() == bits, "bitmap size"); }
    }
}

// ---------------------------------------------------------------------------------------
static const char* const KINDS[] = {"map<int,int>", "map<string,string>", "set<int>", "vector<int>", "vector<string>",
                                    "list<int>", "list<string>", "deque<int>", "deque<string>", "string", "pool+bitmap"};
static const unsigned NKINDS = sizeof(KINDS) / sizeof(KINDS[0]);

static bool runOne(uint64_t seed, long idx, unsigned maxops, int only) {
    Rng r(seed * 1000003ull + uint64_t(idx) * 7919ull + 17);
    unsigned kind = only >= 0 ? unsigned(only) : unsigned(idx % NKINDS);
    r.next();
    unsigned nops = 10 + r.below(r.chance(15) ? maxops : maxops / 10 + 1);
    g_seq = idx; g_kind = KINDS[kind]; g_op = 0;
    CountMM mm, mm2;
    bool ok = true;
    std::string what;
    try {
        switch (kind) {
        case 0: runMap<XalanMap<int, int, WeakTraits>, IntKG, int>(mm, mm2, r, nops); break;
        case 1: runMap<XalanMap<XalanDOMString, XalanDOMString>, StrKG, U16>(mm, mm2, r, nops); break;
        case 2: runSet(mm, r, nops); break;
        case 3: runVector<int, MemoryManagedConstructionTraits<int> >(mm, mm2, r, nops); break;
        case 4: runVector<XalanDOMString, MemoryManagedConstructionTraits<XalanDOMString> >(mm, mm2, r, nops); break;
        case 5: runList<int>(mm, r, nops); break;
        case 6: runList<XalanDOMString>(mm, r, nops); break;
        case 7: runDeque<int, MemoryManagedConstructionTraits<int> >(mm, mm2, r, nops); break;
        case 8: runDeque<XalanDOMString, MemoryManagedConstructionTraits<XalanDOMString> >(mm, mm2, r, nops); break;
        case 9: runString(mm, mm2, r, nops); break;
        default: runPoolBitmap(mm, r, nops); break;
        }
    } catch (const Fail& f) { ok = false; what = f.what; }
    catch (const std::exception& e) { ok = false; what = std::string("unexpected exception: ") + e.what(); }
    catch (...) { ok = false; what = "unexpected exception"; }
    if (ok && (!mm.live.empty() || !mm2.live.empty() || mm.foreign || mm2.foreign)) {
        ok = false; std::ostringstream o; o << "manager imbalance at destruction: live=" << mm.live.size() << "+" << mm2.live.size() << " foreign=" << mm.foreign + mm2.foreign; what = o.str(); ++g_c.imbalance;
    }
    mm.reclaim(); mm2.reclaim();
    ++g_c.seqs;
    if (!ok) {
        ++g_c.mismatches;
        printf("MISMATCH seq=%ld kind=%s op=%ld nops=%u : %s\n", idx, KINDS[kind], (long)g_op, nops, what.c_str());
        fflush(stdout);
    }
    return ok;
}

int main(int argc, char** argv) {
    if (argc < 4) { fprintf(stderr, "usage: xvcont seed from count [maxops] [kind]\n"); return 2; }
    uint64_t seed = strtoull(argv[1], 0, 10); long from = strtol(argv[2], 0, 10), count = strtol(argv[3], 0, 10);
    unsigned maxops = argc > 4 ? unsigned(strtoul(argv[4], 0, 10)) : 2000;
    int only = argc > 5 ? atoi(argv[5]) : -1;
    signal(SIGSEGV, onSignal); signal(SIGBUS, onSignal); signal(SIGFPE, onSignal); signal(SIGILL, onSignal);
    if (__sanitizer_set_death_callback) __sanitizer_set_death_callback(announce); else signal(SIGABRT, onSignal);
    xercesc::XMLPlatformUtils::Initialize();
    XalanTransformer::initialize();
    for (long i = from; i < from + count; ++i) runOne(seed, i, maxops, only);
    printf("DONE seqs=%ld ops=%ld mismatches=%ld vector_capacity_changes=%ld imbalance=%ld\n", g_c.seqs, g_c.ops, g_c.mismatches, g_c.grow, g_c.imbalance);
    XalanTransformer::terminate();
    xercesc::XMLPlatformUtils::Terminate();
    return g_c.mismatches ? 1 : 0;
}
