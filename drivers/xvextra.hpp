// xpath / match / nodelist commands of xvdrv: direct use of the XPath engine on native and
// Xerces-wrapped trees, with variable and prefix bindings supplied by the caller.
#pragma once
#include "xvproto.hpp"
#include "xvcommon.hpp"

#include <sstream>
#include <stdint.h>
#include <xercesc/framework/MemBufInputSource.hpp>
#include <xercesc/parsers/XercesDOMParser.hpp>
#include <xercesc/sax/HandlerBase.hpp>
#include <xercesc/sax/SAXParseException.hpp>
#include <xalanc/XalanDOM/XalanAttr.hpp>
#include <xalanc/XalanDOM/XalanElement.hpp>
#include <xalanc/PlatformSupport/PrefixResolver.hpp>
#include <xalanc/PlatformSupport/FormatterListener.hpp>
#include <xalanc/DOMSupport/DOMSupportDefault.hpp>
#include <xalanc/XPath/XObject.hpp>
#include <xalanc/XPath/XObjectFactoryDefault.hpp>
#include <xalanc/XPath/XPath.hpp>
#include <xalanc/XPath/XPathConstructionContextDefault.hpp>
#include <xalanc/XPath/XPathEnvSupportDefault.hpp>
#include <xalanc/XPath/XPathExecutionContextDefault.hpp>
#include <xalanc/XPath/XPathProcessorImpl.hpp>
#include <xalanc/XPath/XalanQName.hpp>
#include <xalanc/XPath/MutableNodeRefList.hpp>
#include <xalanc/XPath/NodeRefList.hpp>
#include <xalanc/XalanSourceTree/XalanSourceTreeDOMSupport.hpp>
#include <xalanc/XalanSourceTree/XalanSourceTreeParserLiaison.hpp>
#include <xalanc/XercesParserLiaison/XercesParserLiaison.hpp>
#include <xalanc/XercesParserLiaison/XercesDOMSupport.hpp>
#include <xalanc/XercesParserLiaison/XercesDocumentWrapper.hpp>

namespace xvextra {
using namespace xalanc;
using namespace xv;

struct ErrH : public xercesc::HandlerBase {
    void fatalError(const xercesc::SAXParseException& e) { throw xercesc::SAXParseException(e); }
    void error(const xercesc::SAXParseException& e) { throw xercesc::SAXParseException(e); }
    void warning(const xercesc::SAXParseException&) {}
};

// A parsed document kept alive with everything it depends on.
struct Doc {
    bool xerces;
    XalanSourceTreeDOMSupport* stSupport; XalanSourceTreeParserLiaison* stLiaison;
    xercesc::XercesDOMParser* xparser; XercesParserLiaison* xLiaison; XercesDOMSupport* xSupport;
    XalanDocument* doc;
    // evaluation state shared by all xpath calls on this document (like one transformation):
    // released XObjects go back to the factory's caches and are recycled by later expressions
    XPathEnvSupportDefault* env; XObjectFactoryDefault* xof; XPathConstructionContextDefault* cctx; void* ectx;
    Doc() : xerces(false), stSupport(0), stLiaison(0), xparser(0), xLiaison(0), xSupport(0), doc(0), env(0), xof(0), cctx(0), ectx(0) {}
    DOMSupport& support() { return xerces ? (DOMSupport&)*xSupport : (DOMSupport&)*stSupport; }
    void destroy();
};

static std::map<long, Doc> g_docs;
static long g_nextDoc = 1;

inline bool isNsDecl(const XalanDOMString& n) {
    static const XalanDOMChar x[] = {'x', 'm', 'l', 'n', 's', 0};
    if (n.length() < 5) return false;
    for (int i = 0; i < 5; ++i) if (n[i] != x[i]) return false;
    return n.length() == 5 || n[5] == ':';
}

inline std::string pathOf(const XalanNode* n) {
    if (n == 0) return "(null)";
    switch (n->getNodeType()) {
    case XalanNode::DOCUMENT_NODE: return "/";
    case XalanNode::DOCUMENT_FRAGMENT_NODE: return "/";
    case XalanNode::ATTRIBUTE_NODE: {
        const XalanAttr* a = static_cast<const XalanAttr*>(n);
        std::string p = pathOf(a->getOwnerElement());
        const XalanDOMString& name = n->getNodeName();
        if (isNsDecl(name)) return p + "/ns:" + (name.length() > 6 ? u8(name).substr(6) : std::string());
        return p + "/@" + u8(name);
    }
    default: {
        const XalanNode* par = n->getParentNode();
        long idx = 0;
        for (const XalanNode* s = n->getPreviousSibling(); s; s = s->getPreviousSibling()) if (s->getNodeType() != XalanNode::DOCUMENT_TYPE_NODE) ++idx;
        std::string p = par ? pathOf(par) : std::string("?");
        if (p == "/") p.clear();
        return p + "/" + itos(idx);
    }
    }
}

inline XalanNode* nodeAt(XalanDocument* d, const std::string& path) {
    XalanNode* cur = d;
    size_t i = 0;
    if (path == "/") return d;
    while (i < path.size() && cur) {
        if (path[i] == '/') ++i;
        size_t j = path.find('/', i); if (j == std::string::npos) j = path.size();
        std::string comp = path.substr(i, j - i);
        i = j;
        if (comp.empty()) continue;
        if (comp[0] == '@' || comp.compare(0, 3, "ns:") == 0) {
            std::string want = comp[0] == '@' ? comp.substr(1) : (comp.size() > 3 ? "xmlns:" + comp.substr(3) : std::string("xmlns"));
            const XalanNamedNodeMap* m = cur->getAttributes();
            XalanNode* found = 0;
            if (m) for (XalanSize_t k = 0; k < m->getLength(); ++k) if (u8(m->item(k)->getNodeName()) == want) { found = m->item(k); break; }
            cur = found;
        } else {
            long idx = strtol(comp.c_str(), 0, 10);
            XalanNode* c = cur->getFirstChild();
            while (c && c->getNodeType() == XalanNode::DOCUMENT_TYPE_NODE) c = c->getNextSibling();
            while (c && idx-- > 0) { c = c->getNextSibling(); while (c && c->getNodeType() == XalanNode::DOCUMENT_TYPE_NODE) c = c->getNextSibling(); }
            cur = c;
        }
    }
    return cur;
}

class MapResolver : public PrefixResolver {
public:
    std::map<std::string, XalanDOMString*> m; XalanDOMString uri;
    ~MapResolver() { for (std::map<std::string, XalanDOMString*>::iterator i = m.begin(); i != m.end(); ++i) delete i->second; }
    void add(const std::string& p, const std::string& u) { XalanDOMString* s = new XalanDOMString(xs(u)); delete m[p]; m[p] = s; }
    void load(const std::string& spec) {   // "prefix=uri\n..."
        size_t i = 0;
        while (i < spec.size()) { size_t j = spec.find('\n', i); if (j == std::string::npos) j = spec.size(); std::string ln = spec.substr(i, j - i); i = j + 1; size_t e = ln.find('='); if (e != std::string::npos) add(ln.substr(0, e), ln.substr(e + 1)); }
    }
    virtual const XalanDOMString* getNamespaceForPrefix(const XalanDOMString& prefix) const {
        std::map<std::string, XalanDOMString*>::const_iterator i = m.find(u8(prefix));
        return i == m.end() ? 0 : i->second;
    }
    virtual const XalanDOMString& getURI() const { return uri; }
};

class VarCtx : public XPathExecutionContextDefault {
public:
    VarCtx(XPathEnvSupport& e, DOMSupport& d, XObjectFactory& f) : XPathExecutionContextDefault(e, d, f), strip(0) {}
    std::map<std::string, XObjectPtr> vars;    // "{uri}local"
    // strip != 0: behave like a stylesheet with <xsl:strip-space elements="*"/> (1) or with every second element name listed (2):
    // whitespace-only text nodes are not there, through every entry point alike
    int strip;
    void setStrip(int n) { strip = n; m_hasPreserveOrStripConditions = n != 0; }
    virtual bool shouldStripSourceNode(const XalanText& node) {
        if (strip == 0 || node.isWhitespace() == false) return false;
        if (strip == 1) return true;
        const XalanNode* p = node.getParentNode();
        return p != 0 && (p->getNodeName().length() % 2) == 1;
    }
    virtual const XObjectPtr getVariable(const XalanQName& name, const Locator* locator = 0) {
        std::string k = "{" + u8(name.getNamespace()) + "}" + u8(name.getLocalPart());
        std::map<std::string, XObjectPtr>::iterator i = vars.find(k);
        if (i != vars.end()) return i->second;
        return XPathExecutionContextDefault::getVariable(name, locator);
    }
};

inline void Doc::destroy() {
    delete static_cast<VarCtx*>(ectx); delete xof; delete cctx; delete env;
    delete stLiaison; delete stSupport;
    delete xSupport; delete xLiaison; delete xparser;
}

inline VarCtx& evalState(Doc& d) {
    MemoryManager& mm = XalanMemMgrs::getDefaultXercesMemMgr();
    if (!d.ectx) {
        d.env = new XPathEnvSupportDefault(mm);
        d.xof = new XObjectFactoryDefault(mm);
        d.cctx = new XPathConstructionContextDefault(mm);
        d.ectx = new VarCtx(*d.env, d.support(), *d.xof);
    }
    return *static_cast<VarCtx*>(d.ectx);
}

class Chars : public FormatterListener {
public:
    Chars() : FormatterListener(OUTPUT_METHOD_NONE) {}
    std::string got; long calls;
    virtual void charactersRaw(const XMLCh* const c, const size_type n) { u16to8(c, n, got); ++calls; }
    virtual void comment(const XMLCh* const) {}
    virtual void cdata(const XMLCh* const, const size_type) {}
    virtual void entityReference(const XMLCh* const) {}
    virtual void characters(const XMLCh* const c, const size_type n) { u16to8(c, n, got); ++calls; }
    virtual void endDocument() {}
    virtual void endElement(const XMLCh* const) {}
    virtual void ignorableWhitespace(const XMLCh* const, const size_type) {}
    virtual void processingInstruction(const XMLCh* const, const XMLCh* const) {}
    virtual void resetDocument() {}
    virtual void setDocumentLocator(const xercesc::Locator* const) {}
    virtual void startDocument() {}
    virtual void startElement(const XMLCh* const, AttributeListType&) {}
};

inline std::string dbits(double d) { uint64_t b; memcpy(&b, &d, 8); char buf[32]; snprintf(buf, sizeof buf, "%016llx", (unsigned long long)b); return buf; }
inline double bitsd(const std::string& h) { uint64_t b = strtoull(h.c_str(), 0, 16); double d; memcpy(&d, &b, 8); return d; }

inline std::string excText(const XSLException& e) { XalanDOMString s; e.defaultFormat(s); return u8(s); }

inline const char* typeName(XObject::eObjectType t) {
    switch (t) {
    case XObject::eTypeBoolean: return "boolean";
    case XObject::eTypeNumber: return "number";
    case XObject::eTypeString: return "string";
    case XObject::eTypeNodeSet: return "node-set";
    case XObject::eTypeResultTreeFrag: return "rtf";
    case XObject::eTypeNull: return "null";
    default: return "other";
    }
}

inline std::string nodesOf(const NodeRefListBase& l, Doc* home, bool withDoc) {
    std::string out;
    for (NodeRefListBase::size_type i = 0; i < l.getLength(); ++i) {
        XalanNode* n = l.item(i);
        if (withDoc) {
            // identify the document by handle
            const XalanDocument* od = n->getNodeType() == XalanNode::DOCUMENT_NODE ? static_cast<const XalanDocument*>(n) : n->getOwnerDocument();
            long h = 0;
            for (std::map<long, Doc>::iterator k = g_docs.begin(); k != g_docs.end(); ++k) if (k->second.doc == od) h = k->first;
            out += itos(h) + ":";
        }
        out += pathOf(n); out += '\n';
    }
    return out;
}

// ---------------------------------------------------------------------------------------
inline void cmdXdoc(const Msg& q, Msg& r) {
    Doc d;
    const std::string& xml = get(q, "xml");
    d.xerces = geti(q, "xerces") != 0;
    xercesc::MemBufInputSource mb((const XMLByte*)xml.data(), xml.size(), "xvdoc.xml");
    try {
        if (!d.xerces) {
            d.stSupport = new XalanSourceTreeDOMSupport;
            d.stLiaison = new XalanSourceTreeParserLiaison(*d.stSupport);
            d.stSupport->setParserLiaison(d.stLiaison);
            d.doc = d.stLiaison->parseXMLStream(mb);
        } else {
            d.xparser = new xercesc::XercesDOMParser;
            static ErrH eh; d.xparser->setErrorHandler(&eh);
            d.xparser->setDoNamespaces(true);
            d.xparser->setCreateEntityReferenceNodes(false);
            d.xparser->parse(mb);
            d.xLiaison = new XercesParserLiaison;
            d.xSupport = new XercesDOMSupport(*d.xLiaison);
            d.doc = d.xLiaison->createDocument(d.xparser->getDocument(), geti(q, "threadsafe") != 0, geti(q, "buildwrapper", 1) != 0, geti(q, "buildmaps", 1) != 0);
        }
    } catch (...) { d.destroy(); throw; }
    long h = g_nextDoc++;
    g_docs[h] = d;
    r["doc"] = itos(h);
}

inline void cmdXdocdel(const Msg& q, Msg& r) {
    std::map<long, Doc>::iterator i = g_docs.find(geti(q, "doc"));
    if (i == g_docs.end()) { r["error"] = "no such doc"; return; }
    i->second.destroy(); g_docs.erase(i);
}

inline void cmdXnodes(const Msg& q, Msg& r) {   // all node paths in the driver's own pre-order walk
    std::map<long, Doc>::iterator i = g_docs.find(geti(q, "doc"));
    if (i == g_docs.end()) { r["error"] = "no such doc"; return; }
    std::string out;
    struct W { static void walk(const XalanNode* n, std::string& out) {
        out += pathOf(n); out += '\n';
        const XalanNamedNodeMap* m = n->getNodeType() == XalanNode::ELEMENT_NODE ? n->getAttributes() : 0;
        if (m) for (XalanSize_t k = 0; k < m->getLength(); ++k) { out += pathOf(m->item(k)); out += '\n'; }
        for (const XalanNode* c = n->getFirstChild(); c; c = c->getNextSibling()) if (c->getNodeType() != XalanNode::DOCUMENT_TYPE_NODE) walk(c, out);
    } };
    W::walk(i->second.doc, out);
    r["nodes"] = out;
}

// vars: records "name\x1ftype\x1fvalue\x1e..." ; name is "{uri}local"; types: num(hexbits) str bool(0/1) nodes(paths, ';')
inline void loadVars(VarCtx& ctx, XObjectFactory& f, Doc& d, const std::string& spec) {
    size_t i = 0;
    while (i < spec.size()) {
        size_t j = spec.find('\x1e', i); if (j == std::string::npos) j = spec.size();
        std::string rec = spec.substr(i, j - i); i = j + 1;
        size_t a = rec.find('\x1f'), b = rec.find('\x1f', a + 1);
        if (a == std::string::npos || b == std::string::npos) continue;
        std::string name = rec.substr(0, a), type = rec.substr(a + 1, b - a - 1), val = rec.substr(b + 1);
        if (type == "num") ctx.vars[name] = f.createNumber(bitsd(val));
        else if (type == "str") ctx.vars[name] = f.createString(xs(val));
        else if (type == "bool") ctx.vars[name] = f.createBoolean(val == "1");
        else if (type == "nodes") {
            XPathExecutionContext::BorrowReturnMutableNodeRefList l(ctx);
            size_t p = 0;
            while (p < val.size()) { size_t e = val.find(';', p); if (e == std::string::npos) e = val.size(); std::string path = val.substr(p, e - p); p = e + 1; if (path.empty()) continue; XalanNode* n = nodeAt(d.doc, path); if (n) l->addNode(n); }
            l->setDocumentOrder();
            ctx.vars[name] = f.createNodeSet(l);
        }
    }
}

inline void cmdXpath(const Msg& q, Msg& r) {
    std::map<long, Doc>::iterator di = g_docs.find(geti(q, "doc"));
    if (di == g_docs.end()) { r["error"] = "no such doc"; return; }
    Doc& d = di->second;
    MemoryManager& mm = XalanMemMgrs::getDefaultXercesMemMgr();
    VarCtx& ectx = evalState(d);
    XObjectFactoryDefault& xof = *d.xof;
    XPathConstructionContextDefault& cctx = *d.cctx;
    if (geti(q, "fresh")) { ectx.reset(); xof.reset(); cctx.reset(); }
    ectx.setStrip(int(geti(q, "strip", 0)));
    MapResolver res; res.load(get(q, "ns"));
    XalanNode* ctxNode = nodeAt(d.doc, get(q, "ctx", "/"));
    if (!ctxNode) { r["error"] = "no such context node"; return; }
    const std::string entry = get(q, "entry", "generic");
    XPath xp(mm);
    XPathProcessorImpl proc(mm);
    try {
        proc.initXPath(xp, cctx, xs(get(q, "expr")), res);
    } catch (const XSLException& e) { r["compile_error"] = excText(e); return; }
    r["compiled"] = "1";
    loadVars(ectx, xof, d, get(q, "vars"));
    // context node list (position / size)
    MutableNodeRefList ctxList(mm);
    bool haveList = has(q, "ctxlist");
    if (haveList) {
        const std::string& val = get(q, "ctxlist"); size_t p = 0;
        while (p < val.size()) { size_t e = val.find(';', p); if (e == std::string::npos) e = val.size(); std::string path = val.substr(p, e - p); p = e + 1; if (path.empty()) continue; XalanNode* n = nodeAt(d.doc, path); if (n) ctxList.addNode(n); }
        ctxList.setDocumentOrder();
    }
    const bool all = entry == "all";
#define XV_TRY(tag, body) try { body } catch (const XSLException& e) { r[std::string(tag) + "_error"] = excText(e); }
    if (all || entry == "generic") XV_TRY("generic", {
        const XObjectPtr v(haveList ? xp.execute(ctxNode, res, ctxList, ectx) : xp.execute(ctxNode, res, ectx));
        r["type"] = typeName(v->getType());
        if (v->getType() == XObject::eTypeNodeSet) { r["nodes"] = nodesOf(v->nodeset(), &d, false); r["docorder"] = "1"; }
        // standard conversions of the general value
        r["g_bool"] = v->boolean(ectx) ? "1" : "0";
        r["g_num"] = dbits(v->num(ectx));
        r["g_str"] = u8(v->str(ectx));
        { Chars c; c.calls = 0; v->str(ectx, c, &FormatterListener::characters); r["g_chars"] = c.got; }
        { XalanDOMString s; v->str(ectx, s); r["g_str_append"] = u8(s); }
        r["g_len"] = itos(long(v->stringLength(ectx)));
    })
    if (all || entry == "bool") XV_TRY("bool", { bool b = false; if (haveList) xp.execute(ctxNode, res, ctxList, ectx, b); else xp.execute(ctxNode, res, ectx, b); r["bool"] = b ? "1" : "0"; })
    if (all || entry == "num") XV_TRY("num", { double x = 0; if (haveList) xp.execute(ctxNode, res, ctxList, ectx, x); else xp.execute(ctxNode, res, ectx, x); r["num"] = dbits(x); })
    if (all || entry == "str") XV_TRY("str", { XalanDOMString s(xs(get(q, "strprefix"))); if (haveList) xp.execute(ctxNode, res, ctxList, ectx, s); else xp.execute(ctxNode, res, ectx, s); r["str"] = u8(s); })
    if (all || entry == "chars") XV_TRY("chars", { Chars c; c.calls = 0; if (haveList) xp.execute(ctxNode, res, ctxList, ectx, c, &FormatterListener::characters); else xp.execute(ctxNode, res, ectx, c, &FormatterListener::characters); r["chars"] = c.got; })
    if (all || entry == "nodelist") XV_TRY("nodelist", {
        MutableNodeRefList l(mm);
        const XObjectPtr v(haveList ? xp.execute(ctxNode, res, ctxList, ectx, l) : xp.execute(ctxNode, res, ectx, l));
        if (v.null()) r["nodelist"] = nodesOf(l, &d, false);
        else { r["nodelist"] = nodesOf(v->nodeset(), &d, false); r["nodelist_via_xobject"] = "1"; }
    })
#undef XV_TRY
    ectx.vars.clear();
}

// match: pattern vs every node of the document -> "path score" lines (score: none or number)
inline void cmdMatch(const Msg& q, Msg& r) {
    std::map<long, Doc>::iterator di = g_docs.find(geti(q, "doc"));
    if (di == g_docs.end()) { r["error"] = "no such doc"; return; }
    Doc& d = di->second;
    MemoryManager& mm = XalanMemMgrs::getDefaultXercesMemMgr();
    XPathEnvSupportDefault env(mm);
    XObjectFactoryDefault xof(mm);
    XPathConstructionContextDefault cctx(mm);
    VarCtx ectx(env, d.support(), xof);
    MapResolver res; res.load(get(q, "ns"));
    XPath xp(mm);
    XPathProcessorImpl proc(mm);
    try { proc.initMatchPattern(xp, cctx, xs(get(q, "pattern")), res); }
    catch (const XSLException& e) { r["compile_error"] = excText(e); return; }
    loadVars(ectx, xof, d, get(q, "vars"));
    std::string out;
    struct W { static void one(XalanNode* n, const XPath& xp, const PrefixResolver& res, XPathExecutionContext& ectx, std::string& out) {
        XPath::eMatchScore s = xp.getMatchScore(n, res, ectx);
        out += pathOf(n); out += ' ';
        if (s == XPath::eMatchScoreNone) out += "none"; else { char b[32]; snprintf(b, sizeof b, "%g", XPath::getMatchScoreValue(s)); out += b; }
        out += '\n';
    }
    static void walk(XalanNode* n, const XPath& xp, const PrefixResolver& res, XPathExecutionContext& ectx, std::string& out) {
        one(n, xp, res, ectx, out);
        const XalanNamedNodeMap* m = n->getNodeType() == XalanNode::ELEMENT_NODE ? n->getAttributes() : 0;
        if (m) for (XalanSize_t k = 0; k < m->getLength(); ++k) one(m->item(k), xp, res, ectx, out);
        for (XalanNode* c = n->getFirstChild(); c; c = c->getNextSibling()) if (c->getNodeType() != XalanNode::DOCUMENT_TYPE_NODE) walk(c, xp, res, ectx, out);
    } };
    // ambient=1: match while a context node list is current, as during apply-templates / for-each (all elements of the
    // document, or every second one): a pattern's own position() / last() must not depend on it
    MutableNodeRefList ambient(mm);
    if (has(q, "ambient")) {
        struct C { static void collect(XalanNode* n, MutableNodeRefList& l, long& k, long step) {
            if (n->getNodeType() == XalanNode::ELEMENT_NODE && (k++ % step) == 0) l.addNode(n);
            for (XalanNode* c = n->getFirstChild(); c; c = c->getNextSibling()) collect(c, l, k, step);
        } };
        long k = 0;
        C::collect(d.doc, ambient, k, geti(q, "ambient") > 1 ? geti(q, "ambient") : 1);
        ambient.setDocumentOrder();
    }
    try {
        if (has(q, "ambient")) {
            XPathExecutionContext::ContextNodeListPushAndPop guard(ectx, ambient);
            W::walk(d.doc, xp, res, ectx, out);
        } else W::walk(d.doc, xp, res, ectx, out);
    }
    catch (const XSLException& e) { r["match_error"] = excText(e); }
    r["scores"] = out;
    ectx.vars.clear();
}

// nodelist: ops on a MutableNodeRefList (C12).  ops separated by '\n':
//   add <doc>:<path> | addindoc <doc>:<path> | addlist <order:doc|rev|unk> <doc>:<path>;...
//   | addlistindoc <order> ... | reverse | clear | removedups? (not public) | setorder doc|rev|unk
inline void cmdNodelist(const Msg& q, Msg& r) {
    MemoryManager& mm = XalanMemMgrs::getDefaultXercesMemMgr();
    // execution context from the first document named (needed by addNodeInDocOrder)
    std::map<long, Doc>::iterator d0 = g_docs.find(geti(q, "doc"));
    if (d0 == g_docs.end()) { r["error"] = "no such doc"; return; }
    XPathEnvSupportDefault env(mm);
    XObjectFactoryDefault xof(mm);
    VarCtx ectx(env, d0->second.support(), xof);
    MutableNodeRefList list(mm);
    struct P { static XalanNode* node(const std::string& spec) {
        size_t c = spec.find(':'); if (c == std::string::npos) return 0;
        std::map<long, Doc>::iterator d = g_docs.find(strtol(spec.substr(0, c).c_str(), 0, 10));
        if (d == g_docs.end()) return 0;
        return nodeAt(d->second.doc, spec.substr(c + 1));
    } };
    const std::string& ops = get(q, "ops");
    size_t i = 0; long n = 0;
    while (i < ops.size()) {
        size_t j = ops.find('\n', i); if (j == std::string::npos) j = ops.size();
        std::string op = ops.substr(i, j - i); i = j + 1; ++n;
        std::istringstream is(op); std::string verb; is >> verb;
        if (verb == "add" || verb == "addindoc") { std::string sp; is >> sp; XalanNode* nd = P::node(sp); if (!nd) { r["error"] = "bad node " + sp; return; } if (verb == "add") list.addNode(nd); else list.addNodeInDocOrder(nd, ectx); }
        else if (verb == "addlist" || verb == "addlistindoc") {
            std::string order, sp; is >> order >> sp;
            MutableNodeRefList src(mm); size_t p = 0;
            while (p < sp.size()) { size_t e = sp.find(';', p); if (e == std::string::npos) e = sp.size(); std::string one = sp.substr(p, e - p); p = e + 1; if (one.empty()) continue; XalanNode* nd = P::node(one); if (nd) src.addNode(nd); }
            if (order == "doc") src.setDocumentOrder(); else if (order == "rev") src.setReverseDocumentOrder(); else src.setUnknownOrder();
            if (verb == "addlist") list.addNodes(src); else list.addNodesInDocOrder(src, ectx);
        }
        else if (verb == "reverse") list.reverse();
        else if (verb == "clear") list.clear();
        else if (verb == "setorder") { std::string o; is >> o; if (o == "doc") list.setDocumentOrder(); else if (o == "rev") list.setReverseDocumentOrder(); else list.setUnknownOrder(); }
        else { r["error"] = "bad op " + verb; return; }
    }
    r["nodes"] = nodesOf(list, 0, true);
    r["order"] = list.getDocumentOrder() ? "doc" : list.getReverseDocumentOrder() ? "rev" : "unk";
}

inline void init() {}
inline void term() { for (std::map<long, Doc>::iterator i = g_docs.begin(); i != g_docs.end(); ++i) i->second.destroy(); g_docs.clear(); }
inline bool dispatch(const std::string& cmd, const Msg& q, Msg& r) {
    if (cmd == "xdoc") cmdXdoc(q, r);
    else if (cmd == "xdocdel") cmdXdocdel(q, r);
    else if (cmd == "xnodes") cmdXnodes(q, r);
    else if (cmd == "xpath") cmdXpath(q, r);
    else if (cmd == "match") cmdMatch(q, r);
    else if (cmd == "nodelist") cmdNodelist(q, r);
    else return false;
    return true;
}
}  // namespace xvextra
