// xpath / match / nodelist / serialize commands of xvdrv (filled in incrementally).
#pragma once
#include "xvproto.hpp"
#include "xvcommon.hpp"
namespace xvextra {
inline void init() {}
inline void term() {}
inline bool dispatch(const std::string& cmd, const xv::Msg& q, xv::Msg& r) { (void)cmd; (void)q; (void)r; return false; }
}
