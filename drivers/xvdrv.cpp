// xvdrv — persistent worker driving the public API of libxalan-c for the /verif monitors.
// Requests/replies: see xvproto.hpp.  One request is in flight at a time; when the process
// dies (sanitizer abort, signal, terminate) the orchestrator attributes it to that request.
#include "xvproto.hpp"
#include "xvcommon.hpp"

#include <csignal>
#include <cmath>
#include <fstream>
#include <iostream>
#include <sstream>
#include <stdexcept>
#include <stdint.h>

#include <xercesc/util/PlatformUtils.hpp>
#include <xercesc/util/XMLException.hpp>
#include <xercesc/util/OutOfMemoryException.hpp>
#include <xercesc/sax/SAXException.hpp>
#include <xercesc/sax/SAXParseException.hpp>
#include <xercesc/sax/HandlerBase.hpp>
#include <xercesc/sax2/SAX2XMLReader.hpp>
#include <xercesc/sax2/XMLReaderFactory.hpp>
#include <xercesc/sax2/DefaultHandler.hpp>
#include <xercesc/framework/MemBufInputSource.hpp>
#include <xercesc/framework/LocalFileInputSource.hpp>
#include <xercesc/parsers/XercesDOMParser.hpp>
#include <xercesc/dom/DOM.hpp>

#include <xalanc/Include/XalanAutoPtr.hpp>
#include <xalanc/Include/XalanMemoryManagement.hpp>
#include <xalanc/PlatformSupport/XSLException.hpp>
#include <xalanc/PlatformSupport/DOMStringHelper.hpp>
#include <xalanc/PlatformSupport/DoubleSupport.hpp>
#include <xalanc/PlatformSupport/URISupport.hpp>
#include <xalanc/PlatformSupport/FormatterListener.hpp>
#include <xalanc/XalanDOM/XalanDOMException.hpp>
#include <xalanc/XPath/XObjectFactory.hpp>
#include <xalanc/XPath/XObject.hpp>
#include <xalanc/XPath/Function.hpp>
#include <xalanc/XalanTransformer/XalanTransformer.hpp>
#include <xalanc/XalanTransformer/XalanCAPI.h>
#include <xalanc/XalanTransformer/XalanDocumentBuilder.hpp>
#include <xalanc/XalanTransformer/XalanCompiledStylesheet.hpp>
#include <xalanc/XalanTransformer/XalanParsedSource.hpp>
#include <xalanc/XalanTransformer/XercesDOMWrapperParsedSource.hpp>
#include <xalanc/XalanTransformer/XalanSourceTreeWrapperParsedSource.hpp>
#include <xalanc/XercesParserLiaison/XercesParserLiaison.hpp>
#include <xalanc/XercesParserLiaison/XercesDOMSupport.hpp>
#include <xalanc/XercesParserLiaison/FormatterToXercesDOM.hpp>
#include <xalanc/XalanSourceTree/XalanSourceTreeDOMSupport.hpp>
#include <xalanc/XalanSourceTree/XalanSourceTreeParserLiaison.hpp>
#include <xalanc/XalanSourceTree/XalanSourceTreeDocument.hpp>
#include <xalanc/XalanSourceTree/FormatterToSourceTree.hpp>

#include "xvextra.hpp"
#include "xvser.hpp"

using namespace xv;
using namespace xalanc;
using xercesc::MemoryManager;

// ---------------------------------------------------------------------------------------
// counting memory manager (balance check of C19 on ordinary runs, exact leak measurement)
class CountingMM : public XalanMemoryManager {
public:
    CountingMM() : allocs(0), frees(0), foreign(0) {}
    virtual void* allocate(XMLSize_t size) {
        void* p = ::operator new(size);
        live[p] = size; ++allocs; return p;
    }
    virtual void deallocate(void* p) {
        if (!p) return;
        std::map<void*, size_t>::iterator i = live.find(p);
        if (i == live.end()) { ++foreign; return; }
        live.erase(i); ++frees; ::operator delete(p);
    }
    virtual MemoryManager* getExceptionMemoryManager() { return this; }
    void reclaim() { for (std::map<void*, size_t>::iterator i = live.begin(); i != live.end(); ++i) ::operator delete(i->first); live.clear(); }
    std::map<void*, size_t> live;
    unsigned long allocs, frees, foreign;
};

struct TState {
    CountingMM* mm;
    XalanTransformer* t;
    std::ostringstream* warn;
    std::map<long, const XalanCompiledStylesheet*> cs;
    std::map<long, const XalanParsedSource*> ps;
    TState() : mm(0), t(0), warn(0) {}
};

static std::map<long, TState> g_t;
static long g_next = 1;

// ---------------------------------------------------------------------------------------
struct CbSink { std::string data; long failAfter; long calls; long flushes; };
extern "C" {
static CallbackSizeType cbWrite(const char* buf, CallbackSizeType n, void* h) {
    CbSink* s = static_cast<CbSink*>(h);
    ++s->calls;
    if (s->failAfter >= 0 && long(s->data.size() + n) > s->failAfter) return 0;
    s->data.append(buf, n);
    return n;
}
static void cbFlush(void* h) { ++static_cast<CbSink*>(h)->flushes; }
}

static std::string readFile(const std::string& p) {
    std::ifstream f(p.c_str(), std::ios::binary);
    std::ostringstream o; o << f.rdbuf(); return o.str();
}

static std::string excString(const XSLException& e) {
    XalanDOMString s; e.defaultFormat(s); return u8(s);
}

// Runs f, mapping any escaping exception to reply fields.  An exception that leaves a
// XalanTransformer entry point is itself an observation ("escaped").
#define XV_GUARD_BEGIN try {
#define XV_GUARD_END(r) } \
    catch (const XSLException& e) { (r)["escaped"] = "XSLException: " + excString(e); } \
    catch (const xercesc::SAXParseException& e) { (r)["escaped"] = "SAXParseException: " + u8(e.getMessage()); } \
    catch (const xercesc::SAXException& e) { (r)["escaped"] = "SAXException: " + u8(e.getMessage()); } \
    catch (const xercesc::XMLException& e) { (r)["escaped"] = "XMLException: " + u8(e.getMessage()); } \
    catch (const xercesc::DOMException& e) { (r)["escaped"] = "DOMException: " + u8(e.getMessage()); } \
    catch (const XalanDOMException& e) { (r)["escaped"] = "XalanDOMException: " + itos(e.getExceptionCode()); } \
    catch (const xercesc::OutOfMemoryException&) { (r)["escaped"] = "OutOfMemoryException"; } \
    catch (const std::bad_alloc&) { (r)["escaped"] = "std::bad_alloc"; } \
    catch (const std::exception& e) { (r)["escaped"] = std::string("std::exception: ") + e.what(); } \
    catch (...) { (r)["escaped"] = "unknown exception"; }

static TState* findT(const Msg& q, Msg& r) {
    std::map<long, TState>::iterator i = g_t.find(geti(q, "t"));
    if (i == g_t.end()) { r["error"] = "no such transformer"; return 0; }
    return &i->second;
}

static void setSysId(XSLTInputSource& s, const std::string& id) {
    if (!id.empty()) s.setSystemId(xs(id).c_str());
}

// ---------------------------------------------------------------------------------------
static void cmdTnew(const Msg& q, Msg& r) {
    TState s;
    s.warn = new std::ostringstream;
    if (geti(q, "mm")) { s.mm = new CountingMM; s.t = new XalanTransformer(*s.mm); }
    else s.t = new XalanTransformer;
    s.t->setWarningStream(s.warn);
    s.t->setErrorStream(s.warn);
    long h = g_next++;
    g_t[h] = s;
    r["t"] = itos(h);
}

static void cmdTdel(const Msg& q, Msg& r) {
    std::map<long, TState>::iterator i = g_t.find(geti(q, "t"));
    if (i == g_t.end()) { r["error"] = "no such transformer"; return; }
    delete i->second.t;
    delete i->second.warn;
    if (i->second.mm) {
        r["mm_live"] = itos(i->second.mm->live.size());
        r["mm_allocs"] = itos(i->second.mm->allocs);
        r["mm_foreign"] = itos(i->second.mm->foreign);
        i->second.mm->reclaim();
        delete i->second.mm;
    }
    g_t.erase(i);
}

static void cmdCompile(const Msg& q, Msg& r) {
    TState* s = findT(q, r); if (!s) return;
    const XalanCompiledStylesheet* cs = 0;
    int rc;
    if (has(q, "xslpath") && !has(q, "xsl")) {
        rc = s->t->compileStylesheet(XSLTInputSource(get(q, "xslpath").c_str()), cs);
    } else {
        std::istringstream in(get(q, "xsl"));
        XSLTInputSource src(&in);
        setSysId(src, get(q, "sysid"));
        rc = s->t->compileStylesheet(src, cs);
    }
    r["status"] = itos(rc);
    if (rc != 0) r["err"] = s->t->getLastError();
    else { long h = g_next++; s->cs[h] = cs; r["cs"] = itos(h); }
}

static void cmdParse(const Msg& q, Msg& r) {
    TState* s = findT(q, r); if (!s) return;
    const XalanParsedSource* ps = 0;
    int rc;
    bool xer = geti(q, "xerces") != 0;
    if (has(q, "xmlpath") && !has(q, "xml")) {
        rc = s->t->parseSource(XSLTInputSource(get(q, "xmlpath").c_str()), ps, xer);
    } else {
        std::istringstream in(get(q, "xml"));
        XSLTInputSource src(&in);
        setSysId(src, get(q, "sysid"));
        rc = s->t->parseSource(src, ps, xer);
    }
    r["status"] = itos(rc);
    if (rc != 0) r["err"] = s->t->getLastError();
    else { long h = g_next++; s->ps[h] = ps; r["ps"] = itos(h); }
}

static void cmdCsdel(const Msg& q, Msg& r) {
    TState* s = findT(q, r); if (!s) return;
    std::map<long, const XalanCompiledStylesheet*>::iterator i = s->cs.find(geti(q, "cs"));
    if (i == s->cs.end()) { r["error"] = "no such cs"; return; }
    r["status"] = itos(s->t->destroyStylesheet(i->second));
    s->cs.erase(i);
}
static void cmdPsdel(const Msg& q, Msg& r) {
    TState* s = findT(q, r); if (!s) return;
    std::map<long, const XalanParsedSource*>::iterator i = s->ps.find(geti(q, "ps"));
    if (i == s->ps.end()) { r["error"] = "no such ps"; return; }
    r["status"] = itos(s->t->destroyParsedSource(i->second));
    s->ps.erase(i);
}

static void cmdParam(const Msg& q, Msg& r) {
    TState* s = findT(q, r); if (!s) return;
    const std::string& kind = get(q, "kind");
    const std::string& name = get(q, "name");
    const std::string& val = get(q, "value");
    if (kind == "expr") s->t->setStylesheetParam(xs(name), xs(val));
    else if (kind == "cexpr") s->t->setStylesheetParam(name.c_str(), val.c_str());
    else if (kind == "num") s->t->setStylesheetParam(xs(name), strtod(val.c_str(), 0));
    else if (kind == "cnum") s->t->setStylesheetParam(name.c_str(), strtod(val.c_str(), 0));
    else if (kind == "xstr") s->t->setStylesheetParam(xs(name), s->t->getXObjectFactory().createString(xs(val)));
    else if (kind == "xnum") s->t->setStylesheetParam(xs(name), s->t->getXObjectFactory().createNumber(strtod(val.c_str(), 0)));
    else if (kind == "xbool") s->t->setStylesheetParam(xs(name), s->t->getXObjectFactory().createBoolean(val == "1"));
    else if (kind == "nodeset") {
        std::map<long, const XalanParsedSource*>::iterator i = s->ps.find(strtol(val.c_str(), 0, 10));
        if (i == s->ps.end()) { r["error"] = "no such ps"; return; }
        s->t->setStylesheetParam(xs(name), (XalanNode*)i->second->getDocument());
    }
    else if (kind == "clear") s->t->clearStylesheetParams();
    else r["error"] = "bad kind";
}

// extfn: install / uninstall an external function in the local space of one transformer.  The function returns its tag and the string
// value of its first argument, so a transformation shows which installation (if any) it saw.
class VerifFunction : public Function {
public:
    VerifFunction(const std::string& tag) : m_tag(tag) {}
    virtual XObjectPtr execute(XPathExecutionContext& executionContext, XalanNode*, const XObjectArgVectorType& args, const Locator*) const {
        XPathExecutionContext::GetAndReleaseCachedString g(executionContext);
        XalanDOMString& res = g.get();
        res.assign(m_tag.c_str());
        res.append(1, XalanDOMChar(':'));
        if (args.size() > 0) res.append(args[0]->str(executionContext));
        return executionContext.getXObjectFactory().createString(res);
    }
    using Function::execute;
    virtual VerifFunction* clone(MemoryManager& theManager) const { return XalanCopyConstruct(theManager, *this); }
protected:
    const XalanDOMString& getError(XalanDOMString& theResult) const { theResult.assign("verif function"); return theResult; }
private:
    std::string m_tag;
};

static void cmdExtfn(const Msg& q, Msg& r) {
    TState* s = findT(q, r); if (!s) return;
    const std::string& kind = get(q, "kind");
    const XalanDOMString ns("urn:verif-ext"), name(get(q, "name").c_str());
    if (kind == "install") s->t->installExternalFunction(ns, name, VerifFunction(get(q, "tag")));
    else if (kind == "uninstall") s->t->uninstallExternalFunction(ns, name);
    else r["error"] = "bad kind";
}

// snapshot: sizes of the internal stacks of the transformer's execution context (hook H2, guard APACHE_XALAN_C_VERIF)
static void cmdSnapshot(const Msg& q, Msg& r) {
    TState* s = findT(q, r); if (!s) return;
#if defined(APACHE_XALAN_C_VERIF)
    XalanVector<XalanSize_t> v(XalanMemMgrs::getDefaultXercesMemMgr());
    s->t->verifSnapshot(v);
    std::string o;
    for (XalanVector<XalanSize_t>::size_type i = 0; i < v.size(); ++i) { if (i) o += ','; o += itos(long(v[i])); }
    r["sizes"] = o;
#else
    r["error"] = "built without APACHE_XALAN_C_VERIF";
#endif
}

static void cmdSetopt(const Msg& q, Msg& r) {
    TState* s = findT(q, r); if (!s) return;
    if (has(q, "indent")) s->t->setIndent(int(geti(q, "indent")));
    if (has(q, "encoding")) s->t->setOutputEncoding(xs(get(q, "encoding")));
    if (has(q, "escapeurls")) s->t->setEscapeURLs(XalanTransformer::eEscapeURLs(geti(q, "escapeurls")));
    if (has(q, "omitmeta")) s->t->setOmitMETATag(XalanTransformer::eOmitMETATag(geti(q, "omitmeta")));
    if (has(q, "validation")) s->t->setUseValidation(geti(q, "validation") != 0);
    if (has(q, "pooltext")) s->t->setPoolAllTextNodes(geti(q, "pooltext") != 0);
}

// --- the transform command: every supply form of C05 -----------------------------------
// src  : file | stream | ps | parsed | parsedx | xerceswrap | stwrap | builder
// sty  : file | stream | cs | compiled | pi
// tgt  : stream | file | callback | dom | sourcetree
// layer: cpp | capi  (capi: src in file|ps-less forms, see below)
namespace {
struct SaxErr : public xercesc::DefaultHandler {
    void fatalError(const xercesc::SAXParseException& e) { throw xercesc::SAXParseException(e); }
    void error(const xercesc::SAXParseException& e) { throw xercesc::SAXParseException(e); }
};
}

static int runTarget(XalanTransformer& t, const Msg& q, Msg& r,
                     const XalanParsedSource* ps, const XSLTInputSource* in,
                     const XalanCompiledStylesheet* cs, const XSLTInputSource* sty) {
    const std::string tgt = get(q, "tgt", "stream");
    // Only some (source, stylesheet, target) triples exist as overloads; others are routed
    // through the nearest one (noted in DESIGN: parsed source + stylesheet source + callback
    // does not exist, so the stylesheet is compiled first).
    if (tgt == "stream" || tgt == "file" || tgt == "dom" || tgt == "sourcetree") {
        std::ostringstream out;
        XalanAutoPtr<xercesc::DOMDocument> dom;
        XalanAutoPtr<FormatterToXercesDOM> fdom;
        XalanAutoPtr<XalanSourceTreeDOMSupport> stsup;
        XalanAutoPtr<XalanSourceTreeParserLiaison> stlia;
        XalanSourceTreeDocument* stdoc = 0;
        XalanAutoPtr<FormatterToSourceTree> fst;
        XalanAutoPtr<XSLTResultTarget> target;
        if (tgt == "stream") target.reset(new XSLTResultTarget(out));
        else if (tgt == "file") target.reset(new XSLTResultTarget(xs(get(q, "outpath"))));
        else if (tgt == "dom") {
            dom.reset(xercesc::DOMImplementation::getImplementation()->createDocument());
            fdom.reset(new FormatterToXercesDOM(dom.get(), 0));
            target.reset(new XSLTResultTarget(*fdom));
        } else {
            stsup.reset(new XalanSourceTreeDOMSupport);
            stlia.reset(new XalanSourceTreeParserLiaison(*stsup));
            stsup->setParserLiaison(stlia.get());
            stdoc = stlia->createXalanSourceTreeDocument();
            fst.reset(new FormatterToSourceTree(XalanMemMgrs::getDefaultXercesMemMgr(), stdoc));
            target.reset(new XSLTResultTarget(*fst));
        }
        int rc;
        if (ps && cs) rc = t.transform(*ps, cs, *target);
        else if (ps && sty) rc = t.transform(*ps, *sty, *target);
        else if (ps) rc = t.transform(*ps, *target);
        else if (in && cs) rc = t.transform(*in, cs, *target);
        else if (in && sty) rc = t.transform(*in, *sty, *target);
        else rc = t.transform(*in, *target);
        if (tgt == "stream") r["out"] = out.str();
        else if (tgt == "file") { target.reset(0); r["out"] = readFile(get(q, "outpath")); }
        else if (tgt == "dom") { std::string d; if (rc == 0) dumpXerces(dom.get(), d); r["out"] = d; }
        else { std::string d; if (rc == 0) dumpXalan(stdoc, d); r["out"] = d; }
        return rc;
    }
    if (tgt == "callback") {
        CbSink sink; sink.failAfter = has(q, "cbfail") ? geti(q, "cbfail") : -1; sink.calls = 0; sink.flushes = 0;
        int rc;
        if (ps && cs) rc = t.transform(*ps, cs, &sink, cbWrite, cbFlush);
        else if (in && sty) rc = t.transform(*in, *sty, &sink, cbWrite, cbFlush);
        else if (in && !cs) rc = t.transform(*in, &sink, cbWrite, cbFlush);
        else { r["error"] = "unsupported combination for callback"; return -99; }
        r["out"] = sink.data; r["cbcalls"] = itos(sink.calls); r["cbflush"] = itos(sink.flushes);
        return rc;
    }
    r["error"] = "bad tgt";
    return -99;
}

static void cmdTransform(const Msg& q, Msg& r) {
    TState* s = findT(q, r); if (!s) return;
    XalanTransformer& t = *s->t;
    s->warn->str("");
    const std::string src = get(q, "src", "stream");
    const std::string sty = get(q, "sty", "stream");
    const std::string& xml = get(q, "xml");
    const std::string& xsl = get(q, "xsl");
    int rc = -99;

    // stylesheet side
    const XalanCompiledStylesheet* cs = 0;
    bool ownCs = false;
    std::istringstream xslStream(xsl);
    XalanAutoPtr<XSLTInputSource> styIn;
    if (sty == "file") styIn.reset(new XSLTInputSource(get(q, "xslpath").c_str()));
    else if (sty == "stream") { styIn.reset(new XSLTInputSource(&xslStream)); setSysId(*styIn, get(q, "xslsysid")); }
    else if (sty == "cs") {
        std::map<long, const XalanCompiledStylesheet*>::iterator i = s->cs.find(geti(q, "cs"));
        if (i == s->cs.end()) { r["error"] = "no such cs"; return; }
        cs = i->second;
    } else if (sty == "compiled") {
        XSLTInputSource c(&xslStream); setSysId(c, get(q, "xslsysid"));
        int crc = has(q, "xslpath") && get(q, "xslsysid").empty()
                      ? t.compileStylesheet(XSLTInputSource(get(q, "xslpath").c_str()), cs)
                      : t.compileStylesheet(c, cs);
        if (crc != 0) { r["status"] = itos(crc); r["err"] = t.getLastError(); r["phase"] = "compile"; return; }
        ownCs = true;
    } else if (sty == "pi") { /* neither */ }
    else { r["error"] = "bad sty"; return; }

    // source side
    std::istringstream xmlStream(xml);
    XalanAutoPtr<XSLTInputSource> srcIn;
    const XalanParsedSource* ps = 0;
    bool ownPs = false;
    if (src == "file") srcIn.reset(new XSLTInputSource(get(q, "xmlpath").c_str()));
    else if (src == "stream") { srcIn.reset(new XSLTInputSource(&xmlStream)); setSysId(*srcIn, get(q, "xmlsysid")); }
    else if (src == "ps") {
        std::map<long, const XalanParsedSource*>::iterator i = s->ps.find(geti(q, "ps"));
        if (i == s->ps.end()) { r["error"] = "no such ps"; return; }
        ps = i->second;
    } else if (src == "parsed" || src == "parsedx") {
        XSLTInputSource p(&xmlStream); setSysId(p, get(q, "xmlsysid"));
        int prc = t.parseSource(p, ps, src == "parsedx");
        if (prc != 0) {
            r["status"] = itos(prc); r["err"] = t.getLastError(); r["phase"] = "parse";
            if (ownCs) t.destroyStylesheet(cs);
            return;
        }
        ownPs = true;
    }

    if (src == "xerceswrap") {
        xercesc::MemBufInputSource mb((const XMLByte*)xml.data(), xml.size(), xs(get(q, "xmlsysid", "mem.xml")).c_str());
        XercesParserLiaison::DOMParserType parser;
        SaxErr eh; parser.setErrorHandler(&eh);
        parser.setDoNamespaces(true);
        parser.setCreateEntityReferenceNodes(false);
        // this parse is the application's own (the library only wraps the finished DOM): what it throws is not the library's doing
        try { parser.parse(mb); }
        catch (const xercesc::DOMException& e) { r["src_error"] = std::string("DOMException: ") + u8(XalanDOMString(e.getMessage())); return; }
        XercesParserLiaison lia;
        XercesDOMSupport sup(lia);
        XalanDOMString uri(xs(get(q, "xmlsysid")));
        const XercesDOMWrapperParsedSource w(parser.getDocument(), lia, sup, uri);
        rc = runTarget(t, q, r, &w, 0, cs, styIn.get());
    } else if (src == "stwrap") {
        xercesc::MemBufInputSource mb((const XMLByte*)xml.data(), xml.size(), xs(get(q, "xmlsysid", "mem.xml")).c_str());
        XalanSourceTreeParserLiaison lia;
        XalanSourceTreeDOMSupport sup(lia);
        XalanDOMString uri(xs(get(q, "xmlsysid")));
        XalanDocument* d = lia.parseXMLStream(mb, uri);
        XalanSourceTreeDocument* sd = lia.mapDocument(d);
        XalanSourceTreeWrapperParsedSource w(sd, lia, sup, uri);
        rc = runTarget(t, q, r, &w, 0, cs, styIn.get());
    } else if (src == "builder") {
        XalanDocumentBuilder* b = t.createDocumentBuilder(xs(get(q, "xmlsysid")));
        {
            XalanAutoPtr<xercesc::SAX2XMLReader> rd(xercesc::XMLReaderFactory::createXMLReader());
            rd->setFeature(xercesc::XMLUni::fgSAX2CoreNameSpaces, true);
            rd->setFeature(xercesc::XMLUni::fgSAX2CoreNameSpacePrefixes, true);
            rd->setFeature(xercesc::XMLUni::fgSAX2CoreValidation, false);
            rd->setFeature(xercesc::XMLUni::fgXercesDynamic, false);
            rd->setFeature(xercesc::XMLUni::fgXercesSchema, false);
            SaxErr eh; rd->setErrorHandler(&eh);
            rd->setContentHandler(b->getContentHandler());
            rd->setDTDHandler(b->getDTDHandler());
            rd->setLexicalHandler(b->getLexicalHandler());
            xercesc::MemBufInputSource mb((const XMLByte*)xml.data(), xml.size(), xs(get(q, "xmlsysid", "mem.xml")).c_str());
            rd->parse(mb);
        }
        rc = runTarget(t, q, r, b, 0, cs, styIn.get());
        t.destroyDocumentBuilder(b);
    } else {
        rc = runTarget(t, q, r, ps, srcIn.get(), cs, styIn.get());
    }
    r["status"] = itos(rc);
    if (rc != 0 && rc != -99) r["err"] = t.getLastError();
    r["warn"] = s->warn->str();
    if (ownPs) t.destroyParsedSource(ps);
    if (ownCs) t.destroyStylesheet(cs);
}

// --- C API layer -------------------------------------------------------------------------
// capi: one-shot through the C interface.  form: tofile | todata | tohandler |
//       todata_prebuilt | tohandler_prebuilt | tofile_prebuilt ; prebuilt compiles/parses
//       from file (fromstream=0) or from memory (fromstream=1).
static void cmdCapi(const Msg& q, Msg& r) {
    XalanHandle h = CreateXalanTransformer();
    const std::string form = get(q, "form");
    const std::string xmlp = get(q, "xmlpath"), xslp = get(q, "xslpath");
    int rc = -99;
    // params: "name\0expr\0..." kinds limited to what the C API offers
    {
        const std::string& ps = get(q, "params");
        size_t i = 0;
        while (i < ps.size()) {
            std::string kind = ps.c_str() + i; i += kind.size() + 1;
            std::string name = ps.c_str() + i; i += name.size() + 1;
            std::string val = ps.c_str() + i; i += val.size() + 1;
            if (kind == "expr") XalanSetStylesheetParam(name.c_str(), val.c_str(), h);
            else if (kind == "num") XalanSetStylesheetParamNumber(name.c_str(), strtod(val.c_str(), 0), h);
            else if (kind == "uexpr") XalanSetStylesheetParamUTF(xs(name).c_str(), xs(val).c_str(), h);
        }
    }
    XalanCSSHandle css = 0; XalanPSHandle psh = 0;
    bool pre = form.find("_prebuilt") != std::string::npos;
    if (pre) {
        const std::string& xml = get(q, "xml"); const std::string& xsl = get(q, "xsl");
        int c = geti(q, "fromstream") ? XalanCompileStylesheetFromStream(xsl.data(), xsl.size(), h, &css)
                                      : XalanCompileStylesheet(xslp.c_str(), h, &css);
        if (c != 0) { r["status"] = itos(c); r["err"] = XalanGetLastError(h); r["phase"] = "compile"; DeleteXalanTransformer(h); return; }
        int p = geti(q, "fromstream") ? XalanParseSourceFromStream(xml.data(), xml.size(), h, &psh)
                                      : XalanParseSource(xmlp.c_str(), h, &psh);
        if (p != 0) { r["status"] = itos(p); r["err"] = XalanGetLastError(h); r["phase"] = "parse"; XalanDestroyCompiledStylesheet(css, h); DeleteXalanTransformer(h); return; }
    }
    if (form == "tofile") { rc = XalanTransformToFile(xmlp.c_str(), xslp.c_str(), get(q, "outpath").c_str(), h); if (rc == 0) r["out"] = readFile(get(q, "outpath")); }
    else if (form == "tofile_prebuilt") { rc = XalanTransformToFilePrebuilt(psh, css, get(q, "outpath").c_str(), h); if (rc == 0) r["out"] = readFile(get(q, "outpath")); }
    else if (form == "todata" || form == "todata_prebuilt") {
        char* out = 0;
        rc = form == "todata" ? XalanTransformToData(xmlp.c_str(), xslp.c_str(), &out, h)
                              : XalanTransformToDataPrebuilt(psh, css, &out, h);
        if (rc == 0 && out) { r["out"] = out; }
        if (out) XalanFreeData(out);
    } else if (form == "tohandler" || form == "tohandler_prebuilt") {
        CbSink sink; sink.failAfter = has(q, "cbfail") ? geti(q, "cbfail") : -1; sink.calls = 0; sink.flushes = 0;
        rc = form == "tohandler" ? XalanTransformToHandler(xmlp.c_str(), xslp.c_str(), h, &sink, cbWrite, cbFlush)
                                 : XalanTransformToHandlerPrebuilt(psh, css, h, &sink, cbWrite, cbFlush);
        r["out"] = sink.data;
    } else r["error"] = "bad form";
    r["status"] = itos(rc);
    if (rc != 0 && rc != -99) { const char* e = XalanGetLastError(h); r["err"] = e ? e : ""; }
    if (pre) { XalanDestroyParsedSource(psh, h); XalanDestroyCompiledStylesheet(css, h); }
    DeleteXalanTransformer(h);
}

// ---------------------------------------------------------------------------------------
// num: batch numeric conversions (C18).  in = items separated by '\n'.
//  op=d2s  : items are 16-hex-digit IEEE bit patterns  -> NumberToDOMString
//  op=d2c  : same through DOMStringHelper::NumberToCharacters
//  op=s2d  : items are hex-encoded UTF-8 strings       -> DoubleSupport::toDouble, bits out
//  op=round|floor|ceil : bit patterns -> bit patterns
namespace {
class CharSink : public FormatterListener {
public:
    CharSink() : FormatterListener(OUTPUT_METHOD_NONE) {}
    std::string got;
    virtual void charactersRaw(const XMLCh* const c, const size_type n) { u16to8(c, n, got); }
    virtual void comment(const XMLCh* const) {}
    virtual void cdata(const XMLCh* const, const size_type) {}
    virtual void entityReference(const XMLCh* const) {}
    virtual void characters(const XMLCh* const c, const size_type n) { u16to8(c, n, got); }
    virtual void endDocument() {}
    virtual void endElement(const XMLCh* const) {}
    virtual void ignorableWhitespace(const XMLCh* const, const size_type) {}
    virtual void processingInstruction(const XMLCh* const, const XMLCh* const) {}
    virtual void resetDocument() {}
    virtual void setDocumentLocator(const xercesc::Locator* const) {}
    virtual void startDocument() {}
    virtual void startElement(const XMLCh* const, AttributeListType&) {}
};
double bits2d(const std::string& h) { uint64_t b = strtoull(h.c_str(), 0, 16); double d; memcpy(&d, &b, 8); return d; }
std::string d2bits(double d) { uint64_t b; memcpy(&b, &d, 8); char buf[32]; snprintf(buf, sizeof buf, "%016llx", (unsigned long long)b); return buf; }
std::string unhex(const std::string& h) { std::string o; for (size_t i = 0; i + 1 < h.size(); i += 2) o += char(strtol(h.substr(i, 2).c_str(), 0, 16)); return o; }
}

static void cmdNum(const Msg& q, Msg& r) {
    const std::string op = get(q, "op");
    const std::string& in = get(q, "in");
    std::string out;
    size_t i = 0;
    MemoryManager& mm = XalanMemMgrs::getDefaultXercesMemMgr();
    while (i < in.size()) {      // every item is terminated by '\n'
        size_t j = in.find('\n', i); if (j == std::string::npos) j = in.size();
        std::string item = in.substr(i, j - i);
        i = j + 1;
        if (op == "d2s") { XalanDOMString s; NumberToDOMString(bits2d(item), s); out += u8(s); }
        else if (op == "d2c") { CharSink k; DOMStringHelper::NumberToCharacters(bits2d(item), k, &FormatterListener::characters); out += k.got; }
        else if (op == "s2d") { out += d2bits(DoubleSupport::toDouble(xs(unhex(item)), mm)); }
        else if (op == "round") out += d2bits(DoubleSupport::round(bits2d(item)));
        else if (op == "floor") out += d2bits(DoubleSupport::floor(bits2d(item)));
        else if (op == "ceil") out += d2bits(DoubleSupport::ceiling(bits2d(item)));
        else if (op == "s2i") { char b[40]; snprintf(b, sizeof b, "%d", WideStringToInt(xs(unhex(item)).c_str())); out += b; }
        else if (op == "s2l") { char b[40]; snprintf(b, sizeof b, "%ld", WideStringToLong(xs(unhex(item)).c_str())); out += b; }
        else if (op == "s2ul") { char b[40]; snprintf(b, sizeof b, "%lu", WideStringToUnsignedLong(xs(unhex(item)).c_str())); out += b; }
        else { r["error"] = "bad op"; return; }
        out += '\n';
    }
    r["out"] = out;
}

// ---------------------------------------------------------------------------------------
int main(int argc, char** argv) {
    // sanitizer / crash reports go to stderr, which the orchestrator redirects to a file
    xercesc::XMLPlatformUtils::Initialize();
    XalanTransformer::initialize();
    xvextra::init();
    {
        Io io(stdin, stdout);
        Msg q, r;
        while (io.read(q)) {
            r.clear();
            const std::string cmd = get(q, "cmd");
            if (cmd == "quit") break;
            XV_GUARD_BEGIN
            if (cmd == "ping") r["pong"] = "1";
            else if (cmd == "tnew") cmdTnew(q, r);
            else if (cmd == "tdel") cmdTdel(q, r);
            else if (cmd == "compile") cmdCompile(q, r);
            else if (cmd == "parse") cmdParse(q, r);
            else if (cmd == "csdel") cmdCsdel(q, r);
            else if (cmd == "psdel") cmdPsdel(q, r);
            else if (cmd == "param") cmdParam(q, r);
            else if (cmd == "extfn") cmdExtfn(q, r);
            else if (cmd == "setopt") cmdSetopt(q, r);
            else if (cmd == "snapshot") cmdSnapshot(q, r);
            else if (cmd == "transform") cmdTransform(q, r);
            else if (cmd == "capi") cmdCapi(q, r);
            else if (cmd == "num") cmdNum(q, r);
            else if (!xvextra::dispatch(cmd, q, r) && !xvser::dispatch(cmd, q, r)) r["error"] = "unknown cmd " + cmd;
            XV_GUARD_END(r)
            io.write(r);
        }
        for (std::map<long, TState>::iterator i = g_t.begin(); i != g_t.end(); ++i) { delete i->second.t; delete i->second.warn; if (i->second.mm) { i->second.mm->reclaim(); delete i->second.mm; } }
        g_t.clear();
    }
    xvextra::term();
    XalanTransformer::terminate();
    xercesc::XMLPlatformUtils::Terminate();
    XalanTransformer::ICUCleanUp();
    return 0;
}
