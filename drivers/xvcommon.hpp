// Helpers shared by drivers: UTF-8 <-> XalanDOMString, canonical event dumps of trees.
#pragma once
#include <xalanc/Include/PlatformDefinitions.hpp>
#include <string>
#include <vector>
#include <algorithm>
#include <cstdio>
#include <xalanc/XalanDOM/XalanDOMString.hpp>
#include <xalanc/XalanDOM/XalanNode.hpp>
#include <xalanc/XalanDOM/XalanNamedNodeMap.hpp>
#include <xalanc/XalanDOM/XalanDocument.hpp>
#include <xercesc/dom/DOM.hpp>

namespace xv {

using xalanc::XalanDOMString;
using xalanc::XalanDOMChar;
using xalanc::XalanNode;

// UTF-16 -> UTF-8; unpaired surrogates are written as 3-byte sequences (WTF-8) so the
// python side can see them.
inline void u16to8(const XalanDOMChar* s, size_t n, std::string& out) {
    for (size_t i = 0; i < n; ++i) {
        unsigned long c = s[i];
        if (c >= 0xD800 && c <= 0xDBFF && i + 1 < n && s[i + 1] >= 0xDC00 && s[i + 1] <= 0xDFFF) {
            c = 0x10000 + ((c - 0xD800) << 10) + (s[i + 1] - 0xDC00);
            ++i;
        }
        if (c < 0x80) out += char(c);
        else if (c < 0x800) { out += char(0xC0 | (c >> 6)); out += char(0x80 | (c & 0x3F)); }
        else if (c < 0x10000) { out += char(0xE0 | (c >> 12)); out += char(0x80 | ((c >> 6) & 0x3F)); out += char(0x80 | (c & 0x3F)); }
        else { out += char(0xF0 | (c >> 18)); out += char(0x80 | ((c >> 12) & 0x3F)); out += char(0x80 | ((c >> 6) & 0x3F)); out += char(0x80 | (c & 0x3F)); }
    }
}
inline std::string u8(const XalanDOMString& s) { std::string o; u16to8(s.c_str(), s.length(), o); return o; }
inline std::string u8(const XalanDOMChar* s) { std::string o; if (s) { size_t n = 0; while (s[n]) ++n; u16to8(s, n, o); } return o; }

// UTF-8 (or WTF-8) -> UTF-16
inline void u8to16(const std::string& in, std::vector<XalanDOMChar>& out) {
    size_t i = 0, n = in.size();
    while (i < n) {
        unsigned char b = in[i];
        unsigned long c; int k;
        if (b < 0x80) { c = b; k = 0; }
        else if ((b & 0xE0) == 0xC0) { c = b & 0x1F; k = 1; }
        else if ((b & 0xF0) == 0xE0) { c = b & 0x0F; k = 2; }
        else if ((b & 0xF8) == 0xF0) { c = b & 0x07; k = 3; }
        else { c = 0xFFFD; k = 0; }
        ++i;
        while (k-- > 0 && i < n) { c = (c << 6) | (in[i] & 0x3F); ++i; }
        if (c >= 0x10000) { c -= 0x10000; out.push_back(XalanDOMChar(0xD800 + (c >> 10))); out.push_back(XalanDOMChar(0xDC00 + (c & 0x3FF))); }
        else out.push_back(XalanDOMChar(c));
    }
}
inline XalanDOMString xs(const std::string& in) {
    std::vector<XalanDOMChar> v; u8to16(in, v);
    XalanDOMString r;
    if (!v.empty()) r.append(&v[0], v.size());
    return r;
}

// --- canonical event dump -------------------------------------------------------------
// One record per line:  E qname | A qname value | T text | C data | P target data | /E
// Values are escaped: backslash, newline, CR, tab -> \\ \n \r \t.  Attributes keep the order
// the tree reports; the python side sorts / resolves namespaces.
inline void esc(const std::string& s, std::string& out) {
    for (size_t i = 0; i < s.size(); ++i) {
        char c = s[i];
        if (c == '\\') out += "\\\\"; else if (c == '\n') out += "\\n"; else if (c == '\r') out += "\\r";
        else if (c == '\t') out += "\\t"; else out += c;
    }
}

inline void dumpXalan(const XalanNode* n, std::string& out) {
    switch (n->getNodeType()) {
    case XalanNode::DOCUMENT_NODE: case XalanNode::DOCUMENT_FRAGMENT_NODE:
        for (const XalanNode* c = n->getFirstChild(); c; c = c->getNextSibling()) dumpXalan(c, out);
        break;
    case XalanNode::ELEMENT_NODE: {
        out += "E "; esc(u8(n->getNodeName()), out); out += '\n';
        const xalanc::XalanNamedNodeMap* a = n->getAttributes();
        if (a) for (xalanc::XalanSize_t i = 0; i < a->getLength(); ++i) {
            const XalanNode* at = a->item(i);
            out += "A "; esc(u8(at->getNodeName()), out); out += ' '; esc(u8(at->getNodeValue()), out); out += '\n';
        }
        for (const XalanNode* c = n->getFirstChild(); c; c = c->getNextSibling()) dumpXalan(c, out);
        out += "/E\n";
        break; }
    case XalanNode::TEXT_NODE: case XalanNode::CDATA_SECTION_NODE:
        out += "T "; esc(u8(n->getNodeValue()), out); out += '\n'; break;
    case XalanNode::COMMENT_NODE:
        out += "C "; esc(u8(n->getNodeValue()), out); out += '\n'; break;
    case XalanNode::PROCESSING_INSTRUCTION_NODE:
        out += "P "; esc(u8(n->getNodeName()), out); out += ' '; esc(u8(n->getNodeValue()), out); out += '\n'; break;
    default: break;
    }
}

inline void dumpXerces(const xercesc::DOMNode* n, std::string& out) {
    using namespace xercesc;
    switch (n->getNodeType()) {
    case DOMNode::DOCUMENT_NODE: case DOMNode::DOCUMENT_FRAGMENT_NODE:
        for (const DOMNode* c = n->getFirstChild(); c; c = c->getNextSibling()) dumpXerces(c, out);
        break;
    case DOMNode::ELEMENT_NODE: {
        out += "E "; esc(u8(n->getNodeName()), out); out += '\n';
        const DOMNamedNodeMap* a = n->getAttributes();
        if (a) for (XMLSize_t i = 0; i < a->getLength(); ++i) {
            const DOMNode* at = a->item(i);
            out += "A "; esc(u8(at->getNodeName()), out); out += ' '; esc(u8(at->getNodeValue()), out); out += '\n';
        }
        for (const DOMNode* c = n->getFirstChild(); c; c = c->getNextSibling()) dumpXerces(c, out);
        out += "/E\n";
        break; }
    case DOMNode::TEXT_NODE: case DOMNode::CDATA_SECTION_NODE:
        out += "T "; esc(u8(n->getNodeValue()), out); out += '\n'; break;
    case DOMNode::COMMENT_NODE:
        out += "C "; esc(u8(n->getNodeValue()), out); out += '\n'; break;
    case DOMNode::PROCESSING_INSTRUCTION_NODE:
        out += "P "; esc(u8(n->getNodeName()), out); out += ' '; esc(u8(n->getNodeValue()), out); out += '\n'; break;
    default: break;
    }
}

}  // namespace xv
