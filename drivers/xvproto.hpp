// Framing shared by the /verif drivers.
// A message is a list of fields "key len\n<len bytes>\n" terminated by ".\n".
#pragma once
#include <cstdio>
#include <cstdlib>
#include <cstring>
#include <map>
#include <string>
#include <vector>
#include <unistd.h>

namespace xv {

typedef std::map<std::string, std::string> Msg;

struct Io {
    FILE* in;
    FILE* out;
    Io(FILE* i, FILE* o) : in(i), out(o) {}

    bool read(Msg& m) {
        m.clear();
        char line[256];
        for (;;) {
            if (!fgets(line, sizeof line, in)) return false;
            if (line[0] == '.' && (line[1] == '\n' || line[1] == 0)) return true;
            char key[128]; unsigned long len = 0;
            if (sscanf(line, "%127s %lu", key, &len) != 2) return false;
            std::string v(len, '\0');
            if (len && fread(&v[0], 1, len, in) != len) return false;
            int c = fgetc(in); (void)c;
            m[key] = v;
        }
    }
    void write(const Msg& m) {
        for (Msg::const_iterator i = m.begin(); i != m.end(); ++i) {
            fprintf(out, "%s %lu\n", i->first.c_str(), (unsigned long)i->second.size());
            if (!i->second.empty()) fwrite(i->second.data(), 1, i->second.size(), out);
            fputc('\n', out);
        }
        fputs(".\n", out);
        fflush(out);
    }
};

inline const std::string& get(const Msg& m, const char* k, const std::string& dflt = std::string()) {
    Msg::const_iterator i = m.find(k);
    return i == m.end() ? dflt : i->second;
}
inline bool has(const Msg& m, const char* k) { return m.find(k) != m.end(); }
inline long geti(const Msg& m, const char* k, long dflt = 0) {
    Msg::const_iterator i = m.find(k);
    return i == m.end() ? dflt : strtol(i->second.c_str(), 0, 10);
}
inline std::string itos(long v) { char b[32]; snprintf(b, sizeof b, "%ld", v); return b; }

}  // namespace xv
