// xvfuzz: libFuzzer entry point for C03 (thorough tier).  The first byte of the input selects what the
// rest is:  0 stylesheet (fixed document), 1 document (fixed stylesheet), 2 XPath expression (as select of
// value-of, as match pattern and as test), 3 top-level parameter expression, 4 both: "<stylesheet>\0<document>".
// Every call must return; after a failure a known-good transformation must still work on the same
// transformer (checked every call).
#include <xalanc/Include/PlatformDefinitions.hpp>
#include <cstdio>
#include <cstdlib>
#include <cstring>
#include <sstream>
#include <string>
#include <stdint.h>

#include <xercesc/util/PlatformUtils.hpp>
#include <xalanc/XalanTransformer/XalanTransformer.hpp>

using namespace xalanc;

static XalanTransformer* g_t = 0;
static const char* const GOOD_XSL =
    "<xsl:stylesheet version='1.0' xmlns:xsl='http://www.w3.org/1999/XSL/Transform'><xsl:param name='gp' select='1'/><xsl:key name='k' match='*' use='name()'/>"
    "<xsl:template match='/'><good n='{count(//*)}'><xsl:for-each select='//*'><xsl:sort select='name()'/><i><xsl:number level='any'/><xsl:value-of select='name()'/></i></xsl:for-each></good></xsl:template></xsl:stylesheet>";
static const char* const GOOD_XML = "<doc><a x='1' id='i'><b/>t</a><c>3.5</c></doc>";
static std::string g_goodOut;

static int run(const std::string& xsl, const std::string& xml, std::string& out) {
    std::istringstream xs(xsl), xm(xml);
    std::ostringstream os;
    XSLTInputSource s(&xs), d(&xm);
    XSLTResultTarget t(os);
    const int rc = g_t->transform(d, s, t);
    out = os.str();
    return rc;
}

static void escapeAttr(const std::string& in, std::string& out) {
    for (size_t i = 0; i < in.size(); ++i) {
        const char c = in[i];
        if (c == '&') out += "&amp;"; else if (c == '<') out += "&lt;"; else if (c == '"') out += "&quot;"; else if (c == 0) out += ' '; else out += c;
    }
}

extern "C" int LLVMFuzzerInitialize(int*, char***) {
    xercesc::XMLPlatformUtils::Initialize();
    XalanTransformer::initialize();
    g_t = new XalanTransformer;
    if (run(GOOD_XSL, GOOD_XML, g_goodOut) != 0) { fprintf(stderr, "XV-FUZZ: known-good transformation fails at start\n"); abort(); }
    return 0;
}

extern "C" int LLVMFuzzerTestOneInput(const uint8_t* data, size_t size) {
    if (size < 1) return 0;
    const int mode = data[0] % 5;
    const std::string rest(reinterpret_cast<const char*>(data + 1), size - 1);
    std::string out;
    int rc = 0;
    if (mode == 0) rc = run(rest, GOOD_XML, out);
    else if (mode == 1) rc = run(GOOD_XSL, rest, out);
    else if (mode == 2) {
        std::string e; escapeAttr(rest, e);
        std::string xsl = "<xsl:stylesheet version='1.0' xmlns:xsl='http://www.w3.org/1999/XSL/Transform'><xsl:key name='k' match='*' use='name()'/><xsl:template match='/'><o><xsl:value-of select=\"" + e +
                          "\"/><xsl:if test=\"" + e + "\">t</xsl:if><xsl:for-each select=\"//*\"><xsl:sort select=\"" + e + "\"/>x</xsl:for-each><xsl:apply-templates select='//*' mode='m'/></o></xsl:template>";
        std::string withPattern = xsl + "<xsl:template mode='m' match=\"" + e + "\">m</xsl:template><xsl:template mode='m' match='*'/></xsl:stylesheet>";
        rc = run(withPattern, GOOD_XML, out);
        if (rc != 0) rc = run(xsl + "<xsl:template mode='m' match='*'/></xsl:stylesheet>", GOOD_XML, out);
    } else if (mode == 3) {
        g_t->setStylesheetParam(XalanDOMString("gp"), XalanDOMString(rest.c_str()));
        rc = run(GOOD_XSL, GOOD_XML, out);
        g_t->clearStylesheetParams();
    } else {
        const size_t z = rest.find('\0');
        rc = z == std::string::npos ? run(rest, rest, out) : run(rest.substr(0, z), rest.substr(z + 1), out);
    }
    if (rc != 0) {
        const char* const e = g_t->getLastError();
        if (e == 0 || *e == 0) { fprintf(stderr, "XV-FUZZ: failure with an empty error message (mode %d)\n", mode); abort(); }
    }
    std::string again;
    if (run(GOOD_XSL, GOOD_XML, again) != 0 || again != g_goodOut) {
        fprintf(stderr, "XV-FUZZ: the transformer is unusable after a mode %d input (rc of that input %d): %s\n", mode, rc, g_t->getLastError());
        abort();
    }
    return 0;
}
