// xvmt: concurrency driver for C07.  N threads, each with its own XalanTransformer, transform
// concurrently using SHARED compiled stylesheets and SHARED parsed sources (native source tree
// and Xerces-DOM backed in thread-safe mode), built once by the main thread.  Every output is
// compared with the output the main thread computed sequentially before the threads started.
//
//   xvmt <casedir> <threads> <iterations-per-thread> <seed> [yield [cold]]
//
// cold = 1 + form: nothing is transformed before the threads start.  They leave a spin barrier together and all
// begin with the first pair in that source form, so that state the PROCESS builds lazily on first use (static tables, caches)
// is built under contention too; results are kept and compared with the sequential ones computed after
// the threads have finished.
//
// casedir holds sheet<k>.xsl (k = 0..), doc<j>.xml (j = 0..) and pairs.txt with lines "k j".
// Output (stdout): one "PAIR k j form expected-bytes" line per sequential run, one
// "MISMATCH thread iter k j form" line per differing concurrent result, "OVERLAP n" samples and
// a final "SUMMARY ..." line.  ThreadSanitizer writes its reports itself (TSAN_OPTIONS log_path).
#include <xalanc/Include/PlatformDefinitions.hpp>
#include <atomic>
#include <cstdio>
#include <cstdlib>
#include <fstream>
#include <map>
#include <sstream>
#include <string>
#include <vector>
#include <pthread.h>
#include <sched.h>
#include <unistd.h>

#include <xercesc/util/PlatformUtils.hpp>
#include <xercesc/parsers/XercesDOMParser.hpp>
#include <xercesc/framework/MemBufInputSource.hpp>
#include <xercesc/sax/HandlerBase.hpp>
#include <xalanc/XalanTransformer/XalanTransformer.hpp>
#include <xalanc/XalanTransformer/XercesDOMWrapperParsedSource.hpp>
#include <xalanc/XercesParserLiaison/XercesParserLiaison.hpp>
#include <xalanc/XercesParserLiaison/XercesDOMSupport.hpp>

using namespace xalanc;

struct Pair { int sheet, doc; };
struct Shared {
    // The threads are the FIRST to use the shared objects (lazily built state is built under contention); the
    // sequential expectations come from private duplicates (second compile / second parse of the same text).
    std::vector<const XalanCompiledStylesheet*> cs, csRef;
    std::vector<const XalanParsedSource*> native, nativeRef;
    std::vector<const XalanParsedSource*> xerces, xercesRef;      // 0 when the Xerces parse failed
    std::vector<std::string> sheetText, docText;
    std::vector<Pair> pairs;
    // expected[(pair index, form)] ; form 0 = shared native, 1 = shared xerces, 2 = own parse of the text (stylesheet shared)
    std::map<std::pair<int, int>, std::pair<int, std::string> > expected;
    std::string dir;
};

static Shared g;
static std::atomic<long> g_running(0), g_done(0), g_mismatch(0), g_maxOverlap(0);
static std::atomic<long> g_overlapHist[65];
static int g_iters = 10, g_yield = 0, g_cold = 0, g_nthreads = 0;
static std::atomic<int> g_arrived(0);
struct Kept { int pi, form, rc, iter; std::string out, err; };
static std::vector<std::vector<Kept> > g_kept;
static unsigned g_seed = 1;

static std::string readFile(const std::string& p) {
    std::ifstream f(p.c_str(), std::ios::binary);
    std::ostringstream o; o << f.rdbuf(); return o.str();
}

static int runOne(XalanTransformer& t, int pi, int form, std::string& out, bool ref = false) {
    const Pair& p = g.pairs[pi];
    std::ostringstream os;
    XSLTResultTarget target(os);
    const XalanCompiledStylesheet* const cs = ref ? g.csRef[p.sheet] : g.cs[p.sheet];
    int rc;
    if (form == 0) rc = t.transform(ref ? *g.nativeRef[p.doc] : *g.native[p.doc], cs, target);
    else if (form == 1) rc = t.transform(ref ? *g.xercesRef[p.doc] : *g.xerces[p.doc], cs, target);
    else {
        std::istringstream in(g.docText[p.doc]);
        XSLTInputSource src(&in);
        src.setSystemId(XalanDOMString((g.dir + "/doc.xml").c_str()).c_str());
        rc = t.transform(src, cs, target);
    }
    out = os.str();
    return rc;
}

struct Arg { int id; };

static void* worker(void* a) {
    const int id = static_cast<Arg*>(a)->id;
    unsigned rs = g_seed * 7919u + id * 104729u + 1;
    XalanTransformer t;
    if (g_cold) { ++g_arrived; while (g_arrived.load() < g_nthreads) {} }
    for (int it = 0; it < g_iters; ++it) {
        rs = rs * 1103515245u + 12345u;
        int pi = int((rs >> 16) % g.pairs.size());
        rs = rs * 1103515245u + 12345u;
        int form = int((rs >> 16) % 3);
        if (g_cold && it == 0) { pi = 0; form = (g_cold - 1) % 3; }
        if (form == 1 && g.xerces[g.pairs[pi].doc] == 0) form = 0;
        if (g_yield) { rs = rs * 1103515245u + 12345u; if ((rs >> 16) % 4 == 0) sched_yield(); else if ((rs >> 16) % 16 == 1) usleep((rs >> 20) % 200); }
        const long now = ++g_running;
        long m = g_maxOverlap.load();
        while (now > m && !g_maxOverlap.compare_exchange_weak(m, now)) {}
        if (now < 65) ++g_overlapHist[now];
        std::string out;
        const int rc = runOne(t, pi, form, out);
        --g_running;
        ++g_done;
        if (g_cold) {
            Kept k; k.pi = pi; k.form = form; k.rc = rc; k.iter = it; k.out.swap(out); if (rc != 0) k.err = t.getLastError();
            g_kept[id].push_back(k);
            continue;
        }
        const std::pair<int, std::string>& e = g.expected[std::make_pair(pi, form)];
        if (rc != e.first || out != e.second) {
            ++g_mismatch;
            printf("MISMATCH thread=%d iter=%d sheet=%d doc=%d form=%d rc=%d expected_rc=%d len=%lu expected_len=%lu err=%s\n", id, it, g.pairs[pi].sheet, g.pairs[pi].doc, form, rc, e.first,
                   (unsigned long)out.size(), (unsigned long)e.second.size(), rc != 0 ? t.getLastError() : "");
            fflush(stdout);
        }
    }
    return 0;
}

struct ErrH : public xercesc::HandlerBase {
    void fatalError(const xercesc::SAXParseException& e) { throw xercesc::SAXParseException(e); }
    void error(const xercesc::SAXParseException&) {}
    void warning(const xercesc::SAXParseException&) {}
};

int main(int argc, char** argv) {
    if (argc < 5) { fprintf(stderr, "usage: xvmt casedir threads iters seed [yield]\n"); return 2; }
    g.dir = argv[1];
    const int nthreads = atoi(argv[2]);
    g_iters = atoi(argv[3]);
    g_seed = unsigned(atoi(argv[4]));
    g_yield = argc > 5 ? atoi(argv[5]) : 0;
    g_cold = argc > 6 ? atoi(argv[6]) : 0;
    g_nthreads = nthreads;
    g_kept.resize(nthreads);
    setvbuf(stdout, 0, _IOLBF, 0);      // the PAIR lines locate a death in the sequential phase
    xercesc::XMLPlatformUtils::Initialize();
    XalanTransformer::initialize();
    int status = 0;
    {
        XalanTransformer main;
        // shared Xerces-DOM backed sources: one liaison in thread-safe mode with wrapper nodes and maps built up front
        XercesParserLiaison liaison;
        liaison.setBuildWrapperNodes(true);
        liaison.setBuildMaps(true);
        liaison.setThreadSafe(true);
        XercesDOMSupport support(liaison);
        XercesParserLiaison liaisonRef;
        liaisonRef.setBuildWrapperNodes(true);
        liaisonRef.setBuildMaps(true);
        liaisonRef.setThreadSafe(true);
        XercesDOMSupport supportRef(liaisonRef);
        std::vector<xercesc::XercesDOMParser*> parsers;
        for (int k = 0;; ++k) {
            std::ostringstream n; n << g.dir << "/sheet" << k << ".xsl";
            std::string text = readFile(n.str());
            if (text.empty()) break;
            g.sheetText.push_back(text);
            const XalanCompiledStylesheet* cs = 0;
            if (main.compileStylesheet(XSLTInputSource(n.str().c_str()), cs) != 0) { printf("HARNESS compile failed sheet%d: %s\n", k, main.getLastError()); cs = 0; }
            g.cs.push_back(cs);
            const XalanCompiledStylesheet* cs2 = 0;
            if (main.compileStylesheet(XSLTInputSource(n.str().c_str()), cs2) != 0) cs2 = 0;
            g.csRef.push_back(cs2);
        }
        for (int j = 0;; ++j) {
            std::ostringstream n; n << g.dir << "/doc" << j << ".xml";
            std::string text = readFile(n.str());
            if (text.empty()) break;
            g.docText.push_back(text);
            const XalanParsedSource* ps = 0;
            if (main.parseSource(XSLTInputSource(n.str().c_str()), ps, false) != 0) { printf("HARNESS parse failed doc%d: %s\n", j, main.getLastError()); ps = 0; }
            g.native.push_back(ps);
            const XalanParsedSource* ps2 = 0;
            if (main.parseSource(XSLTInputSource(n.str().c_str()), ps2, false) != 0) ps2 = 0;
            g.nativeRef.push_back(ps2);
            for (int copy = 0; copy < 2; ++copy) {
                const XalanParsedSource* xp = 0;
                try {
                    xercesc::XercesDOMParser* parser = new xercesc::XercesDOMParser;
                    parsers.push_back(parser);
                    ErrH eh; parser->setErrorHandler(&eh);
                    parser->setDoNamespaces(true);
                    parser->setCreateEntityReferenceNodes(false);
                    parser->parse(n.str().c_str());
                    xp = new XercesDOMWrapperParsedSource(parser->getDocument(), copy == 0 ? liaison : liaisonRef, copy == 0 ? support : supportRef, XalanDOMString(n.str().c_str()));
                } catch (...) { xp = 0; }
                (copy == 0 ? g.xerces : g.xercesRef).push_back(xp);
            }
            if (g.xerces.back() == 0 || g.xercesRef.back() == 0) { g.xerces.back() = 0; }
        }
        {
            std::ifstream pf((g.dir + "/pairs.txt").c_str());
            Pair p;
            while (pf >> p.sheet >> p.doc) {
                if (p.sheet < int(g.cs.size()) && p.doc < int(g.native.size()) && g.cs[p.sheet] && g.csRef[p.sheet] && g.native[p.doc] && g.nativeRef[p.doc]) g.pairs.push_back(p);
            }
        }
        if (g.pairs.empty()) { printf("HARNESS no usable pairs\n"); status = 2; }
        else {
            // sequential expectations, computed twice to make sure they are deterministic (in cold mode only after the threads)
            for (int phase = 0; phase < 2; ++phase) {
            if (phase == 1) {
                std::vector<pthread_t> th(nthreads);
                std::vector<Arg> args(nthreads);
                for (int i = 0; i < nthreads; ++i) { args[i].id = i; pthread_create(&th[i], 0, worker, &args[i]); }
                for (int i = 0; i < nthreads; ++i) pthread_join(th[i], 0);
            }
            if ((phase == 0) == (g_cold != 0)) continue;
            for (size_t pi = 0; pi < g.pairs.size(); ++pi) {
                for (int form = 0; form < 3; ++form) {
                    if (form == 1 && g.xerces[g.pairs[pi].doc] == 0) continue;
                    std::string a, b;
                    const int ra = runOne(main, int(pi), form, a, true);
                    XalanTransformer other;
                    const int rb = runOne(other, int(pi), form, b, true);
                    if (ra != rb || a != b) { printf("NONDETERMINISTIC sheet=%d doc=%d form=%d\n", g.pairs[pi].sheet, g.pairs[pi].doc, form); a.clear(); }
                    g.expected[std::make_pair(int(pi), form)] = std::make_pair(ra, a);
                    printf("PAIR %d %d %d rc=%d bytes=%lu\n", g.pairs[pi].sheet, g.pairs[pi].doc, form, ra, (unsigned long)a.size());
                }
            }
            fflush(stdout);
            }
            for (int id = 0; id < nthreads; ++id) {
                for (size_t q = 0; q < g_kept[id].size(); ++q) {
                    const Kept& k = g_kept[id][q];
                    const std::pair<int, std::string>& e = g.expected[std::make_pair(k.pi, k.form)];
                    if (k.rc != e.first || k.out != e.second) {
                        ++g_mismatch;
                        printf("MISMATCH thread=%d iter=%d sheet=%d doc=%d form=%d rc=%d expected_rc=%d len=%lu expected_len=%lu err=%s\n", id, k.iter, g.pairs[k.pi].sheet, g.pairs[k.pi].doc, k.form, k.rc, e.first,
                               (unsigned long)k.out.size(), (unsigned long)e.second.size(), k.err.c_str());
                    }
                }
            }
            printf("OVERLAP");
            for (int i = 1; i < 65; ++i) if (g_overlapHist[i].load()) printf(" %d:%ld", i, g_overlapHist[i].load());
            printf("\n");
            printf("SUMMARY threads=%d done=%ld mismatches=%ld max_overlap=%ld pairs=%lu\n", nthreads, g_done.load(), g_mismatch.load(), g_maxOverlap.load(), (unsigned long)g.pairs.size());
            if (g_mismatch.load()) status = 1;
        }
        for (size_t i = 0; i < g.xerces.size(); ++i) { delete g.xerces[i]; delete g.xercesRef[i]; }
        for (size_t i = 0; i < g.native.size(); ++i) { if (g.native[i]) main.destroyParsedSource(g.native[i]); if (g.nativeRef[i]) main.destroyParsedSource(g.nativeRef[i]); }
        for (size_t i = 0; i < g.cs.size(); ++i) { if (g.cs[i]) main.destroyStylesheet(g.cs[i]); if (g.csRef[i]) main.destroyStylesheet(g.csRef[i]); }
        for (size_t i = 0; i < parsers.size(); ++i) delete parsers[i];
    }
    XalanTransformer::terminate();
    xercesc::XMLPlatformUtils::Terminate();
    XalanTransformer::ICUCleanUp();
    fflush(stdout);
    return status;
}
