#!/bin/bash
# soak.sh [tier] [seeds...]: runs every registered check in the given tier for the given VERIF_SEED values and
# prints one line per run (used for long unattended runs, e.g. through `vp run`).
cd "$(dirname "$0")/.."
export VERIF_REPO=${VERIF_REPO:-${VP_RUN_REPO:-/repo}}
TIER=${1:-quick}; shift || true
SEEDS=${*:-1}
./setup.sh >/dev/null 2>&1 || echo "setup failed"
for s in $SEEDS; do
  for c in C18 C12 C11 C13 C15 C16 C17 C14 C10 C09 C02 C01 C04 C08 C05 C06 C20 C19 C07 C03; do
    t0=$(date +%s)
    out=$(VERIF_SEED=$s ./vcheck $c $TIER 2>&1); rc=$?
    t1=$(date +%s)
    echo "$c $TIER seed=$s rc=$rc secs=$((t1-t0)) :: $(echo "$out" | grep -v '^KNOWN' | tail -1 | cut -c1-160)"
    echo "$out" | grep -A1 '^VIOLATION' | cut -c1-400
  done
done
