#!/usr/bin/env python3
"""build/coverage.py [--tier quick] [Cnn ...]

Measures what the workload of each check reaches in the files its property is anchored in.  This is
not a check and decides nothing: it answers "which lines of the anchored code did the monitors get to
observe", so that unreached code can be turned into workload.  The library and the drivers are built
once more with gcov instrumentation (VERIF_COVERAGE=1, its own build directory .build-cov, every
flavour mapped onto the same build), counters are cleared, the check is run as registered, and gcov
is asked for the anchored files.  The result goes to coverage/<id>.json; the evidence file of the
property is put back as it was (a coverage run is not evidence).
"""
import glob
import gzip
import json
import os
import shutil
import subprocess
import sys
import time

VERIF = os.path.dirname(os.path.dirname(os.path.abspath(__file__)))
COVB = os.path.join(VERIF, '.build-cov')
OBJ = os.path.join(COVB, 'cov')


def props():
    out = {}
    with open(os.path.join(VERIF, 'properties.jsonl')) as f:
        for line in f:
            p = json.loads(line)
            out[p['id']] = [a for a in p['anchors']['files'] if a.startswith('src/') and a.endswith(('.cpp', '.hpp'))]
    return out


def clear():
    n = 0
    for root, _, files in os.walk(OBJ):
        for fn in files:
            if fn.endswith('.gcda'):
                os.unlink(os.path.join(root, fn))
                n += 1
    return n


def gcov_all(workdir):
    """Runs gcov over every .gcda of the library; returns {source path relative to the repository:
    {line: count}} and {source: {function: count}} merged over translation units."""
    gcdas = []
    for root, _, files in os.walk(OBJ):
        for fn in files:
            if fn.endswith('.gcda'):
                gcdas.append(os.path.join(root, fn))
    lines, funcs = {}, {}
    shutil.rmtree(workdir, ignore_errors=True)
    os.makedirs(workdir)
    B = 200
    for i in range(0, len(gcdas), B):
        subprocess.run(['gcov', '-j', '-p'] + gcdas[i:i + B], cwd=workdir, stdout=subprocess.DEVNULL, stderr=subprocess.DEVNULL)
        for gz in glob.glob(os.path.join(workdir, '*.gcov.json.gz')):
            with gzip.open(gz, 'rt') as f:
                d = json.load(f)
            for fe in d.get('files', []):
                src = fe['file']
                k = src.find('/src/xalanc/')
                if k < 0:
                    continue
                rel = src[k + 1:]
                L = lines.setdefault(rel, {})
                for ln in fe.get('lines', []):
                    L[ln['line_number']] = L.get(ln['line_number'], 0) + ln['count']
                F = funcs.setdefault(rel, {})
                for fu in fe.get('functions', []):
                    key = (fu.get('demangled_name') or fu['name'], fu['start_line'])
                    F[key] = F.get(key, 0) + fu['execution_count']
            os.unlink(gz)
    return lines, funcs


def ranges(nums):
    out, s, p = [], None, None
    for n in sorted(nums):
        if s is None:
            s = p = n
        elif n == p + 1:
            p = n
        else:
            out.append('%d-%d' % (s, p) if p > s else str(s))
            s = p = n
    if s is not None:
        out.append('%d-%d' % (s, p) if p > s else str(s))
    return out


def main():
    args = sys.argv[1:]
    tier = 'quick'
    if args[:1] == ['--tier']:
        tier = args[1]
        args = args[2:]
    P = props()
    ids = args or sorted(P)
    env = dict(os.environ)
    env.update({'VERIF_COVERAGE': '1', 'VERIF_BUILD': COVB, 'VERIF_WORK': os.path.join(VERIF, '.work', 'cov')})
    if subprocess.call([os.path.join(VERIF, 'build', 'ensure.sh'), 'plain'], env=env) != 0:
        print('coverage build failed')
        return 2
    os.makedirs(os.path.join(VERIF, 'coverage'), exist_ok=True)
    head = subprocess.run(['git', '-C', os.environ.get('VERIF_REPO', '/repo'), 'rev-parse', '--short', 'HEAD'], capture_output=True, text=True).stdout.strip()
    for pid in ids:
        ev = os.path.join(VERIF, 'evidence', pid + '.json')
        keep = open(ev, 'rb').read() if os.path.exists(ev) else None
        clear()
        rdir = os.path.join(VERIF, 'replays', pid)
        before = dict((fn, open(os.path.join(rdir, fn), 'rb').read()) for fn in os.listdir(rdir)) if os.path.isdir(rdir) else {}
        t0 = time.time()
        r = subprocess.run([os.path.join(VERIF, 'vcheck'), pid, tier], env=env, capture_output=True, text=True)
        secs = time.time() - t0
        if keep is not None:
            with open(ev, 'wb') as f:
                f.write(keep)
        # replay files of a coverage run are not kept either (the -O0 build is not one of the registered flavours)
        if os.path.isdir(rdir):
            for fn in os.listdir(rdir):
                if fn not in before:
                    os.unlink(os.path.join(rdir, fn))
                elif open(os.path.join(rdir, fn), 'rb').read() != before[fn]:
                    open(os.path.join(rdir, fn), 'wb').write(before[fn])
        lines, funcs = gcov_all(os.path.join(COVB, 'gcov-out'))
        rep = {'property': pid, 'tier': tier, 'repo_commit': head, 'check_exit': r.returncode, 'check_seconds': round(secs, 1),
               'summary_line': (r.stdout.strip().splitlines() or [''])[-1][:300], 'files': {}}
        tot_l = tot_h = 0
        for a in P[pid]:
            L = lines.get(a)
            if L is None:
                rep['files'][a] = {'lines': 0, 'hit': 0, 'note': 'no counters (not compiled into the library or header without code)'}
                continue
            hit = [n for n, c in L.items() if c > 0]
            miss = [n for n, c in L.items() if c == 0]
            F = funcs.get(a, {})
            fm = sorted('%s:%d' % (k[0][:120], k[1]) for k, c in F.items() if c == 0)
            rep['files'][a] = {'lines': len(L), 'hit': len(hit), 'pct': round(100.0 * len(hit) / max(1, len(L)), 1),
                               'functions': len(F), 'functions_hit': len(F) - len(fm),
                               'unreached_functions': fm, 'unreached_lines': ranges(miss)}
            tot_l += len(L)
            tot_h += len(hit)
        rep['anchor_lines'] = tot_l
        rep['anchor_lines_hit'] = tot_h
        rep['anchor_pct'] = round(100.0 * tot_h / max(1, tot_l), 1)
        with open(os.path.join(VERIF, 'coverage', pid + '.json'), 'w') as f:
            json.dump(rep, f, indent=1, sort_keys=True)
        print('%s %s exit=%d %.0fs anchors: %d/%d lines (%.1f%%)' % (pid, tier, r.returncode, secs, tot_h, tot_l, rep['anchor_pct']))
        sys.stdout.flush()
    return 0


if __name__ == '__main__':
    sys.exit(main())
