#!/bin/bash
# ensure.sh <flavour> [driver ...]
# Mirrors the working tree of $VERIF_REPO (default /repo) into $VERIF_BUILD/src by content,
# (re)builds libxalan-c + Xalan for the flavour with the hook guard on, then (re)links the
# named drivers (default: all that apply to the flavour).  Prints nothing on success unless
# VERIF_VERBOSE=1.  Exit 2 on any failure (harness failure, never a verdict).
set -u
FLAV=${1:?flavour}
shift || true
VERIF=$(cd "$(dirname "$0")/.." && pwd)
REPO=${VERIF_REPO:-/repo}
B=${VERIF_BUILD:-$VERIF/.build}
SRC=$B/src
OUT=$B/$FLAV
LOG=$B/log
mkdir -p "$B" "$LOG"
export CCACHE_DIR=${CCACHE_DIR:-$VERIF/.cache/ccache}
export CCACHE_BASEDIR=$B
export CCACHE_NOHASHDIR=1
mkdir -p "$CCACHE_DIR"
export ASAN_OPTIONS=detect_leaks=0
J=${VERIF_JOBS:-$(nproc)}

say() { [ "${VERIF_VERBOSE:-0}" = 1 ] && echo "[ensure $FLAV] $*" >&2; return 0; }
die() { echo "[ensure $FLAV] HARNESS FAILURE: $*" >&2; exit 2; }

case "$FLAV" in
  plain) CXX=g++; CC=gcc
         FLAGS="-O2 -g1 -DNDEBUG" ; LDF="" ;;
  asan)  CXX=g++; CC=gcc
         FLAGS="-O1 -g1 -DNDEBUG -fno-omit-frame-pointer -fsanitize=address,undefined,float-cast-overflow"
         LDF="-fsanitize=address,undefined" ;;
  tsan)  CXX=g++; CC=gcc
         FLAGS="-O1 -g1 -DNDEBUG -fno-omit-frame-pointer -fsanitize=thread" ; LDF="-fsanitize=thread" ;;
  fuzz)  CXX=clang++; CC=clang
         FLAGS="-O1 -g1 -DNDEBUG -fno-omit-frame-pointer -fsanitize=fuzzer-no-link,address,undefined -fno-sanitize=object-size,vptr,function"
         LDF="-fsanitize=address,undefined" ;;
  *) die "unknown flavour $FLAV" ;;
esac
# Coverage measurement (build/coverage.sh): every flavour becomes the same gcov build, kept apart from
# the real ones by VERIF_BUILD.  Never used by a registered check.
if [ "${VERIF_COVERAGE:-0}" = 1 ]; then
  case "$B" in */.build) die "VERIF_COVERAGE needs its own VERIF_BUILD" ;; esac
  CXX=g++; CC=gcc; FLAGS="-O0 -g0 -DNDEBUG --coverage -fprofile-update=atomic"; LDF="--coverage"
  OUT=$B/cov; mkdir -p "$OUT"
  [ -e "$B/$FLAV" ] || ln -s cov "$B/$FLAV"
  FLAV=cov
fi
mkdir -p "$OUT"
FLAGS="$FLAGS -DAPACHE_XALAN_C_VERIF=1 -Wno-error -w"

# ---- 1. mirror (content based; files whose content changed get a fresh mtime) -------------
(
  flock 9
  rsync -rlc --delete --exclude=/_build --exclude=/.git --exclude='*.orig' --exclude='*.rej' \
        "$REPO"/ "$SRC"/ >"$LOG/rsync.log" 2>&1 || exit 3
) 9>"$B/.lock.src" || die "rsync of $REPO failed (see $LOG/rsync.log)"

# ---- 2. library ---------------------------------------------------------------------------
(
  flock 8
  if [ ! -f "$OUT/build.ninja" ]; then
    say "configuring"
    CCACHE=""
    command -v ccache >/dev/null && CCACHE="-DCMAKE_CXX_COMPILER_LAUNCHER=ccache -DCMAKE_C_COMPILER_LAUNCHER=ccache"
    cmake -G Ninja -S "$SRC" -B "$OUT" -DCMAKE_BUILD_TYPE=None \
      -DCMAKE_CXX_COMPILER=$CXX -DCMAKE_C_COMPILER=$CC $CCACHE \
      -DCMAKE_CXX_FLAGS="$FLAGS" -DCMAKE_C_FLAGS="$FLAGS" \
      -DCMAKE_SHARED_LINKER_FLAGS="$LDF" -DCMAKE_EXE_LINKER_FLAGS="$LDF" \
      -Dtranscoder=icu -Dmessage-loader=inmemory >"$LOG/cmake.$FLAV.log" 2>&1 || exit 3
  fi
  say "ninja"
  ninja -C "$OUT" -j "$J" xalan-c Xalan >"$LOG/ninja.$FLAV.log" 2>&1 || exit 4
) 8>"$B/.lock.$FLAV"
rc=$?
[ $rc = 0 ] || die "library build failed rc=$rc (see $LOG/cmake.$FLAV.log, $LOG/ninja.$FLAV.log)"

# ---- 3. drivers ---------------------------------------------------------------------------
DRV="$*"
if [ -z "$DRV" ]; then
  case "$FLAV" in
    plain) DRV="xvdrv xvoom xvcont" ;;
    asan)  DRV="xvdrv xvoom xvcont" ;;
    tsan)  DRV="xvmt" ;;
    fuzz)  DRV="xvfuzz" ;;
    cov)   DRV="xvdrv xvoom xvcont xvmt" ;;
  esac
fi
INC="-I$SRC/src -I$OUT/src -I$OUT/src/xalanc/PlatformSupport -I$OUT -I$VERIF/drivers"
LIBS="-L$OUT/src/xalanc -Wl,-rpath,$OUT/src/xalanc -lxalan-c -lxerces-c -licuuc -licui18n -lpthread -ldl"
(
  flock 7
  for d in $DRV; do
    srcf=$VERIF/drivers/$d.cpp
    [ -f "$srcf" ] || continue
    exe=$OUT/$d
    extra=""
    [ "$FLAV" = fuzz ] && extra="-fsanitize=fuzzer"
    # relink when the driver source, any driver header, or the library is newer
    need=0
    [ -x "$exe" ] || need=1
    if [ $need = 0 ]; then
      for dep in "$srcf" "$VERIF"/drivers/*.hpp "$OUT/src/xalanc/libxalan-c.so"; do
        [ -e "$dep" ] && [ "$dep" -nt "$exe" ] && need=1
      done
      # headers of the library may have changed without the .so changing
      if [ $need = 0 ] && [ -n "$(find "$SRC/src" -name '*.hpp' -newer "$exe" -print -quit)" ]; then need=1; fi
    fi
    if [ $need = 1 ]; then
      say "building driver $d"
      ccache $CXX -std=gnu++14 $FLAGS $INC "$srcf" -o "$exe.tmp" $LDF $extra -rdynamic $LIBS \
          >"$LOG/drv.$FLAV.$d.log" 2>&1 || exit 5
      mv "$exe.tmp" "$exe"
    fi
  done
) 7>"$B/.lock.drv.$FLAV" || die "driver build failed (see $LOG/drv.$FLAV.*.log)"
exit 0
