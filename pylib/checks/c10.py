"""C10 — template conflict resolution: import precedence, then priority, then last.
Oracle: the XSLT 5.5 calculator of refxslt (candidate rules = those whose pattern matches by the
defining expression, ordered by import precedence, priority incl. per-alternative defaults, then
document position; built-in rule when none; apply-imports restricted to the imports of the current
rule's stylesheet).  Every node of the document is pushed through apply-templates in every mode and
the template chosen is read from a marker in the output."""
import os, sys
sys.path.insert(0, os.path.join(os.path.dirname(os.path.abspath(__file__)), '..'))
from framework import Check, rng_for
import refxml, refxpath as X, refxslt, gen_xml, gen_xslt, xsltcommon as XC
import c01

HEAD = gen_xslt.HEAD


# node tests and axes that are filed under their own tables (or under several) by Stylesheet::addTemplate: every kind of
# node test on the attribute axis, the explicit axes, node type tests with predicates, names in a namespace
def rare_pattern(r, names, attrs):
    n = r.choice(names)
    a = r.choice(attrs)
    forms = ['@node()', n + '/@node()', '@node()[.!=""]', 'attribute::node()', 'attribute::*', 'attribute::' + a, '@p:*', '@q:*', '*/@' + a,
             '*/@*', n + '/@*', '@*[1]', '@' + a + '[.=1]', 'child::' + n, 'child::*', 'child::node()', 'child::text()', 'node()[1]', 'node()[self::' + n + ']',
             'text()[1]', 'text()[.!=""]', 'comment()[1]', 'processing-instruction()[1]', "processing-instruction('pi')[1]", "processing-instruction('other')",
             '*/node()', n + '/node()', n + '/comment()', n + '/processing-instruction()', '*/text()', '/*', '/node()', '/' + n, '/comment()',
             '//' + n, '//@' + a, '//@node()', '//node()', '//text()', '//comment()', 'p:' + r.choice(['a', 'b', 'e', 'x']), 'q:' + r.choice(['a', 'b', 'e', 'x']),
             '*[1]/@' + a, n + '//@*', n + '//node()', n + '//text()', "@*[name()='" + a + "']"]
    return r.choice(forms)


def rule_pattern(r, names, attrs, avoid):
    if r.random() < 0.22:
        if r.random() < 0.2:
            return ' | '.join(rare_pattern(r, names, attrs) for _ in range(2))
        return rare_pattern(r, names, attrs)
    k = r.random()
    n = r.choice(names)
    if k < 0.3:
        return n
    if k < 0.42:
        return '*'
    if k < 0.5:
        return r.choice(['p:*', 'q:*'])
    if k < 0.56 and 'pattern-node()-root' not in avoid:
        return 'node()'
    if k < 0.62:
        return 'text()'
    if k < 0.68:
        return '@' + r.choice(attrs + ['*'])
    if k < 0.76:
        return n + '/' + r.choice(names + ['*', 'text()'])
    if k < 0.82:
        return n + '[1]' if r.random() < 0.5 else '*[' + r.choice(['@' + r.choice(attrs), r.choice(names), '1', 'last()']) + ']'
    if k < 0.9:
        return ' | '.join(r.sample([n, '@' + r.choice(attrs), 'text()', '*', r.choice(names), 'comment()', 'p:*'], r.choice([2, 3])))
    if k < 0.94:
        return r.choice(["processing-instruction('pi')", 'processing-instruction()', 'comment()'])
    if k < 0.97:
        return '/'
    return n + '//' + r.choice(names) if 'pattern-dslash-prefix' not in avoid else n


def gen_module(r, tag, names, attrs, avoid, nrules, imports, can_apply_imports):
    parts = [HEAD % '']
    for h in imports:
        parts.append('<xsl:import href="%s"/>' % h)
    for i in range(nrules):
        pat = rule_pattern(r, names, attrs, avoid)
        a = ' match="%s"' % gen_xslt.aesc(pat)
        mode = r.choice([None, None, 'm1'])
        if mode:
            a += ' mode="%s"' % mode
        if r.random() < 0.4:
            a += ' priority="%s"' % r.choice(['0', '0.5', '-0.5', '1', '-0.25', '0.25', '2', '-1', '0.5', '0'])
        body = '<m t="%s.%d"/>' % (tag, i)
        k = r.random()
        if k < 0.25 and can_apply_imports and pat != '/':
            body = '<m t="%s.%d"><xsl:apply-imports/></m>' % (tag, i)
        elif k < 0.35 and pat != '/':
            body = '<m t="%s.%d"><xsl:apply-templates select="@*|node()" mode="m1"/></m>' % (tag, i)
        if pat == '/':
            body = '<root t="%s.%d"><xsl:apply-templates/></root>' % (tag, i)
        parts.append('<xsl:template%s>%s</xsl:template>' % (a, body))
    return parts


def gen_case(r, info, avoid):
    names = [n for n in sorted(info.elem_names) if not n.startswith('dflt:')] or ['a']
    attrs = sorted(info.attr_names) or ['x']
    files = {}
    # import tree of depth <= 3
    shape = r.choice(['flat', 'one', 'two', 'chain', 'tree'])
    def module(tag, imports, n=None):
        if n is None:
            # an intermediate module (one that imports others) is sometimes a pure aggregator: no template rule of its own, or only a named template
            n = r.choice([0, 0, 1, 2, 3, 5]) if imports and tag != 'M' else r.choice([1, 2, 3, 5, 8])
        parts = gen_module(r, tag, names, attrs, avoid, n, imports, bool(imports))
        if n == 0 and r.random() < 0.5:
            parts.append('<xsl:template name="n%s"/><xsl:variable name="v%s" select="1"/>' % (tag, tag))
        return parts
    if shape == 'flat':
        main = module('M', [])
    elif shape == 'one':
        files['a.xsl'] = ''.join(module('A', []) + ['</xsl:stylesheet>'])
        main = module('M', ['a.xsl'])
    elif shape == 'two':
        files['a.xsl'] = ''.join(module('A', []) + ['</xsl:stylesheet>'])
        files['b.xsl'] = ''.join(module('B', []) + ['</xsl:stylesheet>'])
        main = module('M', ['a.xsl', 'b.xsl'])
    elif shape == 'chain':
        files['c.xsl'] = ''.join(module('C', []) + ['</xsl:stylesheet>'])
        files['a.xsl'] = ''.join(module('A', ['c.xsl']) + ['</xsl:stylesheet>'])
        main = module('M', ['a.xsl'])
    else:
        files['c.xsl'] = ''.join(module('C', []) + ['</xsl:stylesheet>'])
        files['d.xsl'] = ''.join(module('D', []) + ['</xsl:stylesheet>'])
        files['a.xsl'] = ''.join(module('A', ['c.xsl']) + ['</xsl:stylesheet>'])
        files['b.xsl'] = ''.join(module('B', ['d.xsl']) + ['</xsl:stylesheet>'])
        main = module('M', ['a.xsl', 'b.xsl'])
    # an include with rules at the including module's precedence
    if r.random() < 0.25:
        inc = gen_module(r, 'I', names, attrs, avoid, r.choice([1, 2, 3]), [], False)
        files['inc.xsl'] = ''.join(inc + ['</xsl:stylesheet>'])
        main.insert(len([p for p in main if p.startswith('<xsl:import')]) + 1, '<xsl:include href="inc.xsl"/>')
    # the driver: every node of the document through apply-templates in both modes
    main.append('<xsl:template match="/" priority="9"><out><all><xsl:apply-templates select="//*|//@*|//text()|//comment()|//processing-instruction()"/></all>'
                '<m1><xsl:apply-templates select="//*|//@*|//text()" mode="m1"/></m1><tree><xsl:apply-templates/></tree></out></xsl:template>')
    main.append('</xsl:stylesheet>')
    return ''.join(main), files


def case(ctx, idx, res):
    r = rng_for(ctx.seed, 'c10', idx)
    runner = ctx.cache.get('runner')
    if runner is None:
        runner = ctx.cache['runner'] = XC.Runner(ctx, 'plain')
    xml, info = gen_xml.gen_doc(r, size=r.choice([6, 10, 18]), ns=r.random() < 0.5)
    main, files = gen_case(r, info, ctx.findings_avoid)
    d = os.path.join(ctx.workdir, 'c10')
    os.makedirs(d, exist_ok=True)
    for name, text in files.items():
        open(os.path.join(d, name), 'w').write(text)
    mp = os.path.join(d, 'main.xsl')
    open(mp, 'w').write(main)
    try:
        out, p = refxslt.transform(main, xml, loader=lambda h: files.get(h))
    except (refxslt.XsltError, X.XPathError, X.XPathSyntaxError) as e:
        res.count('reference_error')
        return
    exp = XC.ref_tree(out)
    rx = runner.transform(None, xml, sty='file', xslpath=mp)
    payload = {'main.xsl': main, 'files': files, 'document': xml}
    nrules = main.count('<xsl:template') + sum(t.count('<xsl:template') for t in files.values())
    res.sig = (len(files), nrules, 'apply-imports' in main or any('apply-imports' in t for t in files.values()))
    res.count('rule_sets')
    res.count('rules', nrules)
    res.count('import_shape_%d' % len(files))
    res.sample = {'main.xsl': main[:500], 'imports': sorted(files)}
    if rx.status != 0:
        res.viol('fails|%d-modules' % (len(files) + 1), 'rule set fails: %s' % rx.err[:200], payload)
        return
    try:
        got = XC.output_tree(rx.out)
    except refxml.ParseError as e:
        res.viol('not-well-formed', str(e), payload)
        return
    if got == exp:
        res.count('agree')
        return
    # locate the first differing marker
    diff = refxml.first_diff(('root', got), ('root', exp))
    # shrink: drop template rules one at a time (in every module) while the outputs still differ
    def run_both(mn, fl):
        try:
            o, _ = refxslt.transform(mn, xml, loader=lambda h: fl.get(h))
        except Exception:
            return None
        for name, text in fl.items():
            open(os.path.join(d, name), 'w').write(text)
        open(mp, 'w').write(mn)
        q = runner.transform(None, xml, sty='file', xslpath=mp)
        if q.status != 0:
            return None
        try:
            return XC.output_tree(q.out) != XC.ref_tree(o)
        except refxml.ParseError:
            return None
    import re
    cur_main, cur_files = main, dict(files)
    changed = True
    budget = 120
    while changed and budget > 0:
        changed = False
        for which in [None] + sorted(cur_files):
            text = cur_main if which is None else cur_files[which]
            rules = list(re.finditer(r'<xsl:template match="(?!/")[^>]*>.*?</xsl:template>', text))
            for mm in rules:
                budget -= 1
                cand = text[:mm.start()] + text[mm.end():]
                nm, nf = (cand, cur_files) if which is None else (cur_main, dict(cur_files, **{which: cand}))
                if run_both(nm, nf):
                    cur_main, cur_files = nm, nf
                    changed = True
                    break
            if changed:
                break
    payload.update({'minimal_main': cur_main, 'minimal_files': cur_files})
    left = re.findall(r'<xsl:template( match="[^"]*"[^>]*)>', cur_main + ''.join(cur_files.values()))
    feats = []
    alltext = cur_main + ''.join(cur_files.values())
    if 'apply-imports' in alltext:
        feats.append('apply-imports')
    if len(cur_files) > 0 and any('<xsl:template match="' in t.replace('match="/"', '') for t in cur_files.values()):
        feats.append('imports')
    if 'priority=' in alltext.replace('priority="9"', ''):
        feats.append('priority')
    if '|' in ''.join(left):
        feats.append('union')
    if 'mode="m1"' in ''.join(left):
        feats.append('mode')
    res.viol('template-choice|%s|rules=%d' % (','.join(feats), min(len(left) - 1, 4)),
             'a different template rule is instantiated than XSLT 5.5 prescribes: %s\n   remaining rules: %s' % (diff[:300], left[:8]), payload)


def main():
    chk = Check('C10')
    chk.rule = ('rule sets of 2-25 template rules over a small pattern family (name, *, p:*, node(), text(), @a, @*, x/y, x[1], *[pred], unions, PI/comment, /, x//y) '
                'with explicit and default priorities incl. equal ones, two modes, include vs import, import trees up to depth 3, apply-imports; every '
                'node of the document is pushed through apply-templates in both modes and the instantiated rule is read from a marker. A case is one '
                '(rule set, document); all are non-trivial; distinct = distinct (number of imported modules, number of rules, uses apply-imports).')
    chk.assumptions = ['refxslt computes the 5.5 winner with refxpath pattern matching', 'conflicting rules of equal precedence and priority: the last is chosen (the recovery XSLT allows); '
                       'conflict warnings cannot be switched on through XalanTransformer, so their influence is not observed']
    chk.ensure('plain', 'xvdrv')
    n = 6000 if chk.tier == 'quick' else 120000
    chk.run_cases('c10', 'case', range(n))
    chk.finish(min_nontrivial=50, required_stats=('agree',))


if __name__ == '__main__':
    main()
