"""C13 — whitespace stripping acts as if the stripped text nodes were not in the source.
Oracle: self-differential, both sides run by the library: (S with xsl:strip-space /
xsl:preserve-space, D) against (S without the declarations, D') where D' is D with the
whitespace-only text nodes the declarations select physically removed by the harness."""
import os, re, sys
sys.path.insert(0, os.path.join(os.path.dirname(os.path.abspath(__file__)), '..'))
from framework import Check, rng_for
import refxml, refxpath as X, refxslt, gen_xml, gen_xslt, xsltcommon as XC


def gen_decls(r, info):
    names = [n for n in sorted(info.elem_names) if not n.startswith('dflt:')] or ['a']
    out = []
    for _ in range(r.choice([1, 1, 2, 3])):
        kind = r.choice(['strip-space', 'strip-space', 'preserve-space'])
        toks = []
        for _ in range(r.choice([1, 1, 2, 3])):
            toks.append(r.choice(['*', '*', 'p:*', 'q:*', 'doc'] + names))
        out.append('<xsl:%s elements="%s"/>' % (kind, ' '.join(toks)))
    return ''.join(out)


def add_xml_space(r, xml):
    """xml:space="preserve" / "default" on some start tags (XSLT 3.4: a preserved ancestor keeps the text node whatever the declarations say)"""
    tags = [m for m in re.finditer(r'<([A-Za-z_][\w.\-]*(?::[\w.\-]+)?)((?:\s[^<>]*?)?)(/?)>', xml) if 'xml:space' not in m.group(2)]
    if not tags:
        return xml
    picks = sorted(r.sample(tags, min(len(tags), r.choice([1, 2, 3]))), key=lambda m: -m.start())
    for m in picks:
        xml = xml[:m.end(2)] + ' xml:space="%s"' % r.choice(['preserve', 'preserve', 'default']) + xml[m.end(2):]
    try:
        refxml.parse(xml)
    except refxml.ParseError:
        return re.sub(r' xml:space="[a-z]+"', '', xml)
    return xml


def stripped_document(xsl_with, xml, loader=None):
    """D' = D minus the whitespace-only text nodes selected by the declarations of xsl_with"""
    sheet = refxslt.Stylesheet(xsl_with, loader)
    doc = refxml.parse(xml)
    before = sum(1 for n in walk(doc) if n.kind == refxml.TEXT)
    p = refxslt.Processor(sheet, doc)
    p.strip_source(doc)
    after = sum(1 for n in walk(doc) if n.kind == refxml.TEXT)
    head = ''
    m = re.match(r'^(<!DOCTYPE[^\]]*\]>)', xml)
    if m:
        head = m.group(1)
    return head + refxml.serialize(doc), before - after


def walk(n):
    for c in n.children:
        yield c
        if c.kind == refxml.ELEM:
            for x in walk(c):
                yield x


def case(ctx, idx, res):
    r = rng_for(ctx.seed, 'c13', idx)
    runner = ctx.cache.get('runner')
    if runner is None:
        runner = ctx.cache['runner'] = XC.Runner(ctx, 'plain')
    xml, info = gen_xml.gen_doc(r, size=r.choice([8, 15, 25, 40]), ws_heavy=True)
    if r.random() < 0.3:
        xml = add_xml_space(r, xml)
    decls = gen_decls(r, info)
    imported = None
    if r.random() < 0.35:
        # part of the declarations lives in an imported (lower precedence) or included (same precedence) module
        imported = (r.choice(['import', 'import', 'include']), gen_decls(r, info))
    g = gen_xslt.SGen(r, info, avoid=ctx.findings_avoid, max_templates=r.choice([4, 8]), body_depth=r.choice([2, 3, 3]))
    xsl_with = g.stylesheet(strip=decls)
    xsl_without = xsl_with.replace(decls, '', 1)
    files_with, files_without = {}, {}
    if imported:
        how, idecls = imported
        head_end = xsl_with.index('>') + 1
        link = '<xsl:%s href="imp.xsl"/>' % how
        xsl_with = xsl_with[:head_end] + link + xsl_with[head_end:]
        xsl_without = xsl_without[:head_end] + link + xsl_without[head_end:]
        files_with['imp.xsl'] = (gen_xslt.HEAD % '') + idecls + '</xsl:stylesheet>'
        files_without['imp.xsl'] = (gen_xslt.HEAD % '') + '</xsl:stylesheet>'
        decls = decls + ' + %s of %s' % (how, idecls)
    try:
        xml_stripped, removed = stripped_document(xsl_with, xml, loader=lambda h: files_with.get(h))
    except (refxslt.XsltError, X.XPathSyntaxError, refxml.ParseError) as e:
        res.inconclusive.append('harness-exception: cannot compute D\': %s' % e)
        return

    def run_files(main, files, doc):
        if not files:
            return runner.transform(main, doc)
        d = os.path.join(ctx.workdir, 'c13')
        os.makedirs(d, exist_ok=True)
        for name, text in files.items():
            open(os.path.join(d, name), 'w', encoding='utf-8').write(text)
        mp = os.path.join(d, 'main.xsl')
        open(mp, 'w', encoding='utf-8').write(main)
        return runner.transform(None, doc, sty='file', xslpath=mp)
    a = run_files(xsl_with, files_with, xml)
    b = run_files(xsl_without, files_without, xml_stripped)
    if imported:
        res.count('with_' + imported[0])
    if 'xml:space' in xml:
        res.count('with_xml_space')
    res.count('pairs')
    res.count('whitespace_nodes_removed', removed)
    if removed:
        res.sig = (decls, tuple(sorted(g.used)))
    res.sample = {'declarations': decls, 'document': xml[:300], 'removed_text_nodes': removed}
    payload = {'declarations': decls, 'stylesheet': xsl_with, 'document': xml, 'stripped_document': xml_stripped}
    if a.status != b.status:
        res.viol('status|%s' % decls_class(decls), 'status %d with declarations %s, %d on the physically stripped document (%s / %s)' % (a.status, decls, b.status, a.err[:120], b.err[:120]), payload)
        return
    if a.status != 0:
        res.count('both_fail')
        return
    try:
        ta, tb = XC.output_tree(a.out), XC.output_tree(b.out)
    except refxml.ParseError:
        res.count('output_not_wf')
        return
    if ta == tb:
        res.count('agree')
        return

    def differs(xs):
        if imported:
            return False
        try:
            xd, _ = stripped_document(xs, xml)
        except Exception:
            return False
        p = runner.transform(xs, xml)
        q = runner.transform(xs.replace(decls, '', 1), xd)
        if p.status != 0 or q.status != 0:
            return False
        try:
            return XC.output_tree(p.out) != XC.output_tree(q.out)
        except refxml.ParseError:
            return False
    if imported:
        d = refxml.first_diff(('root', ta), ('root', tb))
        res.viol('differs|%s|%s%s' % (decls_class(decls), imported[0], '|xml:space' if 'xml:space' in xml else ''),
                 'with %s the result differs from the result on the physically stripped document: %s' % (decls, (d or '')[:300]), dict(payload, files=files_with))
        return
    mx = XC.shrink_xml(xsl_with, differs, budget=200, protect=lambda e: XC.protect_stylesheet(e) or (XC.is_xsl(e) and e.local in ('strip-space', 'preserve-space')))
    pa = runner.transform(mx, xml)
    xd, _ = stripped_document(mx, xml)
    pb = runner.transform(mx.replace(decls, '', 1), xd)
    d = refxml.first_diff(('root', XC.output_tree(pa.out)), ('root', XC.output_tree(pb.out)))
    payload['minimal_stylesheet'] = mx
    if 'xml:space' in xml:
        res.viol('differs|%s|xml:space' % decls_class(decls), 'with %s and xml:space attributes in the document the result differs from the result on the physically stripped document: %s\n    stylesheet: %s' % (decls, (d or '')[:300], mx[:800]), payload)
        return
    res.viol('differs|%s|%s' % (decls_class(decls), classify(mx)), 'with %s the result differs from the result on the physically stripped document: %s\n    stylesheet: %s' % (decls, (d or '')[:300], mx[:800]), payload)


def doc_case(ctx, idx, res):
    """the same equivalence for a document loaded with document(): stripped according to the declarations, observed through
    axes, counts, string values and copy-of"""
    r = rng_for(ctx.seed, 'c13d', idx)
    runner = ctx.cache.get('runner')
    if runner is None:
        runner = ctx.cache['runner'] = XC.Runner(ctx, 'plain')
    xml2, info = gen_xml.gen_doc(r, size=r.choice([8, 15, 25]), ws_heavy=True, ids=False)
    if r.random() < 0.3:
        xml2 = add_xml_space(r, xml2)
    decls = gen_decls(r, info)
    observe = ('<xsl:for-each select="document(\'second.xml\')//*"><e n="{name()}" t="{count(text())}" c="{count(node())}" s="{string-length(.)}" f="{string-length(text()[1])}" '
               'p="{count(preceding::text())}"/></xsl:for-each><k><xsl:copy-of select="document(\'second.xml\')/*"/></k>'
               '<v><xsl:value-of select="document(\'second.xml\')"/></v><m><xsl:apply-templates select="document(\'second.xml\')/*" mode="w"/></m>')
    tpl = '<xsl:template match="*" mode="w"><w n="{count(node())}"><xsl:apply-templates mode="w"/></w></xsl:template><xsl:template match="text()" mode="w"><t l="{string-length(.)}"/></xsl:template>'
    xsl_with = (gen_xslt.HEAD % '') + decls + '<xsl:template match="/"><out>%s</out></xsl:template>%s</xsl:stylesheet>' % (observe, tpl)
    xsl_without = xsl_with.replace(decls, '', 1)
    try:
        stripped2, removed = stripped_document(xsl_with, xml2)
    except (refxslt.XsltError, X.XPathSyntaxError, refxml.ParseError) as e:
        res.inconclusive.append('harness-exception: cannot compute D\': %s' % e)
        return
    d = os.path.join(ctx.workdir, 'c13d')
    os.makedirs(d, exist_ok=True)

    def run(xsl, second):
        open(os.path.join(d, 'second.xml'), 'w', encoding='utf-8').write(second)
        mp = os.path.join(d, 'main.xsl')
        open(mp, 'w', encoding='utf-8').write(xsl)
        return runner.transform(None, '<main/>', sty='file', xslpath=mp)
    a = run(xsl_with, xml2)
    b = run(xsl_without, stripped2)
    res.count('document_function_pairs')
    if removed:
        res.sig = ('document()', decls)
    payload = {'declarations': decls, 'stylesheet': xsl_with, 'second.xml': xml2, 'stripped second.xml': stripped2}
    if a.status != b.status or a.status != 0:
        res.viol('document()|status', 'document(): status %d with declarations %s, %d on the physically stripped document (%s / %s)' % (a.status, decls, b.status, a.err[:120], b.err[:120]), payload)
        return
    ta, tb = XC.output_tree(a.out), XC.output_tree(b.out)
    if ta != tb:
        dd = refxml.first_diff(('root', ta), ('root', tb))
        res.viol('document()|differs|%s%s' % (decls_class(decls), '|xml:space' if 'xml:space' in xml2 else ''),
                 'with %s a document loaded by document() is observed differently from its physically stripped copy: %s' % (decls, (dd or '')[:300]), payload)
        return
    res.count('document_function_agree')


def decls_class(decls):
    return ','.join(sorted(set(re.findall(r'xsl:(strip|preserve)-space', decls))))


def classify(xsl):
    names = sorted(set(re.findall(r'<xsl:([a-z\-]+)', xsl)) - set(['stylesheet', 'template', 'output', 'strip-space', 'preserve-space']))
    fn = sorted(set(re.findall(r'\b(string|normalize-space|count|position|last|string-length|sum|key|concat|contains|number)\(', xsl)))
    return ','.join(names) + '|' + ','.join(fn)


def main():
    chk = Check('C13')
    chk.rule = ('generated strip/preserve declaration sets (*, p:*, names, conflicting strip/preserve) x whitespace-heavy generated documents x generated '
                'observer stylesheets (all axes, text()/node() tests, position()/last(), count(), string values, keys, xsl:number, copy/copy-of, sort keys). '
                'A case is one (declarations, stylesheet, document); non-trivial = at least one whitespace-only text node is selected for stripping; '
                'distinct = distinct (declarations, set of instruction kinds used).')
    chk.assumptions = ['30% of the documents carry xml:space attributes (preserve / default), 35% of the cases put part of the declarations into an imported or included module', 'D\' is computed by the harness from the declarations (NameTest priority, last-wins)', 'both sides are run by the library; trees of the outputs are compared']
    chk.ensure('plain', 'xvdrv')
    n = 12000 if chk.tier == 'quick' else 400000
    chk.run_cases('c13', 'case', range(n))
    chk.run_cases('c13', 'doc_case', range(n // 4))
    chk.finish(min_nontrivial=100, required_stats=('agree', 'whitespace_nodes_removed', 'with_import', 'with_xml_space', 'document_function_agree'))


if __name__ == '__main__':
    main()
