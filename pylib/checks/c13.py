"""C13 — whitespace stripping acts as if the stripped text nodes were not in the source.
Oracle: self-differential, both sides run by the library: (S with xsl:strip-space /
xsl:preserve-space, D) against (S without the declarations, D') where D' is D with the
whitespace-only text nodes the declarations select physically removed by the harness."""
import os, re, sys
sys.path.insert(0, os.path.join(os.path.dirname(os.path.abspath(__file__)), '..'))
from framework import Check, rng_for
import refxml, refxpath as X, refxslt, gen_xml, gen_xslt, xsltcommon as XC


def gen_decls(r, info):
    names = [n for n in sorted(info.elem_names) if not n.startswith('dflt:')] or ['a']
    out = []
    for _ in range(r.choice([1, 1, 2, 3])):
        kind = r.choice(['strip-space', 'strip-space', 'preserve-space'])
        toks = []
        for _ in range(r.choice([1, 1, 2, 3])):
            toks.append(r.choice(['*', '*', 'p:*', 'q:*', 'doc'] + names))
        out.append('<xsl:%s elements="%s"/>' % (kind, ' '.join(toks)))
    return ''.join(out)


def stripped_document(xsl_with, xml):
    """D' = D minus the whitespace-only text nodes selected by the declarations of xsl_with"""
    sheet = refxslt.Stylesheet(xsl_with)
    doc = refxml.parse(xml)
    before = sum(1 for n in walk(doc) if n.kind == refxml.TEXT)
    p = refxslt.Processor(sheet, doc)
    p.strip_source(doc)
    after = sum(1 for n in walk(doc) if n.kind == refxml.TEXT)
    head = ''
    m = re.match(r'^(<!DOCTYPE[^\]]*\]>)', xml)
    if m:
        head = m.group(1)
    return head + refxml.serialize(doc), before - after


def walk(n):
    for c in n.children:
        yield c
        if c.kind == refxml.ELEM:
            for x in walk(c):
                yield x


def case(ctx, idx, res):
    r = rng_for(ctx.seed, 'c13', idx)
    runner = ctx.cache.get('runner')
    if runner is None:
        runner = ctx.cache['runner'] = XC.Runner(ctx, 'plain')
    xml, info = gen_xml.gen_doc(r, size=r.choice([8, 15, 25, 40]), ws_heavy=True)
    decls = gen_decls(r, info)
    g = gen_xslt.SGen(r, info, avoid=ctx.findings_avoid, max_templates=r.choice([4, 8]), body_depth=r.choice([2, 3, 3]))
    xsl_with = g.stylesheet(strip=decls)
    xsl_without = xsl_with.replace(decls, '', 1)
    try:
        xml_stripped, removed = stripped_document(xsl_with, xml)
    except (refxslt.XsltError, X.XPathSyntaxError, refxml.ParseError) as e:
        res.inconclusive.append('harness-exception: cannot compute D\': %s' % e)
        return
    a = runner.transform(xsl_with, xml)
    b = runner.transform(xsl_without, xml_stripped)
    res.count('pairs')
    res.count('whitespace_nodes_removed', removed)
    if removed:
        res.sig = (decls, tuple(sorted(g.used)))
    res.sample = {'declarations': decls, 'document': xml[:300], 'removed_text_nodes': removed}
    payload = {'declarations': decls, 'stylesheet': xsl_with, 'document': xml, 'stripped_document': xml_stripped}
    if a.status != b.status:
        res.viol('status|%s' % decls_class(decls), 'status %d with declarations %s, %d on the physically stripped document (%s / %s)' % (a.status, decls, b.status, a.err[:120], b.err[:120]), payload)
        return
    if a.status != 0:
        res.count('both_fail')
        return
    try:
        ta, tb = XC.output_tree(a.out), XC.output_tree(b.out)
    except refxml.ParseError:
        res.count('output_not_wf')
        return
    if ta == tb:
        res.count('agree')
        return

    def differs(xs):
        try:
            xd, _ = stripped_document(xs, xml)
        except Exception:
            return False
        p = runner.transform(xs, xml)
        q = runner.transform(xs.replace(decls, '', 1), xd)
        if p.status != 0 or q.status != 0:
            return False
        try:
            return XC.output_tree(p.out) != XC.output_tree(q.out)
        except refxml.ParseError:
            return False
    mx = XC.shrink_xml(xsl_with, differs, budget=200, protect=lambda e: XC.protect_stylesheet(e) or (XC.is_xsl(e) and e.local in ('strip-space', 'preserve-space')))
    pa = runner.transform(mx, xml)
    xd, _ = stripped_document(mx, xml)
    pb = runner.transform(mx.replace(decls, '', 1), xd)
    d = refxml.first_diff(('root', XC.output_tree(pa.out)), ('root', XC.output_tree(pb.out)))
    payload['minimal_stylesheet'] = mx
    res.viol('differs|%s|%s' % (decls_class(decls), classify(mx)), 'with %s the result differs from the result on the physically stripped document: %s\n    stylesheet: %s' % (decls, (d or '')[:300], mx[:800]), payload)


def decls_class(decls):
    return ','.join(sorted(set(re.findall(r'xsl:(strip|preserve)-space', decls))))


def classify(xsl):
    names = sorted(set(re.findall(r'<xsl:([a-z\-]+)', xsl)) - set(['stylesheet', 'template', 'output', 'strip-space', 'preserve-space']))
    fn = sorted(set(re.findall(r'\b(string|normalize-space|count|position|last|string-length|sum|key|concat|contains|number)\(', xsl)))
    return ','.join(names) + '|' + ','.join(fn)


def main():
    chk = Check('C13')
    chk.rule = ('generated strip/preserve declaration sets (*, p:*, names, conflicting strip/preserve) x whitespace-heavy generated documents x generated '
                'observer stylesheets (all axes, text()/node() tests, position()/last(), count(), string values, keys, xsl:number, copy/copy-of, sort keys). '
                'A case is one (declarations, stylesheet, document); non-trivial = at least one whitespace-only text node is selected for stripping; '
                'distinct = distinct (declarations, set of instruction kinds used).')
    chk.assumptions = ['documents carry no xml:space attributes', 'D\' is computed by the harness from the declarations (NameTest priority, last-wins)', 'both sides are run by the library; trees of the outputs are compared']
    chk.ensure('plain', 'xvdrv')
    n = 4000 if chk.tier == 'quick' else 150000
    chk.run_cases('c13', 'case', range(n))
    chk.finish(min_nontrivial=100, required_stats=('agree', 'whitespace_nodes_removed'))


if __name__ == '__main__':
    main()
