"""C04 - XML output is well-formed and parses back to exactly the result tree.
Oracle: the bytes a serializer delivers are decoded with the encoding they declare, parsed by expat
(through refxml) and compared node by node with the tree the event script described.  The same script
is replayed into FormatterToXML and into the XalanXMLSerializerFactory product (the serializer
XalanTransformer uses), for every encoding / XML version / CDATA choice; hostile characters are placed
at swept offsets relative to the 512-unit writer buffers.  A tree that cannot be represented must make
the serializer fail.  A second family of cases drives the same through a real transformation
(xsl:output encoding / version / cdata-section-elements, identity copy of a generated source)."""
import codecs, os, re, sys
sys.path.insert(0, os.path.join(os.path.dirname(os.path.abspath(__file__)), '..'))
from framework import Check, rng_for
from xvdriver import DriverDied
import refxml, xsltcommon as XC

# requested encoding -> python codec used to decode the output
ENCODINGS = {'UTF-8': 'utf-8', 'UTF-16': 'utf-16', 'ISO-8859-1': 'latin-1', 'US-ASCII': 'ascii', 'windows-1252': 'cp1252', 'ISO-8859-2': 'iso8859-2',
             'KOI8-R': 'koi8-r', 'ISO-8859-15': 'iso8859-15', 'UTF-16BE': 'utf-16-be', 'UTF-16LE': 'utf-16-le', 'utf-8': 'utf-8',
             'ISO-8859-5': 'iso8859-5', 'UTF-32': 'utf-32'}
MAIN_ENC = ['UTF-8', 'UTF-8', 'UTF-16', 'ISO-8859-1', 'US-ASCII']
SPECIAL = ['<', '&', '>', '"', "'", '\t', '\r', '\n', '\r\n', ']]>', ']]', ']', ']]]>', '\u0085', '\u2028', '\u00a0', '\u00e9', '\u00ff', '\u0100', '\u20ac', '\ufffd',
           '\ud7ff', '\ue000', '\U00010000', '\U0010ffff', '\U0001f600', '\u007f', '\u0080', '\u009f', '\u044f', '\u3042', '\u4e2d', ' ', '  ', '\u200b', '\ufeff']
FORBIDDEN = ['\x01', '\x08', '\x0b', '\x0c', '\x1f', '\ufffe', '\uffff', '\x00']
LONE = ['\ud800', '\udbff', '\udc00', '\udfff']
FILL = ['x', 'x', 'x', '\u00e9', '\u20ac', '\U0001f600', ' ', 'ab']
NAMES = ['a', 'b', 'c', 'data', 'x1', 'n-1', 'n.2', '_u', '\u00e9l', '\u0107', '\u044f', '\u3042']


def is_xml_char(ch, ver):
    o = ord(ch)
    if ver == '1.1':
        return 1 <= o <= 0xD7FF or 0xE000 <= o <= 0xFFFD or 0x10000 <= o <= 0x10FFFF
    return o in (9, 10, 13) or 0x20 <= o <= 0xD7FF or 0xE000 <= o <= 0xFFFD or 0x10000 <= o <= 0x10FFFF


def is_restricted(ch):
    o = ord(ch)
    return 1 <= o <= 8 or o in (0xB, 0xC) or 0xE <= o <= 0x1F or 0x7F <= o <= 0x84 or 0x86 <= o <= 0x9F


def encodable(s, codec):
    try:
        s.encode(codec)
        return True
    except (UnicodeEncodeError, LookupError):
        return False


def hx(s):
    return s.encode('utf-8', 'surrogatepass').hex() or '-'


class TreeGen(object):
    def __init__(self, r, enc, ver, allow_unrep, avoid=()):
        self.r = r
        self.avoid = avoid
        self.enc = enc
        self.codec = ENCODINGS[enc]
        self.ver = ver
        self.allow_unrep = allow_unrep
        self.unrep = []         # reasons why the tree cannot be represented
        self.events = []
        self.offsets = set()
        self.features = set()

    def text(self, where):
        r = self.r
        parts = []
        n = r.choice([1, 1, 2, 3, 6])
        for _ in range(n):
            k = r.random()
            if k < 0.45:
                f = r.choice(FILL)
                if not encodable(f, self.codec) and where in ('comment', 'pi'):
                    f = 'x'
                ln = r.choice([r.randint(0, 8), r.randint(0, 40), r.randint(490, 530), r.randint(1000, 1040), r.randint(0, 1100), r.randint(1500, 2100)])
                if len(f) * ln > 2300:
                    ln = 2300 // len(f)
                self.offsets.add(ln % 512)
                parts.append(f * ln)
            elif k < 0.92 or not self.allow_unrep:
                c, t = r.choice(ITEMS[:34])
                if ('%s:%s' % (where, c)) in self.avoid or ('*:%s' % c) in self.avoid:
                    t = 'y'
                if where in ('comment', 'pi') and (not encodable(t, self.codec) or any(is_restricted(ch) for ch in t)):
                    t = 'y'
                parts.append(t)
            elif k < 0.97:
                parts.append(r.choice(FORBIDDEN))
            else:
                parts.append(r.choice(LONE) + r.choice(['', 'x']))
        s = ''.join(parts)
        if where in ('comment', 'pi'):
            s = s.replace('--', '- ').replace('?>', '? ').replace('\r', ' ').replace('\u0085', ' ').replace('\u2028', ' ')
            s = s.strip(' \t\n')
            if s.endswith('-'):
                s += '.'
            if not encodable(s, self.codec):
                self.unrep.append('%s with a character %s cannot encode' % (where, self.enc))
            if self.ver == '1.1' and any(is_restricted(c) for c in s):
                self.unrep.append('%s with a restricted character' % where)
        bad = [c for c in s if not is_xml_char(c, self.ver)]
        if bad:
            self.unrep.append('%s with U+%04X, not an XML %s character' % (where, ord(bad[0]), self.ver))
        return s

    def name(self):
        n = self.r.choice(NAMES)
        if not encodable(n, self.codec):
            if self.allow_unrep and self.r.random() < 0.3:
                self.unrep.append('name %r not encodable in %s' % (n, self.enc))
            else:
                n = 'e' + str(self.r.randint(0, 9))
        return n

    def chunks(self, s):
        """split a text into 1-3 characters() calls (never inside a surrogate pair or a CR LF)"""
        r = self.r
        if len(s) < 2 or r.random() < 0.6:
            return [s]
        cuts = sorted(set(r.randint(1, len(s) - 1) for _ in range(r.choice([1, 2]))))
        out, last = [], 0
        for c in cuts:
            out.append(s[last:c])
            last = c
        out.append(s[last:])
        return [x for x in out if x]

    def element(self, depth):
        r = self.r
        nm = self.name()
        attrs = {}
        for _ in range(r.choice([0, 0, 1, 2])):
            an = self.name()
            if an in attrs:
                continue
            attrs[an] = self.text('attribute')
        ev = 'S ' + hx(nm) + ''.join(' %s %s' % (hx(k), hx(v)) for k, v in attrs.items())
        self.events.append(ev)
        kids = []
        cdata_elem = r.random() < 0.3
        for _ in range(r.choice([0, 1, 1, 2, 4]) if depth < 2 else r.choice([0, 1])):
            k = r.random()
            if k < 0.55:
                t = self.text('cdata' if cdata_elem else 'text')
                if not t:
                    continue
                for c in self.chunks(t):
                    self.events.append(('D ' if cdata_elem else 'T ') + hx(c))
                if cdata_elem:
                    self.features.add('cdata')
                if kids and kids[-1][0] == 't':
                    kids[-1] = ('t', kids[-1][1] + t)
                else:
                    kids.append(('t', t))
            elif k < 0.65:
                t = self.text('comment')
                self.events.append('M ' + hx(t))
                kids.append(('c', t))
                self.features.add('comment')
            elif k < 0.72:
                t = self.text('pi')
                tg = r.choice(['pi', 'target', 'x-y'])
                self.events.append('P %s %s' % (hx(tg), hx(t)))
                kids.append(('p', tg, t))
                self.features.add('pi')
            else:
                kids.append(self.element(depth + 1))
        self.events.append('E ' + hx(nm))
        return ('e', nm, attrs, kids)


_DECL = re.compile(r'^<\?xml\s+version="([^"]*)"(?:\s+encoding="([^"]*)")?(?:\s+standalone="([^"]*)")?\s*\?>')
_CREF = re.compile(r'&#(x[0-9a-fA-F]+|[0-9]+);')


def decode_output(out, requested):
    """bytes -> (text without declaration, version, declared encoding) or raises ValueError(reason)"""
    if out[:2] in (b'\xff\xfe', b'\xfe\xff') and out[:4] not in (b'\xff\xfe\x00\x00',):
        probe = out[:200].decode('utf-16', 'replace')
    elif out[:4] in (b'\xff\xfe\x00\x00', b'\x00\x00\xfe\xff'):
        probe = out[:400].decode('utf-32', 'replace')
    elif out[:4] == b'<\x00\x00\x00':
        probe = out[:400].decode('utf-32-le', 'replace')
    elif out[:4] == b'\x00\x00\x00<':
        probe = out[:400].decode('utf-32-be', 'replace')
    elif out[:2] == b'<\x00':
        probe = out[:200].decode('utf-16-le', 'replace')
    elif out[:2] == b'\x00<':
        probe = out[:200].decode('utf-16-be', 'replace')
    else:
        probe = out[:100].decode('latin-1')
    probe = probe.lstrip('\ufeff')
    m = _DECL.match(probe)
    if not m:
        raise ValueError('no XML declaration at the start of the output: %r' % out[:60])
    ver, enc = m.group(1), m.group(2) or 'UTF-8'
    codec = None
    for k, v in ENCODINGS.items():
        if k.lower() == enc.lower():
            codec = v
    if codec is None:
        raise ValueError('output declares encoding %r' % enc)
    try:
        text = out.decode(codec)
    except UnicodeDecodeError as e:
        raise ValueError('output is not valid %s: %s' % (enc, e))
    text = text.lstrip('\ufeff')
    m = _DECL.match(text)
    if not m:
        raise ValueError('declaration unreadable after decoding as %s' % enc)
    return text[m.end():], ver, enc


PUA = 0xF0000


def parse_output(text, ver):
    """refxml tree of the decoded output under the rules of XML `ver` (expat only knows 1.0)"""
    if ver == '1.1':
        # what a 1.1 parser does that expat does not: end-of-line handling of NEL / LS, character references to C0 controls
        text = text.replace('\r\n', '\n').replace('\r\u0085', '\n').replace('\u0085', '\n').replace('\u2028', '\n').replace('\r', '\n')
        for ch in text:
            if is_restricted(ch):
                raise refxml.ParseError('literal restricted character U+%04X in an XML 1.1 document' % ord(ch))

        def cref(m):
            v = m.group(1)
            o = int(v[1:], 16) if v[0] == 'x' else int(v)
            if 1 <= o < 0x20 and o not in (9, 10, 13):
                return chr(PUA + o)
            return m.group(0)
        text = _CREF.sub(cref, text)
    doc = refxml.parse(text)
    return doc


def tree_of(e):
    kids = []
    for c in e.children:
        if c.kind == refxml.TEXT:
            v = ''.join(chr(ord(ch) - PUA) if PUA < ord(ch) < PUA + 0x20 else ch for ch in c.value)
            if kids and kids[-1][0] == 't':
                kids[-1] = ('t', kids[-1][1] + v)
            else:
                kids.append(('t', v))
        elif c.kind == refxml.ELEM:
            kids.append(tree_of(c))
        elif c.kind == refxml.COMMENT:
            kids.append(('c', c.value))
        elif c.kind == refxml.PI:
            kids.append(('p', c.name, c.value))
    return ('e', e.name, dict((a.name, ''.join(chr(ord(ch) - PUA) if PUA < ord(ch) < PUA + 0x20 else ch for ch in a.value)) for a in e.attrs), kids)


def show(s, at=None):
    if at is not None:
        s = s[max(0, at - 6):at + 6]
    return ''.join(c if 0x20 < ord(c) < 0x7f else '\\u%04x' % ord(c) if ord(c) < 0x10000 else '\\U%08x' % ord(c) for c in s)


def first_text_diff(a, b):
    n = min(len(a), len(b))
    for i in range(n):
        if a[i] != b[i]:
            return i
    return n


def diff(got, exp, path=''):
    if got[0] != exp[0]:
        return ('structure', '%s: a %s node where a %s node was written' % (path, got[0], exp[0]))
    if got[0] == 't':
        if got[1] == exp[1]:
            return None
        i = first_text_diff(got[1], exp[1])
        return ('text', '%s: text differs at offset %d of %d: written ...%s..., read back ...%s...' % (path, i, len(exp[1]), show(exp[1], i), show(got[1], i)), i)
    if got[0] == 'c':
        return None if got[1] == exp[1] else ('comment', '%s: comment %s read back as %s' % (path, show(exp[1][:40]), show(got[1][:40])))
    if got[0] == 'p':
        return None if got[1:] == exp[1:] else ('pi', '%s: processing instruction %s read back as %s' % (path, show(' '.join(exp[1:])[:40]), show(' '.join(got[1:])[:40])))
    here = path + '/' + exp[1]
    if got[1] != exp[1]:
        return ('name', '%s: element %s read back as %s' % (path, show(exp[1]), show(got[1])))
    if got[2] != exp[2]:
        if set(got[2]) != set(exp[2]):
            return ('attribute-names', '%s: attributes %s read back as %s' % (here, sorted(exp[2]), sorted(got[2])))
        k = [x for x in exp[2] if exp[2][x] != got[2][x]][0]
        i = first_text_diff(got[2][k], exp[2][k])
        return ('attribute-value', '%s/@%s differs at offset %d of %d: written ...%s..., read back ...%s...' % (here, k, i, len(exp[2][k]), show(exp[2][k], i), show(got[2][k], i)), i)
    if len(got[3]) != len(exp[3]):
        return ('structure', '%s: %d children written, %d read back' % (here, len(exp[3]), len(got[3])))
    for a, b in zip(got[3], exp[3]):
        d = diff(a, b, here)
        if d:
            return d
    return None


def char_class(s, i):
    if i is None or i >= len(s):
        return 'end'
    o = ord(s[i])
    if s[i] in '<&>"\'':
        return 'markup'
    if s[i] in '\r\n\t':
        return 'whitespace'
    if s[i] == ']':
        return 'cdata-end'
    if o < 0x20 or 0x7f <= o <= 0x9f or o in (0x85, 0x2028):
        return 'control'
    if o < 0x80:
        return 'ascii'
    if o < 0x100:
        return 'latin1'
    if o < 0x10000:
        return 'bmp'
    return 'supplementary'


def judge(rp, exp, requested_enc, ver, unrep):
    """returns None (held) or (key, what)"""
    status = rp.get('status', b'?').decode()
    out = rp.get('out', b'')
    if unrep:
        if status != '0':
            return None
        # succeeded although the tree cannot be represented: is the output corrupt, or silently altered?
        try:
            text, v, enc = decode_output(out, requested_enc)
            got = tree_of([c for c in parse_output(text, v).children if c.kind == refxml.ELEM][0])
            d = diff(got, exp)
            how = 'the output parses, but to a different tree (%s)' % d[1][:200] if d else 'the output parses back (the harness considers this impossible)'
        except (ValueError, refxml.ParseError) as e:
            how = 'the output is corrupt: %s' % str(e)[:200]
        return ('unrepresentable-accepted|%s' % unrep[0].split(' with ')[0].split(' ')[0], 'the tree cannot be represented (%s) but the serializer reports success; %s' % (unrep[0], how))
    if status != '0':
        return ('fails', 'a representable tree is refused: %s' % rp.get('exception', b'').decode('utf-8', 'replace')[:200])
    try:
        text, v, enc = decode_output(out, requested_enc)
    except ValueError as e:
        return ('undecodable', str(e)[:300])
    if v != ver:
        return ('version', 'declares version %s, %s was requested' % (v, ver))
    if enc.lower() != requested_enc.lower():
        return ('encoding-declared', 'declares encoding %s, %s was requested' % (enc, requested_enc))
    try:
        doc = parse_output(text, v)
    except refxml.ParseError as e:
        return ('not-well-formed', 'the output is not well-formed: %s' % str(e)[:300])
    got = tree_of([c for c in doc.children if c.kind == refxml.ELEM][0])
    d = diff(got, exp)
    if d:
        cls = ''
        if len(d) > 2:
            # class of the character at the first difference, in the text that was written
            def find(t, path):
                return None
            cls = '|' + d[0]
        return ('tree|%s' % d[0], d[1])
    return None


ITEMS = [('lt', '<'), ('amp', '&'), ('gt', '>'), ('quot', '"'), ('apos', "'"), ('tab', '\t'), ('cr', '\r'), ('lf', '\n'), ('crlf', '\r\n'), ('cdata-end', ']]>'), ('rsb2', ']]'),
         ('rsb', ']'), ('nel', '\u0085'), ('ls', '\u2028'), ('nbsp', '\u00a0'), ('latin1', '\u00e9'), ('latin1', '\u00ff'), ('latin-ext', '\u0100'), ('euro', '\u20ac'),
         ('bmp', '\ufffd'), ('bmp', '\ud7ff'), ('bmp', '\ue000'), ('supplementary', '\U00010000'), ('supplementary', '\U0010ffff'), ('supplementary', '\U0001f600'),
         ('del', '\u007f'), ('c1', '\u0080'), ('c1', '\u009f'), ('cyrillic', '\u044f'), ('han', '\u4e2d'), ('space', ' '), ('default-ignorable', '\u200b'),
         ('default-ignorable', '\ufeff'), ('default-ignorable', '\u00ad'),
         ('c0', '\x01'), ('c0', '\x08'), ('c0', '\x0b'), ('c0', '\x1f'), ('nonchar', '\ufffe'), ('nonchar', '\uffff'), ('nul', '\x00'),
         ('lone-high', '\ud800'), ('lone-high', '\udbff'), ('lone-low', '\udc00'), ('lone-low', '\udfff')]
CONTEXTS = ['text', 'text', 'attribute', 'attribute', 'cdata', 'cdata', 'comment', 'pi', 'element-name', 'attribute-name']
ENC_CLASS = {'UTF-8': 'utf-8', 'utf-8': 'utf-8', 'UTF-16': 'utf-16', 'UTF-16LE': 'utf-16xe', 'UTF-16BE': 'utf-16xe', 'UTF-32': 'utf-32', 'ISO-8859-1': 'latin1', 'US-ASCII': 'ascii'}


PRIORITY = ['lone-high', 'lone-low', 'nul', 'nonchar', 'c0', 'default-ignorable', 'c1', 'del', 'nel', 'ls', 'cr', 'crlf', 'cdata-end', 'rsb2', 'rsb', 'supplementary']


def reduce_class(klass, enc='UTF-8'):
    """context|item+item -> context|the item class most likely to matter (keeps violation keys few and stable)"""
    if '|' not in klass:
        return klass
    ctxt, items = klass.split('|', 1)
    items = items.split('+')
    if 'default-ignorable' in items and enc_class(enc) == 'non-unicode' and not any(i in items for i in PRIORITY[:4]):
        return '%s|default-ignorable' % ctxt
    for p in PRIORITY:
        if p in items:
            return '%s|%s' % (ctxt, p)
    if any(i in ('bmp', 'latin1', 'latin-ext', 'euro', 'cyrillic', 'han', 'nbsp', 'name-non-ascii') for i in items):
        return '%s|non-ascii' % ctxt
    return '%s|ascii' % ctxt


def enc_class(enc):
    return 'unicode' if enc.upper().startswith('UTF') else 'non-unicode'


def focus_string(r, codec, context, ver, avoid):
    """filler + 1..2 hostile items + filler; returns (string, item classes, filler lengths)"""
    f = r.choice(FILL)
    if not encodable(f, codec) and context in ('comment', 'pi', 'element-name', 'attribute-name'):
        f = 'x'
    ln = r.choice([0, r.randint(0, 8), r.randint(0, 40), r.randint(480, 530), r.randint(1000, 1040), r.randint(0, 1100), r.randint(1500, 2100)])
    ln = min(ln, 2300 // len(f))
    n = r.choice([1, 1, 1, 2])
    items = []
    while len(items) < n:
        c, t = r.choice(ITEMS)
        if c in avoid:
            continue
        items.append((c, t))
    tail = r.choice(['', '', 'x', 'xyz', f * 3])
    s = f * ln + ''.join(t for c, t in items) + tail
    return s, [c for c, t in items], ln


def unrepresentable(t, enc, ver, out=None):
    """reasons why the tree cannot be written as an XML `ver` document in encoding `enc`"""
    codec = ENCODINGS[enc]
    if out is None:
        out = []
    if t[0] == 't':
        bad = [c for c in t[1] if not is_xml_char(c, ver)]
        if bad:
            out.append('text with U+%04X, not an XML %s character' % (ord(bad[0]), ver))
    elif t[0] in 'cp':
        kind = 'comment' if t[0] == 'c' else 'pi'
        sv = t[-1]
        bad = [c for c in sv if not is_xml_char(c, ver)]
        if bad:
            out.append('%s with U+%04X, not an XML %s character' % (kind, ord(bad[0]), ver))
        if not encodable(sv, codec):
            out.append('%s with a character %s cannot encode' % (kind, enc))
        if ver == '1.1' and any(is_restricted(c) for c in sv):
            out.append('%s with a restricted character' % kind)
    else:
        for nm in [t[1]] + list(t[2]):
            if not encodable(nm, codec):
                out.append('name %r not encodable in %s' % (nm, enc))
        for v in t[2].values():
            bad = [c for c in v if not is_xml_char(c, ver)]
            if bad:
                out.append('attribute with U+%04X, not an XML %s character' % (ord(bad[0]), ver))
        for c in t[3]:
            unrepresentable(c, enc, ver, out)
    return out


def focus_tree(r, enc, ver, context, items=None, srcver=None):
    """one hostile string in one context: returns (events, expected tree, unrepresentable reasons, class, filler length)"""
    codec = ENCODINGS[enc]
    if context in ('element-name', 'attribute-name'):
        base = r.choice(NAMES)
        unrep = [] if encodable(base, codec) else ['name %r not encodable in %s' % (base, enc)]
        s, classes, ln = base, ['name-' + ('ascii' if base.isascii() else 'non-ascii')], 0
    else:
        while True:
            s, classes, ln = focus_string(r, codec, context, ver, ())
            if items is None or all(c in items for c in classes):
                break
        unrep = []
        if context in ('comment', 'pi'):
            s2 = s.replace('--', '- ').replace('?>', '? ').replace('\r', ' ').replace('\u0085', ' ').replace('\u2028', ' ').strip(' \t\n')
            if s2.endswith('-'):
                s2 += '.'
            if s2 != s:
                classes = [c for c in classes if c not in ('cr', 'crlf', 'nel', 'ls')] or ['space']
            s = s2
            if not encodable(s, codec):
                unrep.append('%s with a character %s cannot encode' % (context, enc))
            if ver == '1.1' and any(is_restricted(c) for c in s):
                unrep.append('%s with a restricted character' % context)
        bad = [c for c in s if not is_xml_char(c, ver)]
        if bad:
            unrep.append('%s with U+%04X, not an XML %s character' % (context, ord(bad[0]), ver))
    pad = 'p' * r.choice([0, 0, 3, r.randint(0, 600)])
    events = ['S ' + hx('r')]
    kids = []
    if pad:
        events.append('M ' + hx(pad))
        kids.append(('c', pad))
    g = TreeGen(r, enc, ver, False)
    if context == 'text' and s:
        events.append('S ' + hx('e'))
        events += ['T ' + hx(c) for c in g.chunks(s)]
        events.append('E ' + hx('e'))
        kids.append(('e', 'e', {}, [('t', s)]))
    elif context == 'cdata' and s:
        events.append('S ' + hx('e'))
        events += ['D ' + hx(c) for c in g.chunks(s)]
        events.append('E ' + hx('e'))
        kids.append(('e', 'e', {}, [('t', s)]))
    elif context == 'attribute':
        events += ['S %s %s %s' % (hx('e'), hx('a'), hx(s)), 'E ' + hx('e')]
        kids.append(('e', 'e', {'a': s}, []))
    elif context == 'comment':
        events.append('M ' + hx(s))
        kids.append(('c', s))
    elif context == 'pi':
        events.append('P %s %s' % (hx('t'), hx(s)))
        kids.append(('p', 't', s))
    elif context == 'element-name':
        events += ['S ' + hx(s), 'T ' + hx('v'), 'E ' + hx(s)]
        kids.append(('e', s, {}, [('t', 'v')]))
    elif context == 'attribute-name':
        events += ['S %s %s %s' % (hx('e'), hx(s), hx('v')), 'E ' + hx('e')]
        kids.append(('e', 'e', {s: 'v'}, []))
    events.append('E ' + hx('r'))
    return events, ('e', 'r', {}, kids), unrep, '%s|%s' % (context, '+'.join(classes)), ln


def case(ctx, idx, res):
    r = rng_for(ctx.seed, 'c04', idx)
    drv = ctx.drv('plain')
    enc = r.choice(MAIN_ENC + MAIN_ENC + sorted(ENCODINGS))
    ver = r.choice(['1.0', '1.0', '1.1'])
    context = r.choice(CONTEXTS)
    if r.random() < 0.15:
        # a whole tree with everything mixed (known defects of single constructs are kept out through the avoid tags)
        g = TreeGen(r, enc, ver, allow_unrep=False, avoid=ctx.findings_avoid)
        exp = g.element(0)
        events, unrep, offs = g.events, g.unrep, g.offsets
        klass = 'mixed'
    else:
        events, exp, unrep, klass, ln = focus_tree(r, enc, ver, context)
        offs = set([ln % 512])
    unrep = unrepresentable(exp, enc, ver)
    script = '\n'.join(events)
    res.sigs = set([(enc, ver, bool(unrep), klass)] + [('off', o) for o in offs])
    res.sample = {'encoding': enc, 'version': ver, 'focus': klass, 'unrepresentable': unrep[:1]}
    res.count('trees')
    res.count('unrepresentable_trees' if unrep else 'representable_trees')
    res.count('enc_' + enc)
    outs = {}
    for which in ('factory', 'fxml'):
        if which == 'fxml' and klass == 'mixed' and 'fxml-legacy' in ctx.findings_avoid and (ver == '1.1' or any(e[0] in 'DMP' for e in events) or not all(bytes.fromhex(x).isascii() for e in events if e[0] == 'S' for x in (e[2:].split(' ')[:1] + e[2:].split(' ')[1::2]) if x != '-')):
            res.count('fxml_skipped_on_mixed_tree')
            continue
        payload = {'serializer': which, 'encoding': enc, 'version': ver, 'script': script, 'unrepresentable': unrep, 'focus': klass}
        rp = drv.call(cmd='ser', which=which, enc=enc, ver=ver, script=script)
        res.count('serializations')
        outs[which] = rp
        j = judge(rp, exp, enc, ver, unrep)
        if j:
            res.viol('%s|%s|%s|%s|%s' % (which, j[0].split('|')[0], reduce_class(klass, enc), enc_class(enc), ver),
                     '%s, encoding %s, XML %s, %s: %s' % (which, enc, ver, klass, j[1]), payload)
        else:
            res.count('round_trips' if not unrep else 'refused_as_required')
    if 'fxml' not in outs:
        return
    a, b = outs['factory'], outs['fxml']
    if a.get('status') == b.get('status') == b'0' and not unrep:
        res.count('serializers_agree_on_tree')


# ---- through a transformation ---------------------------------------------------------------------------
def src_escape(s, attr=False):
    out = []
    for ch in s:
        o = ord(ch)
        if ch == '<':
            out.append('&lt;')
        elif ch == '&':
            out.append('&amp;')
        elif ch == '>':
            out.append('&gt;')
        elif ch == '"' and attr:
            out.append('&quot;')
        elif ch in '\r\t\n' and (attr or ch == '\r') or o in (0x85, 0x2028) or o < 0x20 and ch not in '\t\n' or 0x7f <= o <= 0x9f:
            out.append('&#%d;' % o)
        else:
            out.append(ch)
    return ''.join(out)


def to_source(t):
    if t[0] == 't':
        return src_escape(t[1])
    if t[0] == 'c':
        return '<!--%s-->' % t[1]
    if t[0] == 'p':
        return '<?%s %s?>' % (t[1], t[2]) if t[2] else '<?%s?>' % t[1]
    return '<%s%s>%s</%s>' % (t[1], ''.join(' %s="%s"' % (k, src_escape(v, True)) for k, v in t[2].items()), ''.join(to_source(c) for c in t[3]), t[1])


SOURCE_ITEMS_10 = set(c for c, t in ITEMS if c not in ('c0', 'nonchar', 'nul', 'lone-high', 'lone-low'))
SOURCE_ITEMS_11 = SOURCE_ITEMS_10 | set(['c0'])


def xslt_case(ctx, idx, res):
    r = rng_for(ctx.seed, 'c04x', idx)
    runner = ctx.cache.get('runner')
    if runner is None:
        runner = ctx.cache['runner'] = XC.Runner(ctx, 'plain')
    enc = r.choice(MAIN_ENC + MAIN_ENC + sorted(ENCODINGS))
    ver = r.choice(['1.0', '1.0', '1.1'])
    srcver = r.choice(['1.0', '1.0', '1.1'])
    context = r.choice(CONTEXTS)
    if r.random() < 0.15:
        g = TreeGen(r, 'UTF-8', srcver, allow_unrep=False, avoid=ctx.findings_avoid)
        g.codec, g.enc = ENCODINGS[enc], enc
        exp = g.element(0)
        unrep, klass, offs = list(g.unrep), 'mixed', g.offsets
        if srcver == '1.1' and ver == '1.0':
            srcver = '1.0'
    else:
        events, exp, unrep, klass, ln = focus_tree(r, enc, ver, context, SOURCE_ITEMS_11 if srcver == '1.1' else SOURCE_ITEMS_10)
        offs = set([ln % 512])
        # C0 controls from a 1.1 source into 1.0 output (already in unrep through is_xml_char(ver)); a comment with controls is no 1.1 source
        if context in ('comment', 'pi') and any(is_restricted(c) for n in exp[3] if n[0] in 'cp' for c in n[-1]):
            res.count('skipped_not_a_source')
            return
    unrep = unrepresentable(exp, enc, ver)
    cdata_names = ['e'] if context == 'cdata' else sorted(set(n for n in NAMES if encodable(n, ENCODINGS[enc]) and r.random() < 0.3)) if klass == 'mixed' else []
    xml = '<?xml version="%s" encoding="UTF-8"?>%s' % (srcver, to_source(exp))
    if srcver == '1.0':
        try:
            refxml.parse(xml)
        except refxml.ParseError as e:
            res.inconclusive.append('harness-exception: generated source not well-formed: %s' % e)
            return
    xsl = ('<xsl:stylesheet version="1.0" xmlns:xsl="http://www.w3.org/1999/XSL/Transform"><xsl:output method="xml" indent="no" encoding="%s" version="%s"%s/>'
           '<xsl:template match="/"><xsl:copy-of select="*"/></xsl:template></xsl:stylesheet>' % (enc, ver, ' cdata-section-elements="%s"' % ' '.join(cdata_names) if cdata_names else ''))
    rx = runner.transform(xsl, xml.encode('utf-8'))
    payload = {'stylesheet': xsl, 'document': xml, 'encoding': enc, 'version': ver, 'focus': klass}
    res.sigs = set([('xslt', enc, ver, srcver, bool(unrep), klass)] + [('off', o) for o in offs])
    res.sample = {'encoding': enc, 'version': ver, 'focus': klass, 'cdata-section-elements': cdata_names}
    res.count('transformations')
    rp = {'status': b'0' if rx.status == 0 else b'1', 'out': rx.out, 'exception': rx.err.encode('utf-8')}
    j = judge(rp, exp, enc, ver, unrep)
    if j:
        res.viol('transform|%s|%s|%s|%s' % (j[0].split('|')[0], reduce_class(klass, enc), enc_class(enc), ver),
                 'xsl:output encoding=%s version=%s cdata-section-elements=%s, %s: %s' % (enc, ver, cdata_names, klass, j[1]), payload)
    else:
        res.count('transform_round_trips' if not unrep else 'transform_refused_as_required')


def main():
    chk = Check('C04')
    chk.rule = ('generated result trees (names incl. non-ASCII, attributes, text, CDATA-section content, comments, PIs) whose strings mix filler runs of 1-4 byte characters '
                'with lengths swept around 512 / 1024 / 2048 units and markup characters, tab, CR, LF, CR LF, ]]>, NEL, LS, Latin-1, BMP, supplementary and boundary code '
                'points; 17 encodings x XML 1.0 / 1.1 x both serializers; 20% of the trees contain something unrepresentable (forbidden code point, unpaired surrogate, '
                'name / comment / PI the encoding cannot hold) and must be refused. A case is one tree replayed into both serializers, or one transformation; '
                'distinct = distinct (encoding, version, representable, node kinds) plus distinct filler lengths mod 512.')
    chk.assumptions = ['expat (through refxml) is the independent parser; XML 1.1 specifics (NEL/LS line ends, references to C0 controls, restricted characters) are emulated in the harness before expat sees the text',
                       'python codecs decode the output encodings', 'comments never contain -- and PIs never contain ?> (XSLT-level errors, not serializer matters)']
    chk.ensure('plain', 'xvdrv')
    n = 50000 if chk.tier == 'quick' else 3000000
    chk.run_cases('c04', 'case', range(n))
    chk.run_cases('c04', 'xslt_case', range(n // 2))
    chk.finish(min_nontrivial=200, required_stats=('round_trips', 'refused_as_required', 'transform_round_trips', 'serializers_agree_on_tree'))


if __name__ == '__main__':
    main()
