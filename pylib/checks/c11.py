"""C11 — an expression has one value, whichever way the caller asks for it.
Oracle: the library against itself: every typed XPath::execute overload (bool, double, string,
character events, node list) against the general XObject result converted with the standard
conversions.  (Whether the general value is right is C02's matter.)"""
import os, sys
sys.path.insert(0, os.path.join(os.path.dirname(os.path.abspath(__file__)), '..'))
from framework import Check, rng_for
from xvdriver import DriverDied
import refxml, refxpath as X, gen_xml, gen_xpath, xpcommon as C
import c02

NS = gen_xml.expr_namespaces()
TOPS = ['or', 'and', '=', '!=', '<', '<=', '>', '>=', '+', '-', '*', 'div', 'mod', 'neg', 'union', 'lit', 'num', 'var', 'group', 'path', 'filter', 'func']
CORE_FUNCS = ['last', 'position', 'count', 'id', 'local-name', 'namespace-uri', 'name', 'string', 'concat', 'starts-with', 'contains',
              'substring-before', 'substring-after', 'substring', 'string-length', 'normalize-space', 'translate', 'boolean', 'not',
              'true', 'false', 'lang', 'number', 'sum', 'floor', 'ceiling', 'round']


def forced_top(g, r, top):
    """an expression whose top-level node is the op code `top`, operands of random types"""
    def any_():
        return g.expr(r.choice(['ns', 'num', 'str', 'bool']), 2)
    if top in ('or', 'and', '=', '!=', '<', '<=', '>', '>=', '+', '-', '*', 'div', 'mod'):
        return '%s %s %s' % (wrap(any_()), top, wrap(any_()))
    if top == 'neg':
        return '-' + wrap(any_())
    if top == 'union':
        return g.e_ns(2) + ' | ' + g.e_ns(2)
    if top == 'lit':
        return r.choice(gen_xpath.STR_LITS)
    if top == 'num':
        return r.choice(gen_xpath.NUM_LITS)
    if top == 'var':
        return '$' + r.choice(list(c02.VTYPES))
    if top == 'group':
        return '(' + any_() + ')'
    if top == 'path':
        return r.choice(['', '/', '//']) + g.relpath(1)
    if top == 'filter':
        return '(' + g.e_ns(2) + ')[' + g.predicate(1) + ']'
    fn = r.choice(CORE_FUNCS)
    lo, hi = X.ARITY[fn]
    n = lo if hi is None or r.random() < 0.6 else r.randint(lo, hi)
    if hi is None:
        n = r.choice([2, 3])
    args = []
    for i in range(n):
        if fn in ('count', 'sum') or (fn in ('local-name', 'namespace-uri', 'name') and i == 0):
            args.append(g.e_ns(2))
        elif fn in ('floor', 'ceiling', 'round') or (fn == 'substring' and i > 0):
            args.append(g.e_num(2))
        elif fn in ('id', 'string', 'boolean', 'not', 'number', 'concat'):
            args.append(any_())
        else:
            args.append(g.e_str(2))
    return '%s(%s)' % (fn, ', '.join(args))


def wrap(s):
    return '(' + s + ')'


def case(ctx, idx, res):
    r = rng_for(ctx.seed, 'c11', idx)
    drv = ctx.drv('plain')
    # a third of the documents are whitespace-heavy and evaluated as under xsl:strip-space (all elements, or some): stripped
    # text nodes must be absent through every entry point alike
    strip = r.choice([0, 0, 1, 2])
    xml, info = gen_xml.gen_doc(r, size=r.choice([8, 15, 25, 40]), ns=r.random() < 0.6, ws_heavy=strip != 0)
    doc = refxml.parse(xml)
    nodes = c02.all_nodes(doc)
    use_xerces = r.random() < 0.25
    if use_xerces and xml.startswith('<!DOCTYPE') and 'xerces-doctype' in ctx.findings_avoid:
        xml = xml[xml.index(']>') + 2:]
        doc = refxml.parse(xml)
        nodes = c02.all_nodes(doc)
    h = drv.call(cmd='xdoc', xml=xml, xerces=1 if use_xerces else 0)['doc'].decode()
    variables = c02.make_vars(r, nodes)
    sigs = set()
    res.evals = 0
    try:
        for j in range(50):
            g = gen_xpath.Gen(r, info, c02.VTYPES, max_depth=3)
            top = TOPS[(idx * 50 + j) % len(TOPS)]
            expr = forced_top(g, r, top)
            try:
                ast = X.parse(expr)
                if X.static_errors(ast, xslt=False, namespaces=NS):
                    continue
            except X.XPathSyntaxError:
                continue
            cnode = r.choice(nodes)
            ctxlist = [cnode]
            if r.random() < 0.3 and cnode.parent is not None and cnode.kind not in (refxml.ATTR, refxml.NS):
                ctxlist = X.sort_unique([s for s in cnode.parent.children if r.random() < 0.7 or s is cnode])
            # the string entry appends to the caller's buffer (AVT parts share one): give it a non-empty one
            rep = C.call_xpath(drv, h, expr, cnode.path(), [n.path() for n in ctxlist], NS, variables, 'all', strprefix='PRE|', strip=strip)
            if strip:
                res.count('evaluated_with_stripping')
            if 'str' in rep:
                if not rep['str'].startswith('PRE|'):
                    res.viol('entry-str-overwrites-buffer|%s' % (ast[0] if ast[0] != 'func' else 'func:' + ast[1]), 'the string entry point overwrote the caller\'s buffer instead of appending for %s (got %r)' % (expr, rep['str'][:60]), {'expression': expr})
                else:
                    rep['str'] = rep['str'][4:]
            res.evals += 1
            if 'compile_error' in rep:
                res.count('rejected_at_compile')
                continue
            rtop = ast[0] if ast[0] != 'func' else 'func:' + ast[1]
            payload = {'expression': expr, 'context': cnode.path(), 'document': xml, 'xerces': use_xerces, 'strip': strip, 'reply': {k: v[:200] for k, v in rep.items()}}
            if 'generic_error' in rep:
                # every entry must fail too
                for e in ('bool', 'num', 'str', 'chars'):
                    if e in rep:
                        res.viol('entry-succeeds-where-generic-fails|%s|%s' % (e, rtop), 'entry %s returns %r for %s although general evaluation fails: %s'
                                 % (e, rep[e][:60], expr, rep['generic_error'][:120]), payload)
                res.count('generic_error')
                continue
            sigs.add((rtop, rep.get('type')))
            res.count('cell_%s_%s' % (rtop.split(':')[0], rep.get('type')))
            t = rep.get('type')
            checks = [('bool', 'g_bool'), ('num', 'g_num'), ('str', 'g_str'), ('chars', 'g_chars')]
            for e, gk in checks:
                if e + '_error' in rep:
                    res.viol('entry-fails|%s|%s' % (e, rtop), 'entry %s fails for %s (general value: %s %r): %s' % (e, expr, t, rep.get('g_str', '')[:60], rep[e + '_error'][:120]), payload)
                    continue
                got, exp = rep.get(e), rep.get(gk)
                same = got == exp
                if e == 'num' and not same:
                    a, b = C.from_hex(got), C.from_hex(exp)
                    same = (a != a and b != b)
                if not same:
                    res.viol('entry-differs|%s|%s|%s' % (e, rtop, t), 'entry %s gives %r but the general %s value converts to %r for %s [context %s]'
                             % (e, show(e, got), t, show(e, exp), expr, cnode.path()), payload)
            # consistency of the general object's own conversions
            if rep.get('g_str') != rep.get('g_chars') or rep.get('g_str') != rep.get('g_str_append'):
                res.viol('xobject-str-variants|%s' % t, 'XObject::str() variants differ for %s: %r / %r / %r' % (expr, rep.get('g_str'), rep.get('g_chars'), rep.get('g_str_append')), payload)
            if rep.get('g_len') is not None and int(rep['g_len']) != len(rep.get('g_str', '').encode('utf-16-le', 'surrogatepass')) // 2:
                res.viol('xobject-stringLength|%s' % t, 'XObject::stringLength() = %s but str() has %d units for %s' % (rep['g_len'], len(rep['g_str']), expr), payload)
            if t == 'node-set':
                if 'nodelist_error' in rep:
                    res.viol('entry-fails|nodelist|%s' % rtop, 'node-list entry fails for node-set expression %s: %s' % (expr, rep['nodelist_error'][:120]), payload)
                elif rep.get('nodelist') != rep.get('nodes'):
                    res.viol('entry-differs|nodelist|%s' % rtop, 'node-list entry gives %s, general value %s for %s' % (rep.get('nodelist', '').split()[:10], rep.get('nodes', '').split()[:10], expr), payload)
            else:
                if 'nodelist' in rep:
                    res.viol('entry-succeeds|nodelist|%s' % rtop, 'node-list entry returns nodes for the %s expression %s' % (t, expr), payload)
    finally:
        try:
            drv.call(cmd='xdocdel', doc=h)
        except DriverDied:
            pass
    res.sigs = sigs
    res.sample = {'document': xml[:200], 'expression': expr, 'top': top}


def xslt_case(ctx, idx, res):
    """the consequence the property names: the same expression as xsl:if / xsl:when test, xsl:value-of select, attribute value template,
    variable, numeric argument of xsl:number and sort key, at one context, against boolean(E) / string(E) / number(E) evaluated in the same
    transformation.  One expression per transformation (a failing one only loses itself)."""
    import re
    import xsltcommon as XC
    import gen_xslt
    r = rng_for(ctx.seed, 'c11x', idx)
    runner = ctx.cache.get('runner')
    if runner is None:
        runner = ctx.cache['runner'] = XC.Runner(ctx, 'plain')
    xml, info = gen_xml.gen_doc(r, size=r.choice([8, 15, 25]), ns=r.random() < 0.5)
    sigs = set()
    res.evals = 0
    for j in range(12):
        g = gen_xpath.Gen(r, info, {'n1': 'num', 's1': 'str', 'b1': 'bool', 'ns1': 'ns'}, max_depth=3, xslt=True)
        top = TOPS[(idx * 12 + j) % len(TOPS)]
        expr = forced_top(g, r, top).replace('$n2', '$n1').replace('$s2', '$s1').replace('$ns2', '$ns1')
        try:
            if X.static_errors(X.parse(expr), xslt=True, namespaces=NS):
                continue
        except X.XPathSyntaxError:
            continue
        e = gen_xslt.aesc(expr)
        ea = e.replace('{', '{{').replace('}', '}}')
        k = r.randrange(1, 30)
        body = ('<b1><xsl:if test="%(e)s">T</xsl:if></b1><b2><xsl:choose><xsl:when test="%(e)s">T</xsl:when><xsl:otherwise/></xsl:choose></b2><b3><xsl:value-of select="boolean(%(e)s)"/></b3>'
                '<s1><xsl:value-of select="%(e)s"/></s1><s2 a="{%(ea)s}"/><s6 a="pre-{%(ea)s}|{%(ea)s}"/><s3><xsl:value-of select="string(%(e)s)"/></s3><s4><xsl:variable name="v" select="%(e)s"/><xsl:value-of select="$v"/></s4>'
                '<s5><xsl:variable name="w"><xsl:value-of select="%(e)s"/></xsl:variable><xsl:value-of select="$w"/></s5>'
                '<n1><xsl:number value="%(e)s" format="1"/></n1><n2><xsl:value-of select="round(number(%(e)s))"/></n2>'
                ) % {'e': e, 'ea': ea}
        xsl = (gen_xslt.HEAD % '') + ('<xsl:variable name="n1" select="2.5"/><xsl:variable name="s1" select="\'a b\'"/><xsl:variable name="b1" select="true()"/><xsl:variable name="ns1" select="//*[position() mod 3 = 1]"/>'
                                      '<xsl:variable name="three" select="(//*)[position() &lt; 6]"/>'
                                      '<xsl:template match="/"><out><xsl:for-each select="(//node()|//@*)[%d]">%s</xsl:for-each>'
                                      '<ks><xsl:for-each select="$three"><xsl:sort select="%s" data-type="number"/><i id="{generate-id()}"/></xsl:for-each></ks>'
                                      '<kp><xsl:for-each select="$three"><j id="{generate-id()}" n="{number(%s)}"/></xsl:for-each></kp></out></xsl:template></xsl:stylesheet>' % (k, body, e, ea))
        rx = runner.transform(xsl, xml)
        res.evals += 1
        if rx.status != 0:
            res.count('xslt_expression_errors')
            continue
        try:
            t = refxml.parse(XC._DECL.sub('', rx.out.decode('utf-8')))
        except (refxml.ParseError, UnicodeDecodeError):
            res.count('xslt_unparsable')
            continue
        out = [c for c in t.children if c.kind == refxml.ELEM][0]
        v = {}
        for c in out.children:
            if c.kind == refxml.ELEM:
                v[c.local] = c.string_value() if c.local not in ('s2', 's6') else dict((a.local, a.value) for a in c.attrs).get('a', '')
        # the sort key: the order of a numeric sort must be the one number(E) gives for each node (NaN first, stable)
        ks = [dict((a.local, a.value) for a in c.attrs)['id'] for o in out.children if o.kind == refxml.ELEM and o.local == 'ks' for c in o.children if c.kind == refxml.ELEM]
        kp = [dict((a.local, a.value) for a in c.attrs) for o in out.children if o.kind == refxml.ELEM and o.local == 'kp' for c in o.children if c.kind == refxml.ELEM]
        if ks and len(ks) == len(kp):
            def keyf(t):
                x = float('nan') if t == 'NaN' else float('inf') if t == 'Infinity' else float('-inf') if t == '-Infinity' else float(t)
                return (0, 0.0) if x != x else (1, x)
            want = [d['id'] for d in sorted(kp, key=lambda d: keyf(d['n']))]
            if want != ks:
                res.viol('xslt|number|sort-key|%s' % top, 'as a numeric sort key the expression %s orders the nodes %s, number() of it gives %s' % (expr[:150], ks, [(d['id'], d['n']) for d in kp]),
                         {'stylesheet': xsl, 'document': xml, 'expression': expr})
            res.count('xslt_sort_keys_compared')
        v.pop('ks', None)
        v.pop('kp', None)
        if not v:
            continue                    # no such context node
        payload = {'stylesheet': xsl, 'document': xml, 'expression': expr}
        want_b = 'T' if v.get('b3') == 'true' else ''
        for site in ('b1', 'b2'):
            if v.get(site) != want_b:
                res.viol('xslt|boolean|%s|%s' % ('if' if site == 'b1' else 'when', top), 'xsl:%s test="%s" %s, boolean() of the same expression is %s' % ('if' if site == 'b1' else 'when', expr[:150], 'holds' if v.get(site) else 'does not hold', v.get('b3')), payload)
                break
        for site, name in (('s1', 'value-of'), ('s2', 'avt'), ('s4', 'variable'), ('s5', 'value-of-in-variable')):
            if v.get(site) != v.get('s3'):
                res.viol('xslt|string|%s|%s' % (name, top), 'as %s the expression %s gives %r, string() of it %r' % (name, expr[:150], (v.get(site) or '')[:80], (v.get('s3') or '')[:80]), payload)
                break
        if v.get('s6') != 'pre-%s|%s' % (v.get('s3'), v.get('s3')):
            res.viol('xslt|string|avt-after-text|%s' % top, 'the attribute value template "pre-{E}|{E}" with E = %s gives %r, string(E) is %r' % (expr[:150], (v.get('s6') or '')[:80], (v.get('s3') or '')[:60]), payload)
        if re.match(r'^[1-9][0-9]{0,14}$', v.get('n2', '')) and v.get('n1') != v.get('n2'):
            res.viol('xslt|number|number-value|%s' % top, 'xsl:number value="%s" gives %r, round(number()) of it is %s' % (expr[:150], v.get('n1'), v.get('n2')), payload)
        res.count('xslt_expressions_compared')
        sigs.add(('xslt', top))
    res.sigs = sigs
    res.sample = {'kind': 'xslt'}


def show(e, v):
    if e == 'num' and v:
        return C.from_hex(v)
    return (v or '')[:80]


def main():
    chk = Check('C11')
    chk.rule = ('expressions with every op code forced at the top level in turn (or and = != < <= > >= + - * div mod neg union literal number '
                'variable group path filter + every core function) with operands of every type, evaluated through the six XPath::execute '
                'entry points on generated documents/contexts. A case is one (expression, context); non-trivial = evaluates without '
                'error; distinct = distinct (top op code or function, result type) cell.')
    chk.assumptions = ['the general XObjectPtr result with XObject::boolean/num/str is the reference', 'node-list entry is defined only for node-set expressions']
    chk.ensure('plain', 'xvdrv')
    n = 1500 if chk.tier == 'quick' else 150000
    chk.run_cases('c11', 'case', range(n))
    chk.run_cases('c11', 'xslt_case', range(n if chk.tier == 'quick' else n // 15))
    cells = [k for k in chk.stats if k.startswith('cell_')]
    chk.extra['cells_observed'] = len(cells)
    chk.finish(min_nontrivial=40, required_stats=('xslt_expressions_compared', 'xslt_sort_keys_compared'))


if __name__ == '__main__':
    main()
