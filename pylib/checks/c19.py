"""C19 — pluggable memory manager: balanced use, and allocation failure is survivable.
Level: fault_enumeration.  drivers/xvoom.cpp runs each scenario once with a counting manager
(balance, foreign/double frees) and then refuses EVERY allocation index k = 1..n in turn
(exhaustive per scenario), observing process exit, reclaimability and a recovery transformation."""
import os, re, subprocess, sys
sys.path.insert(0, os.path.join(os.path.dirname(os.path.abspath(__file__)), '..'))
from framework import Check
from xvdriver import exe_path, sanitizer_env, VERIF

OOM = os.path.join(VERIF, 'corpus', 'oom')

# (steps, stylesheet, document)
QUICK = [
    ('ctor', 's1.xsl', 's1.xml'),
    ('compile', 's1.xsl', 's1.xml'),
    ('parse', 's1.xsl', 's1.xml'),
    ('parsex', 's1.xsl', 's1.xml'),
    ('stream', 's1.xsl', 's1.xml'),
    ('prebuilt', 's1.xsl', 's1.xml'),
    ('prebuiltx', 'params.xsl', 's1.xml'),
    ('callback', 'html.xsl', 's1.xml'),
    ('dom', 'params.xsl', 's1.xml'),
    ('builder', 'params.xsl', 's1.xml'),
    ('params', 'params.xsl', 's1.xml'),
    ('terminate', 'term.xsl', 's1.xml'),
    ('badxml', 'params.xsl', 'bad.xml'),
    ('baddoc', 'baddoc.xsl', 's1.xml'),
    ('stream', 'text.xsl', 's1.xml'),
    ('file', 's1.xsl', 's1.xml'),
    ('compile+parse+stream+terminate+stream', 'term.xsl', 's1.xml'),
    ('badxml+stream+ctor', 'params.xsl', 'bad.xml'),
    # no output method and an html root: the XML formatter is replaced by an HTML one on the same stream (the encoding is set a second time)
    ('stream', 'autohtml.xsl', 's1.xml'),
    ('callback+stream', 'autohtml.xsl', 's1.xml'),
    # a transcoder, CDATA sections, DOCTYPE, indenting; UTF-16; extension namespaces with two prefixes for one URI; every lazily built facility
    ('stream', 'enc.xsl', 's1.xml'),
    ('file', 'utf16.xsl', 's1.xml'),
    ('compile+stream', 'ext.xsl', 's1.xml'),
    ('prebuilt', 'lazy.xsl', 's1.xml'),
    # result tree fragments turned into node-sets: key tables, counters and sorts whose document is a fragment owned by the execution context
    ('stream', 'rtf.xsl', 's1.xml'),
    ('prebuilt+stream', 'rtf.xsl', 's1.xml'),
]


def scenarios(tier, seed):
    out = []
    for (st, xsl, xml) in QUICK:
        out.append((st, xsl, xml, 'bad_alloc', 'plain'))
    for (st, xsl, xml) in QUICK[4:8]:
        out.append((st, xsl, xml, 'oom', 'plain'))
    if tier == 'thorough':
        for (st, xsl, xml) in QUICK:
            out.append((st, xsl, xml, 'oom', 'plain'))
            out.append((st, xsl, xml, 'bad_alloc', 'asan'))
        import random
        r = random.Random(seed)
        steps = ['ctor', 'compile', 'parse', 'parsex', 'stream', 'prebuilt', 'prebuiltx', 'callback', 'dom', 'builder', 'params', 'file']
        sheets = ['s1.xsl', 'params.xsl', 'html.xsl', 'text.xsl', 'autohtml.xsl', 'enc.xsl', 'utf16.xsl', 'ext.xsl', 'lazy.xsl', 'rtf.xsl']
        for i in range(150):
            seq = '+'.join(r.choice(steps) for _ in range(r.randrange(2, 6)))
            out.append((seq, r.choice(sheets), 's1.xml', r.choice(('bad_alloc', 'oom')), 'plain'))
    return out


CONTAINER_FRAME = re.compile(r'^(XalanVector|XalanDeque|XalanList|XalanMap|XalanSet|XalanArrayAllocator|ArenaAllocator|ReusableArenaAllocator|ArenaBlock|ReusableArenaBlock|XalanAllocator|XalanMemMgrAutoPtr|XalanMemMgrs|operator new)\b|XalanConstruct|XalanAllocationGuard')


def case(ctx, idx, res):
    sc = scenarios(ctx.tier, ctx.seed)[idx]
    steps, xsl, xml, exc, flavour = sc
    env = sanitizer_env(flavour)
    cmd = [exe_path(flavour, 'xvoom'), steps, xsl, xml, exc]
    try:
        p = subprocess.run(cmd, env=env, cwd=OOM, stdout=subprocess.PIPE, stderr=subprocess.PIPE, timeout=7200)
    except subprocess.TimeoutExpired:
        res.inconclusive.append('timeout')
        return
    out = p.stdout.decode('utf-8', 'replace')
    name = '%s[%s,%s,%s,%s]' % (steps, xsl, xml, exc, flavour)
    payload = {'cmd': 'cd corpus/oom && ' + ' '.join(cmd), 'scenario': name}
    m = re.search(r'COUNT allocs=(\d+) live=(\d+) foreign=(\d+) double=(\d+) status=(\d+)', out)
    s = re.search(r'SUMMARY injected=(\d+) exception=(\d+) status=(\d+) completed=(\d+) deaths=(\d+) recovery_fail=(\d+)', out)
    if not m or not s:
        res.inconclusive.append('harness-exception: xvoom gave no COUNT/SUMMARY for %s rc=%s: %s' % (name, p.returncode, (out + p.stderr.decode('utf-8', 'replace'))[-800:]))
        return
    allocs, live, foreign, dbl, status = [int(x) for x in m.groups()]
    # ---- balance on the run without injected failure
    if live:
        sizes = re.search(r'LIVE-SIZES(.*)', out)
        res.viol('balance|leak|%s' % steps, '%d blocks from the supplied manager outstanding after the transformer was destroyed (no failure injected) in %s; sizes%s'
                 % (live, name, sizes.group(1) if sizes else ''), dict(payload, live=live))
    if foreign or dbl:
        res.viol('balance|badfree|%s' % steps, 'foreign=%d double=%d frees without injected failure in %s' % (foreign, dbl, name), payload)
    # ---- containment for every k
    for d in re.finditer(r'DEATH k=(\d+) kind=(\S+) site=(.*)', out):
        k, kind, site = d.groups()
        if site.startswith('list-head:'):
            key = 'death|%s|list-head' % kind
        else:
            # the call site is the first frame that is not the inside of a container or an allocator (how many of those frames there are
            # depends on inlining, i.e. on the build flavour), followed by its caller
            frames = [f.strip() for f in site.split(';') if f.strip()]
            while len(frames) > 1 and CONTAINER_FRAME.search(frames[0]):
                frames.pop(0)
            key = 'death|%s|%s' % (kind, ';'.join(frames[:2]))
        res.viol(key, 'refusing allocation %s of %s ends the process (%s); refused allocation at %s' % (k, name, kind, site), dict(payload, k=int(k), replay_cmd=' '.join(cmd + [k, k])))
    for d in re.finditer(r'BADFREE kind=(\S+) at=(\S*)', out):
        res.viol('badfree|%s|%s' % (d.group(1), ';'.join(d.group(2).split(';')[:2])), '%s free after an injected failure in %s at %s' % (d.group(1), name, d.group(2)), payload)
    for d in re.finditer(r'RECOVERY-FAIL k=(\d+) what=(.*)', out):
        res.viol('recovery|%s' % steps, 'a new transformer does not work after refusing allocation %s of %s: %s' % (d.group(1), name, d.group(2)[:200]), dict(payload, k=int(d.group(1))))
    inj, nexc, nstat, ncomp, deaths, recf = [int(x) for x in s.groups()]
    res.evals = inj + 1
    res.sigs = set((name, k) for k in range(1, inj + 1))
    res.count('injected_failures', inj)
    res.count('surfaced_as_exception', nexc)
    res.count('surfaced_as_status', nstat)
    res.count('completed_despite_failure', ncomp)
    res.count('process_deaths', deaths)
    res.count('scenarios', 1)
    res.count('allocations_counted', allocs)
    res.sample = {'scenario': name, 'allocations': allocs, 'injected': inj, 'exception': nexc, 'status': nstat, 'completed': ncomp, 'deaths': deaths}


def main():
    chk = Check('C19', level='fault_enumeration')
    chk.rule = ('scenario = sequence of API steps on one FailMM manager (construct, compile, parse native/Xerces, transform via stream/file/'
                'prebuilt/callback/DOM target/document builder, params, xsl:message terminate, malformed source, missing document()); for each '
                'scenario a counting run (balance) and then EVERY allocation index k=1..n refused in turn (exhaustive per scenario), throwing '
                'std::bad_alloc or xercesc::OutOfMemoryException. A case is one (scenario, k); all are non-trivial; distinct = distinct pair.')
    chk.assumptions = ['outstanding blocks after an injected failure are allowed (documented recovery model) as long as the manager can reclaim them',
                       'only the k-th allocation is refused; later allocations succeed',
                       'death attribution uses the last BEGIN/REFUSE record written by the forked child']
    chk.extra['exhaustive'] = True
    chk.ensure('plain', 'xvoom')
    if chk.tier == 'thorough':
        chk.ensure('asan', 'xvoom')
    n = len(scenarios(chk.tier, chk.seed))
    chk.run_cases('c19', 'case', range(n), chunksize=1)
    chk.finish(min_nontrivial=1000, required_stats=('injected_failures', 'surfaced_as_exception'))


if __name__ == '__main__':
    main()
