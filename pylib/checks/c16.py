"""C16 — xsl:sort yields a stable permutation ordered by its keys.
Oracle: an invariant checker over the sequence the library emits (node id, key strings, position(),
last()): permutation of the selection, lexicographic order by the key list (numeric keys compared
exactly with NaN first; text keys only over alphabets whose collation is unambiguous), stability
(equal keys keep document order), position()/last() reflect the sorted order.  Also nested sorts
(the execution context shares one NodeSorter) and the reference interpreter as a second opinion."""
import math, os, re, sys
sys.path.insert(0, os.path.join(os.path.dirname(os.path.abspath(__file__)), '..'))
from framework import Check, rng_for
import refxml, refxpath as X, refxslt, refnum, gen_xslt, xsltcommon as XC

HEAD = gen_xslt.HEAD
NUMVALS = ['1', '2', '10', '3', '3', '2', '-1', '0', '-0', '0.5', '1e400', 'NaN', '', 'abc', ' 7 ', '135792468', '135792468', '1000000', '2.50', '-Infinity', '007', '1e3']
TXTVALS = ['a', 'b', 'ab', 'abc', 'b', 'a', 'ba', 'c', '', 'aa', 'x', 'abd', '1', '2', '10', '01']
CASEVALS = ['a', 'A', 'b', 'B', 'ab', 'AB', 'a', 'B', '', 'c', 'C', 'aa', 'AA', 'b1', 'B1']      # one case per string: the order of mixed-case strings is a collation detail
LANGS = ['en', 'fr', 'de', 'en-US', 'it', 'nl']


def gen_doc(r, n):
    items = []
    for i in range(n):
        items.append('<i id="n%d" a="%s" b="%s" c="%s" d="%s" e="%s">%s</i>' % (i, r.choice(NUMVALS), r.choice(TXTVALS), r.choice(NUMVALS[:8]), r.choice(TXTVALS[:6]), r.choice(CASEVALS), r.choice(NUMVALS + TXTVALS)))
    groups = ''.join('<g id="g%d">%s</g>' % (j, ''.join(r.sample(items, min(len(items), r.choice([0, 1, 2, 5])))).replace(' id="n', ' id="g%dm' % j)) for j in range(3)) if n else ''
    return '<doc>%s%s</doc>' % (''.join(items), groups)


KEYS = [('@a', 'number'), ('@c', 'number'), ('@b', 'text'), ('@d', 'text'), ('.', 'number'), ('string-length(@b)', 'number'), ('count(preceding-sibling::*) mod 3', 'number'),
        ('@a + @c', 'number'), ('substring(@b, 1, 1)', 'text'), ('-@c', 'number')]


def gen_sorts(r):
    """[(select, data-type, order, extra attributes)]; a text key may name a language (the collator of that language is used; for these
    alphabets every one of them orders like the code points) and a case order (then the key is @e, whose values differ in case)"""
    ks = []
    for _ in range(r.choice([1, 1, 2, 2, 3, 4])):
        sel, dt = r.choice(KEYS)
        order = r.choice(['ascending', 'ascending', 'descending'])
        extra = ''
        if dt == 'text':
            k = r.random()
            if k < 0.25:
                # values that differ in case: always with a language (without one the collation is the environment's)
                sel = '@e'
                extra = ' lang="%s"' % r.choice(LANGS)
                if r.random() < 0.7:
                    extra += ' case-order="%s"' % r.choice(['upper-first', 'lower-first'])
            elif k < 0.5:
                extra = ' lang="%s"' % r.choice(LANGS + ['{substring(\'enfrde\', 1 + 2 * (count(//i) mod 3), 2)}'])
                if r.random() < 0.3:
                    extra += ' case-order="%s"' % r.choice(['upper-first', 'lower-first'])
        ks.append((sel, dt, order, extra))
    return ks


def sort_xml(ks):
    return ''.join('<xsl:sort select="%s" data-type="%s" order="%s"%s/>' % (gen_xslt.aesc(s), d, o, x) for s, d, o, x in ks)


def emit(ks):
    keyattrs = ''.join(' k%d="{%s}"' % (i, s) for i, (s, d, o, x) in enumerate(ks))
    return '<r id="{@id}" p="{position()}" l="{last()}"%s/>' % keyattrs


def case(ctx, idx, res):
    r = rng_for(ctx.seed, 'c16', idx)
    runner = ctx.cache.get('runner')
    if runner is None:
        runner = ctx.cache['runner'] = XC.Runner(ctx, 'plain')
    n = r.choice([0, 1, 2, 3, 5, 8, 13, 30, 80] + ([300] if ctx.tier == 'thorough' else []))
    xml = gen_doc(r, n)
    ks = gen_sorts(r)
    ks2 = gen_sorts(r)
    via = r.choice(['for-each', 'apply-templates'])
    sel = r.choice(['/doc/i', '/doc/i', '/doc/i[@a != \'NaN\']', '/doc/g/i', '/doc/i | /doc/g/i', '/doc/i[position() mod 2 = 1]'])
    nested = r.random() < 0.4
    inner = ''
    if nested:
        # a second sort inside the body of the first (same NodeSorter), over a list of (often) the same length
        inner = '<xsl:for-each select="%s">%s<s id="{@id}" p="{position()}"%s/></xsl:for-each>' % (
            r.choice(['/doc/i', '../i', '/doc/g[1]/i', '/doc/i[position() &lt; 4]']), sort_xml(ks2), ''.join(' k%d="{%s}"' % (i, s) for i, (s, d, o, x) in enumerate(ks2)))
    body = '<r id="{@id}" p="{position()}" l="{last()}"%s>%s</r>' % (''.join(' k%d="{%s}"' % (i, s) for i, (s, d, o, x) in enumerate(ks)), inner)
    if via == 'for-each':
        main = '<xsl:for-each select="%s">%s%s</xsl:for-each>' % (sel, sort_xml(ks), body)
        tpl = ''
    else:
        main = '<xsl:apply-templates select="%s" mode="s">%s</xsl:apply-templates>' % (sel, sort_xml(ks))
        tpl = '<xsl:template match="i" mode="s">%s</xsl:template>' % body
    xsl = (HEAD % '') + '<xsl:template match="/"><out><sel><xsl:for-each select="%s"><x id="{@id}"/></xsl:for-each></sel><sorted>%s</sorted></out></xsl:template>%s</xsl:stylesheet>' % (sel, main, tpl)
    rx = runner.transform(xsl, xml)
    payload = {'stylesheet': xsl, 'document': xml}
    res.count('sorts')
    if any('lang=' in k[3] for k in ks + (ks2 if nested else [])):
        res.count('sorts_with_lang')
    if any('case-order=' in k[3] for k in ks + (ks2 if nested else [])):
        res.count('sorts_with_case_order')
    res.count('sorted_nodes', n)
    res.sig = (tuple(ks), via, nested, min(n, 10))
    res.sample = {'keys': ks, 'via': via, 'nodes': n, 'nested': nested}
    if rx.status != 0:
        res.viol('fails', 'sort stylesheet fails: %s' % rx.err[:200], payload)
        return
    try:
        tree = refxml.parse(XC._DECL.sub('', rx.out.decode('utf-8')))
    except (refxml.ParseError, UnicodeDecodeError) as e:
        res.viol('not-well-formed', str(e), payload)
        return
    out = [c for c in tree.children if c.kind == refxml.ELEM][0]
    selx, sortedx = [c for c in out.children if c.kind == refxml.ELEM]
    selection = [dict((a.local, a.value) for a in x.attrs)['id'] for x in selx.children if x.kind == refxml.ELEM]
    rows = [(dict((a.local, a.value) for a in x.attrs), x) for x in sortedx.children if x.kind == refxml.ELEM]
    bad = check_sequence(selection, [rw[0] for rw in rows], ks)
    if bad:
        res.viol('sort|%s|%s' % (bad[0], via), '%s [keys %s via %s over %d nodes]' % (bad[1], ks, via, len(selection)), payload)
        return
    if nested:
        for at, x in rows:
            inner_rows = [dict((a.local, a.value) for a in s.attrs) for s in x.children if s.kind == refxml.ELEM]
            ids = [rw['id'] for rw in inner_rows]
            # document order of the inner selection = order of ids by their numeric suffix inside one parent; use a stable key
            bad = check_sequence(None, inner_rows, ks2, inner=True)
            if bad:
                res.viol('sort|nested-%s|%s' % (bad[0], via), 'nested sort: %s [inner keys %s, outer keys %s]' % (bad[1], ks2, ks), payload)
                return
        res.count('nested_sorts', len(rows))
    # second opinion
    try:
        refout, p = refxslt.transform(xsl, xml)
        if XC.ref_tree(refout) != XC.output_tree(rx.out):
            d = refxml.first_diff(('root', XC.output_tree(rx.out)), ('root', XC.ref_tree(refout)))
            res.viol('sort-vs-reference|%s' % via, 'sorted output differs from the reference interpreter: %s [keys %s]' % (d[:300], ks), payload)
            return
        res.count('agree_with_reference')
    except (refxslt.XsltError, X.XPathError, X.XPathSyntaxError):
        res.count('reference_error')


def keyval(s, dt, extra=''):
    if dt == 'number':
        x = refnum.number_of(s)
        return (0, 0.0) if x != x else (1, x)
    if 'lang=' in extra:
        m = re.search(r'case-order="([a-z\-]+)"', extra)
        return refxslt.text_sort_key(s, m.group(1) if m else 'lower-first')      # lower-case first is the default of the languages named
    return s


def doc_index(i):
    m = re.match(r'[nm](\d+)$', i)
    return int(m.group(1)) if m else 0


def check_sequence(selection, rows, ks, inner=False):
    ids = [rw['id'] for rw in rows]
    if selection is not None:
        if sorted(ids) != sorted(selection):
            return ('not-a-permutation', 'the processed sequence %s is not a permutation of the selection %s' % (ids[:12], selection[:12]))
    n = len(rows)
    for i, rw in enumerate(rows):
        if int(rw['p']) != i + 1:
            return ('position', 'position() is %s for the node processed at place %d' % (rw['p'], i + 1))
        if 'l' in rw and int(rw['l']) != n:
            return ('last', 'last() is %s, %d nodes are processed' % (rw['l'], n))
    order_of = dict((x, j) for j, x in enumerate(selection)) if selection is not None else None
    for i in range(n - 1):
        a, b = rows[i], rows[i + 1]
        c = 0
        for j, (sel, dt, order, extra) in enumerate(ks):
            x, y = keyval(a['k%d' % j], dt, extra), keyval(b['k%d' % j], dt, extra)
            if x != y:
                c = -1 if x < y else 1
                if order == 'descending':
                    c = -c
                break
        if c > 0:
            return ('order', 'adjacent nodes %s, %s are out of order: keys %s then %s' % (a['id'], b['id'], [a['k%d' % j] for j in range(len(ks))], [b['k%d' % j] for j in range(len(ks))]))
        if c == 0 and order_of is not None and order_of[a['id']] > order_of[b['id']]:
            return ('stability', 'nodes %s and %s compare equal on all keys but are not in document order' % (a['id'], b['id']))
    return None


def main():
    chk = Check('C16')
    chk.rule = ('node lists of 0-300 nodes with duplicate key values, NaN-producing strings, -0, 1e400, the cache sentinel 135792468, empty strings x 1-4 sort '
                'keys mixing order and data-type x for-each / apply-templates x nested sorts over lists of equal length. A case is one sort; '
                'non-trivial = all; distinct = distinct (key list, instruction, nested, size class).')
    chk.assumptions = ['text keys only over ASCII letters and digits, each string in one case (collation unambiguous: for lang en / fr / de / it / nl the letters order like the code points, digits first; case only breaks ties, as case-order says, lower case first by default); values that differ in case are only sorted with a language given, since without one the collation is that of the environment (the C / POSIX locale here: code points)', 'descending numeric sorts put NaN last (reverse of ascending)', 'key strings are read from the same run (AVT of the key expression)']
    chk.ensure('plain', 'xvdrv')
    n = 4000 if chk.tier == 'quick' else 30000
    chk.run_cases('c16', 'case', range(n))
    chk.finish(min_nontrivial=100, required_stats=('sorts', 'agree_with_reference', 'nested_sorts', 'sorts_with_lang', 'sorts_with_case_order'))


if __name__ == '__main__':
    main()
