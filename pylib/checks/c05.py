"""C05 — the result does not depend on how source, stylesheet and output are supplied.
Self-differential oracle: for one (stylesheet, document, parameters) the transformation is run through
a baseline (stream -> stream, C++ API) and through several other generated combinations of
  source form   : file, stream, parsed (native), parsed (Xerces DOM), wrapped Xerces DOM, wrapped
                  source tree, document builder (SAX)
  stylesheet    : stream, file, compiled, compiled earlier (handle), xml-stylesheet PI
  result target : stream, file, chunked callback, Xerces DOM, Xalan source tree
  layer         : C++ API, C API (file / data / handler, plain and prebuilt), command line program
All must agree on success / failure; byte targets must give identical bytes, tree targets the tree
the bytes parse to."""
import os, re, subprocess, sys
sys.path.insert(0, os.path.join(os.path.dirname(os.path.abspath(__file__)), '..'))
from framework import Check, rng_for
from xvdriver import DriverDied, BUILD
import refxml, gen_xml, gen_xslt, xsltcommon as XC

SRC_FORMS = ['file', 'stream', 'parsed', 'parsedx', 'xerceswrap', 'stwrap', 'builder', 'ps']
STY_FORMS = ['stream', 'file', 'compiled', 'cs', 'pi']
TGT_FORMS = ['stream', 'file', 'callback', 'dom', 'sourcetree']
CAPI_FORMS = ['tofile', 'todata', 'tohandler', 'tofile_prebuilt', 'todata_prebuilt', 'tohandler_prebuilt']
_DOCTYPE = re.compile(r'<!DOCTYPE[^\[>]*(\[[^\]]*\])?\s*>')


def dump_tree(dump):
    return refxml.canon(refxml.from_dump(dump))[1]


def bytes_tree(out):
    return XC.output_tree(out)


def case(ctx, idx, res):
    r = rng_for(ctx.seed, 'c05', idx)
    d = ctx.drv('plain')
    wd = os.path.join(ctx.workdir, 'c05')
    os.makedirs(wd, exist_ok=True)
    # the DOCTYPE node is visible as a child of the root in a Xerces DOM (listed finding): documents without a DTD while it is open
    xml, info = gen_xml.gen_doc(r, size=r.choice([6, 12, 25, 60]), astral=r.random() < 0.2, ids=False if 'xerces-doctype' in ctx.findings_avoid else r.random() < 0.5)
    xml_nodt = xml
    use_pi = r.random() < 0.3
    g = gen_xslt.SGen(r, info, avoid=ctx.findings_avoid, max_templates=r.choice([3, 6, 10]), body_depth=r.choice([2, 3]))
    xsl = g.stylesheet()
    method = 'xml'
    if r.random() < 0.25:
        # a failing stylesheet: all forms must fail alike
        kind = r.choice(['terminate', 'xpath', 'unknown-function', 'parse'])
        if kind == 'terminate':
            xsl = xsl.replace('</xsl:stylesheet>', '<xsl:template match="/" priority="99"><out><xsl:message terminate="yes">stop</xsl:message></out></xsl:template></xsl:stylesheet>')
        elif kind == 'xpath':
            xsl = xsl.replace('</xsl:stylesheet>', '<xsl:template match="/" priority="99"><out><xsl:value-of select="$undefined-variable-xyz"/></out></xsl:template></xsl:stylesheet>')
        elif kind == 'unknown-function':
            xsl = xsl.replace('</xsl:stylesheet>', '<xsl:template match="/" priority="99"><out><xsl:value-of select="no-such-function(1)"/></out></xsl:template></xsl:stylesheet>')
        else:
            xml = xml.replace('</', '<//', 1) if r.random() < 0.5 else xml + '<trailing/>'
            xml_nodt = xml
        res.count('failing_cases')
    elif r.random() < 0.2:
        method = r.choice(['html', 'text'])
        xsl = re.sub(r'<xsl:output[^>]*/>', '', xsl).replace('<xsl:template', '<xsl:output method="%s"/><xsl:template' % method, 1)
    params = []
    if '<xsl:param' in xsl and r.random() < 0.7:
        for name in set(re.findall(r'<xsl:param name="([^"]+)"', xsl)):
            params.append((name, r.choice(["'pv'", '42', "'a b'", '1 div 0'])))
    xmlpath, xslpath, outpath = [os.path.join(wd, n) for n in ('in.xml', 'sheet.xsl', 'out.bin')]
    open(xslpath, 'w', encoding='utf-8').write(xsl)
    if use_pi:
        # the same document, with the processing instruction, is the source in every form of this case
        xml = re.sub(r'^(<\?xml[^>]*\?>)?', lambda m: (m.group(1) or '') + '<?xml-stylesheet type="text/xsl" href="sheet.xsl"?>', xml, count=1)
    xml_pi = xml

    t = d.call(cmd='tnew')['t'].decode()
    handles = {}
    runs = []

    def setparams():
        d.call(cmd='param', t=t, kind='clear', name='', value='')
        for n, v in params:
            d.call(cmd='param', t=t, kind=r.choice(['expr', 'cexpr']), name=n, value=v)

    def run_cpp(src, sty, tgt):
        sx = xml
        open(xmlpath, 'w', encoding='utf-8').write(sx)
        f = dict(cmd='transform', t=t, src=src, sty=sty, tgt=tgt, xml=sx.encode('utf-8'), xsl=xsl.encode('utf-8'), xmlpath=xmlpath, xslpath=xslpath, outpath=outpath,
                 xmlsysid='file://' + xmlpath, xslsysid='file://' + xslpath)
        if sty == 'cs':
            c = d.call(cmd='compile', t=t, xsl=xsl.encode('utf-8'), sysid='file://' + xslpath)
            if c.get('status', b'0') != b'0' or 'cs' not in c:
                return {'status': c.get('status', b'-1'), 'out': b'', 'err': c.get('err', b''), 'phase': b'compile'}
            f['cs'] = c['cs'].decode()
            handles.setdefault('cs', []).append(f['cs'])
        if src == 'ps':
            p = d.call(cmd='parse', t=t, xml=sx.encode('utf-8'), sysid='file://' + xmlpath, xerces=r.choice(['0', '1']))
            if p.get('status', b'0') != b'0' or 'ps' not in p:
                return {'status': p.get('status', b'-1'), 'out': b'', 'err': p.get('err', b''), 'phase': b'parse'}
            f['ps'] = p['ps'].decode()
            handles.setdefault('ps', []).append(f['ps'])
        if os.path.exists(outpath):
            os.unlink(outpath)
        rp = d.call(**f)
        if 'src_error' in rp:       # the driver's own DOM parse refused the document: a failing source, like a parse error
            return {'status': b'-2', 'out': b'', 'err': rp['src_error'], 'phase': b'parse'}
        return rp

    try:
        setparams()
        base = run_cpp('stream', 'stream', 'stream')
        b_ok = base.get('status') == b'0'
        b_out = base.get('out', b'')
        res.count('baselines')
        res.count('baseline_ok' if b_ok else 'baseline_fails')
        b_tree = None
        is_document = False
        if b_ok and method == 'xml':
            try:
                b_tree = bytes_tree(b_out)
                # a DOM or source tree document holds one element and no text at the top level
                is_document = sum(1 for c in b_tree if c[0] == 'e') == 1 and not any(c[0] == 't' for c in b_tree)
            except (refxml.ParseError, UnicodeDecodeError):
                b_tree = None
        combos = []
        for _ in range(r.choice([3, 5, 8])):
            k = r.random()
            if k < 0.7:
                src, sty, tgt = r.choice(SRC_FORMS), r.choice(STY_FORMS if use_pi else STY_FORMS[:4]), r.choice(TGT_FORMS)
                if tgt == 'callback' and not ((src in ('file', 'stream') and sty in ('stream', 'file', 'pi')) or (src not in ('file', 'stream') and sty in ('cs', 'compiled'))):
                    sty = 'compiled' if src not in ('file', 'stream') else 'stream'
                if tgt in ('dom', 'sourcetree') and (method != 'xml' or (b_ok and not is_document)):
                    tgt = 'stream'
                combos.append(('cpp', src, sty, tgt))
            elif k < 0.9:
                combos.append(('capi', r.choice(CAPI_FORMS), r.choice(['0', '1']), None))
            else:
                combos.append(('cli', r.choice(['stdout', 'outfile']), None, None))
        for c in combos:
            label = '/'.join(str(x) for x in c if x is not None)
            payload = {'stylesheet': xsl, 'document': xml, 'params': params, 'form': label}
            if c[0] == 'cpp':
                rp = run_cpp(c[1], c[2], c[3])
                if 'error' in rp and 'unsupported' in rp['error'].decode():
                    continue
                ok = rp.get('status') == b'0'
                out = rp.get('out', b'')
                kind = 'tree' if c[3] in ('dom', 'sourcetree') else 'bytes'
            elif c[0] == 'capi':
                if params and any(v == '1 div 0' for n, v in params) and False:
                    continue
                open(xmlpath, 'w', encoding='utf-8').write(xml)
                pstr = ''.join('expr\0%s\0%s\0' % (n, v) for n, v in params)
                rp = d.call(cmd='capi', form=c[1], fromstream=c[2], xml=xml.encode('utf-8'), xsl=xsl.encode('utf-8'), xmlpath=xmlpath, xslpath=xslpath, outpath=outpath, params=pstr.encode('utf-8'))
                ok = rp.get('status') == b'0'
                out = rp.get('out', b'')
                kind = 'bytes'
            else:
                open(xmlpath, 'w', encoding='utf-8').write(xml)
                exe = os.path.join(BUILD, 'plain', 'src', 'xalanc', 'Xalan')
                args = [exe]
                for n, v in params:
                    args += ['-p', n, v]
                if c[1] == 'outfile':
                    if os.path.exists(outpath):
                        os.unlink(outpath)
                    args += ['-o', outpath]
                args += [xmlpath, xslpath]
                env = dict(os.environ, LD_LIBRARY_PATH=os.path.join(BUILD, 'plain', 'src', 'xalanc'))
                try:
                    pr = subprocess.run(args, capture_output=True, timeout=60, env=env)
                except subprocess.TimeoutExpired:
                    res.inconclusive.append('timeout')
                    continue
                ok = pr.returncode == 0
                out = pr.stdout if c[1] == 'stdout' else (open(outpath, 'rb').read() if os.path.exists(outpath) else b'')
                rp = {'err': pr.stderr[:300]}
                kind = 'bytes'
            res.count('forms_compared')
            res.count('form_' + (c[0] if c[0] != 'cpp' else 'src_' + c[1]))
            if c[0] == 'cpp':
                res.count('form_sty_' + c[2])
                res.count('form_tgt_' + c[3])
            runs.append(label)
            if ok != b_ok:
                res.viol('status|%s' % generalize(c), 'supplied as %s the transformation %s, the stream->stream baseline %s (%s)' % (
                    label, 'succeeds' if ok else 'fails: ' + str(rp.get('err', b''))[:150], 'succeeds' if b_ok else 'fails: ' + base.get('err', b'').decode('utf-8', 'replace')[:150], ''), payload)
                continue
            if not ok:
                res.count('both_fail')
                continue
            if kind == 'bytes':
                if out != b_out and method == 'xml' and b_tree is not None:
                    # the order of attributes and namespace declarations is not content (a Xerces DOM keeps them sorted): compare canonically
                    try:
                        same = bytes_tree(out) == b_tree
                    except (refxml.ParseError, UnicodeDecodeError):
                        same = False
                    if same:
                        res.count('identical_after_canonicalization')
                        continue
                if out != b_out and method != 'xml' and c[0] == 'cpp' and c[1] in ('parsedx', 'xerceswrap', 'ps') and sorted(out) == sorted(b_out):
                    res.count('same_bytes_other_attribute_order')
                    continue
                if out != b_out:
                    i = next((j for j in range(min(len(out), len(b_out))) if out[j] != b_out[j]), min(len(out), len(b_out)))
                    res.viol('bytes|%s' % generalize(c), 'supplied as %s the output differs from the baseline at byte %d: %r instead of %r' % (label, i, out[max(0, i - 20):i + 30], b_out[max(0, i - 20):i + 30]), payload)
                else:
                    res.count('identical_bytes')
            else:
                if b_tree is None:
                    continue
                try:
                    tr = dump_tree(out.decode('utf-8'))
                except Exception as e:
                    res.inconclusive.append('harness-exception: cannot read the tree dump: %s' % e)
                    continue
                if tr != b_tree:
                    dd = refxml.first_diff(('root', tr), ('root', b_tree))
                    res.viol('tree|%s' % generalize(c), 'collected as %s the result tree differs from the parsed baseline output: %s' % (label, dd[:300]), payload)
                else:
                    res.count('identical_trees')
    finally:
        for h in handles.get('cs', []):
            try:
                d.call(cmd='csdel', t=t, cs=h)
            except DriverDied:
                pass
        for h in handles.get('ps', []):
            try:
                d.call(cmd='psdel', t=t, ps=h)
            except DriverDied:
                pass
        try:
            d.call(cmd='tdel', t=t)
        except DriverDied:
            pass
    res.sigs = set(runs)
    res.sample = {'forms': runs[:4], 'method': method, 'params': params}


def doctype_probe(ctx, idx, res):
    """the listed finding of this property, looked at directly: the DOCTYPE node of a Xerces DOM is visible to XPath"""
    r = rng_for(ctx.seed, 'c05p', idx)
    d = ctx.drv('plain')
    xml = '<?xml version="1.0"?><!DOCTYPE doc [<!ATTLIST a id ID #IMPLIED>]>%s<doc><a id="x%d">t</a></doc>' % (r.choice(['', '<!--c-->', '<?p d?>']), idx)
    xsl = (gen_xslt.HEAD % '') + ('<xsl:template match="/"><out n="{count(/node())}" before="{count(/doc/preceding::node())}" id="{count(id(\'x%d\'))}">'
                                  '<xsl:for-each select="/node()"><k n="{name()}"/></xsl:for-each></out></xsl:template></xsl:stylesheet>' % idx)
    t = d.call(cmd='tnew')['t'].decode()
    try:
        base = d.call(cmd='transform', t=t, src='stream', sty='stream', tgt='stream', xml=xml.encode(), xsl=xsl.encode())
        for src in ('parsedx', 'xerceswrap'):
            rp = d.call(cmd='transform', t=t, src=src, sty='stream', tgt='stream', xml=xml.encode(), xsl=xsl.encode())
            res.count('doctype_probes')
            if rp.get('status') != base.get('status') or rp.get('out') != base.get('out'):
                res.viol('xerces-doctype|src=%s' % src, 'a document with a DOCTYPE supplied as %s gives %r, as a stream %r' % (src, rp.get('out', b'')[-120:], base.get('out', b'')[-120:]),
                         {'stylesheet': xsl, 'document': xml, 'form': src})
            else:
                res.count('doctype_probe_equal')
    finally:
        d.call(cmd='tdel', t=t)
    res.sig = ('doctype-probe',)


def id_case(ctx, idx, res):
    """ID semantics across source forms: a DTD with ID, IDREF and IDREFS attributes; only id()-based selections, which the
    visible DOCTYPE node of a Xerces DOM (listed finding) cannot influence"""
    r = rng_for(ctx.seed, 'c05i', idx)
    d = ctx.drv('plain')
    pool = ['v%d' % i for i in range(r.choice([3, 5, 8]))]
    free = list(pool)
    r.shuffle(free)

    def elem(depth):
        n = r.choice(['a', 'b', 'c'])
        at = ''
        if free and r.random() < 0.5:
            at += ' id="%s"' % free.pop()
        if r.random() < 0.5:
            at += ' ref="%s"' % r.choice(pool + ['zz'])
        if r.random() < 0.3:
            at += ' refs="%s"' % ' '.join(r.sample(pool, r.choice([1, 2])))
        if r.random() < 0.2:
            at += ' plain="%s"' % r.choice(pool)
        kids = ''.join(elem(depth + 1) for _ in range(r.choice([0, 1, 2, 3]) if depth < 3 else 0))
        return '<%s%s>%s</%s>' % (n, at, kids, n)
    dtd = '<!DOCTYPE doc [' + ''.join('<!ATTLIST %s id ID #IMPLIED ref IDREF #IMPLIED refs IDREFS #IMPLIED plain CDATA #IMPLIED>' % n for n in 'abc') + ']>'
    xml = '<?xml version="1.0"?>' + dtd + '<doc>' + ''.join(elem(0) for _ in range(r.choice([2, 4, 6]))) + '</doc>'
    probes = ''.join('<i v="%s" n="{count(id(\'%s\'))}"><xsl:for-each select="id(\'%s\')"><e name="{name()}" d="{count(ancestor::*)}" p="{count(preceding-sibling::*)}" id="{@id}"/></xsl:for-each></i>' % (v, v, v) for v in pool + ['zz', ' '.join(pool[:3])])
    probes += '<refs><xsl:for-each select="//*[@ref]"><r to="{name(id(@ref))}" same="{generate-id(id(@ref)) = generate-id(//*[@id = current()/@ref])}"/></xsl:for-each></refs>'
    probes += '<many n="{count(id(//@refs))}"/>'
    xsl = (gen_xslt.HEAD % '') + '<xsl:template match="/"><out>%s</out></xsl:template></xsl:stylesheet>' % probes
    t = d.call(cmd='tnew')['t'].decode()
    payload = {'stylesheet': xsl, 'document': xml}
    try:
        base = d.call(cmd='transform', t=t, src='stream', sty='stream', tgt='stream', xml=xml.encode(), xsl=xsl.encode())
        forms = r.sample(['parsed', 'parsedx', 'xerceswrap', 'stwrap', 'builder'], 3)
        for src in forms:
            rp = d.call(cmd='transform', t=t, src=src, sty='stream', tgt='stream', xml=xml.encode(), xsl=xsl.encode())
            res.count('id_forms_compared')
            if rp.get('status') != base.get('status'):
                res.viol('id|status|src=%s' % src, 'with a DTD declaring ID / IDREF attributes, supplied as %s the status is %s, as a stream %s' % (src, rp.get('status'), base.get('status')), dict(payload, form=src))
            elif rp.get('out') != base.get('out'):
                a, b = rp.get('out', b''), base.get('out', b'')
                i = next((j for j in range(min(len(a), len(b))) if a[j] != b[j]), min(len(a), len(b)))
                res.viol('id|result|src=%s' % ('xerces-backed' if src in ('parsedx', 'xerceswrap') else src),
                         'id() results differ between source supplied as %s and as a stream, at byte %d: %r instead of %r' % (src, i, a[max(0, i - 60):i + 40], b[max(0, i - 60):i + 40]), dict(payload, form=src))
            else:
                res.count('id_equal')
    finally:
        d.call(cmd='tdel', t=t)
    res.sig = ('id-family', len(pool))


def text_case(ctx, idx, res):
    """source forms against character data that reaches the tree builders in several pieces: runs whose lengths sit on powers of two (the builders buffer
    text), interrupted by entity and character references, CDATA sections and internal entities (one text node in the XPath model, several SAX / DOM
    pieces), or by comments, processing instructions and elements (separate text nodes).  The stylesheet reports the identity of the text nodes; the
    generator knows how many there are and how long each is, so every form is compared with that expectation and with the stream form."""
    import xml.etree.ElementTree as ET
    r = rng_for(ctx.seed, 'c05t', idx)
    d = ctx.drv('plain')
    fill = r.choice(['x', 'x', 'ab', '\u00e9', '\u20ac', ' ', 'x \n'])
    strip = r.random() < 0.35

    def run():
        n = r.choice([0, 1, 3, 99, 100, 101, 511, 512, 513, 1023, 1024, 1025, 2048, 4095, 4096, 4097, 8191, 8192, 8193, 16384, 16385, r.randint(1, 20000)])
        return (fill * (n // len(fill) + 1))[:n]
    JOIN = [('&amp;', '&'), ('&lt;', '<'), ('&#10;', '\n'), ('&#x20AC;', '\u20ac'), ('&#32;', ' '), ('&e;', 'entity text'), ('&w;', '  '), ('<![CDATA[c<d]]>', 'c<d'), ('<![CDATA[ ]]>', ' '), ('<![CDATA[]]>', ''), ('&gt;', '>'), ('&#9;', '\t')]
    SPLIT = ['<!--c-->', '<?p q?>', '<e/>', '<e>in</e>']
    # the property leaves CDATA sections out for documents supplied as a DOM (a Xerces DOM keeps them as nodes of their own): half of the documents
    # have none and go through every form, the others only through the forms that build the native tree
    with_cdata = r.random() < 0.5
    if not with_cdata:
        JOIN = [j for j in JOIN if 'CDATA' not in j[0]]
    elems, expect = [], []
    for i in range(r.choice([1, 2, 3])):
        src, nodes, cur = [], [], None          # nodes: list of text (str) or None for a non-text node
        for j in range(r.choice([1, 2, 3, 5, 8])):
            piece = run()
            src.append(piece.replace('&', '&amp;').replace('<', '&lt;'))
            cur = (cur or '') + piece
            k = r.random()
            if k < 0.6:
                a, b = r.choice(JOIN)
                src.append(a)
                cur += b
            elif k < 0.85:
                src.append(r.choice(SPLIT))
                if cur:
                    nodes.append(cur)
                nodes.append(None)
                cur = None
        if cur:
            nodes.append(cur)
        if strip:
            nodes = [n for n in nodes if n is None or n.strip(' \t\n\r') != '']
        elems.append('<t>%s</t>' % ''.join(src))
        expect.append(nodes)
    xml = '<?xml version="1.0"?><!DOCTYPE doc [<!ENTITY e "entity text"><!ENTITY w "  ">]><doc>%s</doc>' % ''.join(elems)
    xsl = (gen_xslt.HEAD % '') + ('<xsl:strip-space elements="*"/>' if strip else '') + (
        '<xsl:template match="/"><out><xsl:for-each select="/doc/t"><r n="{count(text())}" c="{count(node())}" first="{string-length(text()[1])}" last="{string-length(text()[last()])}">'
        '<xsl:for-each select="node()"><y k="{name()}" t="{count(self::text())}" l="{string-length(self::text())}" fs="{count(following-sibling::node())}" nt="{count(following-sibling::node()[1][self::text()])}" '
        'a="{substring(self::text(), 1, 2)}" z="{substring(self::text(), string-length(self::text()) - 1)}"/></xsl:for-each></r></xsl:for-each></out></xsl:template></xsl:stylesheet>')
    t = d.call(cmd='tnew')['t'].decode()
    payload = {'stylesheet': xsl, 'document': xml if len(xml) < 60000 else xml[:60000] + '...'}
    res.sig = ('text-family', fill, strip, with_cdata)

    def check_expect(out, form):
        try:
            root = ET.fromstring(out)
        except Exception as ex:
            res.viol('text|unparsable|src=%s' % form, 'output of form %s cannot be parsed: %s' % (form, ex), dict(payload, form=form))
            return
        rs = root.findall('r')
        for i, nodes in enumerate(expect):
            texts = [n for n in nodes if n is not None]
            got = rs[i] if i < len(rs) else None
            want = {'n': str(len(texts)), 'c': str(len(nodes)), 'first': str(len(texts[0]) if texts else 0), 'last': str(len(texts[-1]) if texts else 0)}
            have = dict((k, got.get(k)) for k in want) if got is not None else None
            if have != want:
                res.viol('text|model|src=%s' % ('native' if form in ('stream', 'file', 'parsed', 'stwrap', 'builder', 'ps') else 'xerces-backed'),
                         'source supplied as %s: element t[%d] has %s, the document has %s (text nodes of lengths %s)' % (form, i + 1, have, want, [len(x) for x in texts][:12]), dict(payload, form=form))
                return
            ys = got.findall('y')
            wl = [str(len(n)) if n is not None else '0' for n in nodes]
            if [y.get('l') for y in ys] != wl:
                res.viol('text|model|src=%s' % ('native' if form in ('stream', 'file', 'parsed', 'stwrap', 'builder', 'ps') else 'xerces-backed'),
                         'source supplied as %s: element t[%d] has child text lengths %s, the document has %s' % (form, i + 1, [y.get('l') for y in ys][:12], wl[:12]), dict(payload, form=form))
                return
        res.count('text_forms_matching_the_document')
    try:
        base = d.call(cmd='transform', t=t, src='stream', sty='stream', tgt='stream', xml=xml.encode('utf-8'), xsl=xsl.encode())
        if base.get('status') != b'0':
            res.viol('text|status|src=stream', 'the stream form fails: %r' % base.get('err', b'')[:200], payload)
            return
        check_expect(base.get('out', b''), 'stream')
        for src in r.sample(['parsed', 'stwrap', 'builder'] if with_cdata else ['parsed', 'parsedx', 'xerceswrap', 'stwrap', 'builder'], 3):
            rp = d.call(cmd='transform', t=t, src=src, sty='stream', tgt='stream', xml=xml.encode('utf-8'), xsl=xsl.encode())
            res.count('text_forms_compared')
            if rp.get('status') != base.get('status'):
                res.viol('text|status|src=%s' % src, 'supplied as %s the status is %s (%r), as a stream %s' % (src, rp.get('status'), rp.get('err', b'')[:120], base.get('status')), dict(payload, form=src))
            elif rp.get('out') != base.get('out'):
                a, b = rp.get('out', b''), base.get('out', b'')
                i = next((j for j in range(min(len(a), len(b))) if a[j] != b[j]), min(len(a), len(b)))
                res.viol('text|result|src=%s' % ('xerces-backed' if src in ('parsedx', 'xerceswrap') else src),
                         'text node identity differs between the source supplied as %s and as a stream, at byte %d: %r instead of %r' % (src, i, a[max(0, i - 80):i + 40], b[max(0, i - 80):i + 40]), dict(payload, form=src))
                check_expect(rp.get('out', b''), src)
            else:
                res.count('text_equal')
    finally:
        d.call(cmd='tdel', t=t)


NODESET_EXPRS = ['//*|//@*', '//@*|//*', '//node()|//@*', '//*[@*]|//*/@*[1]', '//@*[1]|//*', '(//@*)[last()]|(//*)[last()]', '//@*/..|//@*', '//text()|//@*|//comment()|//processing-instruction()',
                 '(//*|//@*)[position() mod 3 = 0]', '(//@*|//*)[last()]', '//*/@*[last()]|//*', '/|//@*|/*', '(//*)[2]/descendant-or-self::*|(//*)[2]/descendant-or-self::*/@*']
NODESET_LOCAL = ['.|@*', '@*|.', 'ancestor-or-self::*|@*', '@*|node()', '@*[1]|.', '.|@*[last()]', 'following::node()|@*|.', 'preceding::*|ancestor::*|@*', '*|*/@*', '..|.|@*', '(.|@*)[1]', '(.|@*)[2]', '(.|@*)[last()]',
                 'descendant-or-self::*/@*|descendant-or-self::*']
NODESET_ATTR = ['..|.', '.|..', '../@*|..', '.|../node()', '..|.|../@*[last()]', 'ancestor::*|.', '(..|.)[1]', '(..|.)[last()]', '../following::*|.|..']


def nodeset_case(ctx, idx, res):
    """node-sets that merge elements with their own attributes (and text, comments, roots) into one list in document order: the place where the
    numbering a source form gives its nodes shows.  Each form is compared with the stream form, and the counts with the relation
    count(A|B) = count(A) + count(B) for disjoint A and B, which needs no reference."""
    r = rng_for(ctx.seed, 'c05n', idx)
    d = ctx.drv('plain')
    xml, info = gen_xml.gen_doc(r, size=r.choice([6, 12, 25, 40]))
    ident = '<n k="{count(self::*)}{count(self::text())}{count(self::comment())}{count(self::processing-instruction())}" nm="{name()}" a="{count(ancestor::node())}" p="{count(preceding::node())}" v="{substring(., 1, 6)}"/>'
    body = ['<s e="{count(//*)}" a="{count(//@*)}" u="{count(//*|//@*)}" u2="{count(//@*|//*)}" n="{count(//node())}" un="{count(//node()|//@*)}"/>']
    for i, e in enumerate(r.sample(NODESET_EXPRS, 5)):
        body.append('<e i="g%d" c="{count(%s)}"><xsl:for-each select="%s">%s</xsl:for-each></e>' % (i, e, e, ident))
    loc = r.sample(NODESET_LOCAL, 4)
    body.append('<xsl:for-each select="(//*)[position() &lt; 9]"><l>' + ''.join('<e i="l%d" c="{count(%s)}" own="{count(@*) + 1}"><xsl:for-each select="%s">%s</xsl:for-each></e>' % (i, e, e, ident) for i, e in enumerate(loc)) + '</l></xsl:for-each>')
    att = r.sample(NODESET_ATTR, 3)
    body.append('<xsl:for-each select="(//@*)[position() &lt; 9]"><l>' + ''.join('<e i="a%d" c="{count(%s)}"><xsl:for-each select="%s">%s</xsl:for-each></e>' % (i, e, e, ident) for i, e in enumerate(att)) + '</l></xsl:for-each>')
    xsl = (gen_xslt.HEAD % '') + '<xsl:template match="/"><out>' + ''.join(body) + '</out></xsl:template></xsl:stylesheet>'
    payload = {'stylesheet': xsl, 'document': xml}
    res.sig = ('nodeset-family', tuple(loc[:2]))
    t = d.call(cmd='tnew')['t'].decode()

    def relation(out, form):
        m = re.search(rb'<s e="(\d+)" a="(\d+)" u="(\d+)" u2="(\d+)" n="(\d+)" un="(\d+)"', out)
        if not m:
            return
        e, a, u, u2, n, un = [int(x) for x in m.groups()]
        if u != e + a or u2 != e + a or un != n + a:
            res.viol('nodeset|count|src=%s' % ('xerces-backed' if form in ('parsedx', 'xerceswrap') else 'native'),
                     'source supplied as %s: count(//*)=%d, count(//@*)=%d, but count(//*|//@*)=%d, count(//@*|//*)=%d; count(//node())=%d but count(//node()|//@*)=%d' % (form, e, a, u, u2, n, un), dict(payload, form=form))
        else:
            res.count('nodeset_union_counts_add_up')
    try:
        base = d.call(cmd='transform', t=t, src='stream', sty='stream', tgt='stream', xml=xml.encode('utf-8'), xsl=xsl.encode())
        if base.get('status') != b'0':
            res.viol('nodeset|status|src=stream', 'the stream form fails: %r' % base.get('err', b'')[:200], payload)
            return
        relation(base.get('out', b''), 'stream')
        for src in [r.choice(['parsedx', 'xerceswrap'])] + r.sample(['parsed', 'parsedx', 'xerceswrap', 'stwrap', 'builder'], 3):
            rp = d.call(cmd='transform', t=t, src=src, sty='stream', tgt='stream', xml=xml.encode('utf-8'), xsl=xsl.encode())
            res.count('nodeset_forms_compared')
            if rp.get('status') != base.get('status'):
                res.viol('nodeset|status|src=%s' % src, 'supplied as %s the status is %s (%r), as a stream %s' % (src, rp.get('status'), rp.get('err', b'')[:120], base.get('status')), dict(payload, form=src))
                continue
            relation(rp.get('out', b''), src)
            if rp.get('out') != base.get('out'):
                a, b = rp.get('out', b''), base.get('out', b'')
                i = next((j for j in range(min(len(a), len(b))) if a[j] != b[j]), min(len(a), len(b)))
                res.viol('nodeset|result|src=%s' % ('xerces-backed' if src in ('parsedx', 'xerceswrap') else src),
                         'a node-set of elements and attributes differs between the source supplied as %s and as a stream, at byte %d: %r instead of %r' % (src, i, a[max(0, i - 120):i + 60], b[max(0, i - 120):i + 60]), dict(payload, form=src))
            else:
                res.count('nodeset_equal')
    finally:
        d.call(cmd='tdel', t=t)


def chunk_case(ctx, idx, res):
    """result-target forms against text and attribute runs whose lengths sit on the internal buffer sizes (100-unit text buffer of the
    source-tree target, 512-unit writer / stream buffers, 8 KB file buffer, callback chunking), incl. multi-unit characters"""
    r = rng_for(ctx.seed, 'c05c', idx)
    d = ctx.drv('plain')
    wd = os.path.join(ctx.workdir, 'c05')
    os.makedirs(wd, exist_ok=True)
    outpath = os.path.join(wd, 'outc.bin')
    fill = r.choice(['x', 'x', 'ab', '\u00e9', '\u20ac', '\U0001f600', '\U0001f600'])
    def run_len():
        n = r.choice([0, 1, 20, 98, 99, 100, 101, 102, 200, 510, 511, 512, 513, 1023, 1024, 1025, 4095, 4096, 4097, 8191, 8192, 8193, r.randint(1, 9000)])
        return (fill * (n // len(fill) + 1))[:n] if len(fill) == 1 or n % len(fill) == 0 else (fill * (n // len(fill) + 1))[:n - (n % len(fill))]
    items = []
    parts = []
    for i in range(r.choice([1, 2, 4])):
        a, b, c = run_len(), run_len(), run_len()
        parts.append('<xsl:variable name="a%d" select="\'%s\'"/><xsl:variable name="b%d" select="\'%s\'"/>' % (i, a, i, b))
        k = r.random()
        if k < 0.4:
            items.append('<p><xsl:value-of select="$a%d"/>: <xsl:value-of select="$b%d"/></p>' % (i, i))
        elif k < 0.6:
            items.append('<p q="{$a%d}" z="{$b%d}">%s<xsl:value-of select="$b%d"/><e/><xsl:value-of select="$a%d"/></p>' % (i, i, c[:50], i, i))
        elif k < 0.8:
            items.append('<p><xsl:text>s</xsl:text><xsl:value-of select="$a%d"/><xsl:comment><xsl:value-of select="substring($cs, 1, string-length($b%d) mod 300)"/></xsl:comment><xsl:value-of select="$b%d"/></p>' % (i, i, i))
        elif ord(fill[0]) < 0x10000:
            # (substring() counts UTF-16 units in this library, a C02 matter: never cut a run of supplementary characters)
            items.append('<p><xsl:for-each select="//*"><xsl:value-of select="substring($a%d, 1, position() * 37)"/></xsl:for-each><xsl:value-of select="$b%d"/></p>' % (i, i))
        else:
            items.append('<p><xsl:for-each select="//*"><xsl:value-of select="$a%d"/></xsl:for-each><xsl:value-of select="$b%d"/></p>' % (i, i))
    method = r.choice(['xml', 'xml', 'xml', 'text', 'html'])
    enc = r.choice(['UTF-8', 'UTF-8', 'UTF-16', 'ISO-8859-1'])
    parts.append('<xsl:variable name="cs" select="\'%s\'"/>' % ('c' * 300))
    # zero to three units in front shift every later run against the buffer boundaries (a two-unit character then straddles one or not)
    lead = 'y' * r.choice([0, 1, 2, 3])
    xsl = (gen_xslt.HEAD % '') + '<xsl:output method="%s" encoding="%s"/>' % (method, enc) + ''.join(parts) + '<xsl:template match="/"><out>%s%s</out></xsl:template></xsl:stylesheet>' % (lead, ''.join(items))
    xml = '<doc><a/><b/><c><d/></c></doc>'
    t = d.call(cmd='tnew')['t'].decode()
    payload = {'stylesheet': xsl, 'document': xml}
    res.sig = ('chunk', method, enc, fill)
    try:
        base = d.call(cmd='transform', t=t, src='stream', sty='stream', tgt='stream', xml=xml, xsl=xsl.encode('utf-8'))
        b_ok, b_out = base.get('status') == b'0', base.get('out', b'')
        b_tree = None
        if b_ok and method == 'xml':
            try:
                b_tree = bytes_tree(b_out.decode('utf-16').encode('utf-8') if enc == 'UTF-16' else b_out.decode('latin-1').encode('utf-8') if enc == 'ISO-8859-1' else b_out)
            except Exception:
                b_tree = None
        forms = [('file', None), ('callback', None), ('callback', 'chunks')] + ([('dom', None), ('sourcetree', None)] if method == 'xml' else [])
        for tgt, extra in forms:
            f = dict(cmd='transform', t=t, src='parsed' if tgt == 'callback' else r.choice(['stream', 'parsed']), sty='compiled' if tgt == 'callback' else 'stream', tgt=tgt, xml=xml, xsl=xsl.encode('utf-8'), outpath=outpath)
            if os.path.exists(outpath):
                os.unlink(outpath)
            rp = d.call(**f)
            res.count('chunk_forms_compared')
            label = 'cpp/%s' % tgt
            if (rp.get('status') == b'0') != b_ok:
                res.viol('chunk|status|tgt=%s' % tgt, 'result target %s: status %s (%s), the stream target %s (%s) [method %s, encoding %s, runs of %r]' % (
                    tgt, rp.get('status'), rp.get('err', b'')[:100], base.get('status'), base.get('err', b'')[:100], method, enc, fill), dict(payload, form=label))
                continue
            if not b_ok:
                continue
            out = rp.get('out', b'')
            if tgt in ('dom', 'sourcetree'):
                if b_tree is None:
                    continue
                tr = dump_tree(out.decode('utf-8'))
                if tr != b_tree:
                    res.viol('chunk|tree|tgt=%s' % tgt, 'collected as %s the result tree differs from the parsed stream output: %s' % (tgt, refxml.first_diff(('root', tr), ('root', b_tree))[:300]), dict(payload, form=label))
                else:
                    res.count('chunk_identical_trees')
            elif out != b_out:
                i = next((j for j in range(min(len(out), len(b_out))) if out[j] != b_out[j]), min(len(out), len(b_out)))
                res.viol('chunk|bytes|tgt=%s' % tgt, 'result target %s differs from the stream target at byte %d of %d / %d' % (tgt, i, len(out), len(b_out)), dict(payload, form=label))
            else:
                res.count('chunk_identical_bytes')
        # C API data buffer and handler
        xp, sp, op = [os.path.join(wd, n) for n in ('cin.xml', 'cin.xsl', 'cout.bin')]
        open(xp, 'w').write(xml)
        open(sp, 'w', encoding='utf-8').write(xsl)
        for form in ('todata', 'tohandler', 'tofile'):
            if form == 'todata' and enc == 'UTF-16':
                continue            # the data buffer is a NUL-terminated char*: not defined for UTF-16 output
            rp = d.call(cmd='capi', form=form, fromstream='0', xml=xml, xsl=xsl.encode('utf-8'), xmlpath=xp, xslpath=sp, outpath=op, params=b'')
            res.count('chunk_forms_compared')
            if (rp.get('status') == b'0') != b_ok or (b_ok and rp.get('out', b'') != b_out):
                res.viol('chunk|capi|%s' % form, 'C API %s: status %s, %d bytes; the stream target: status %s, %d bytes [method %s, encoding %s]' % (form, rp.get('status'), len(rp.get('out', b'')), base.get('status'), len(b_out), method, enc), dict(payload, form='capi/' + form))
            else:
                res.count('chunk_identical_bytes')
    finally:
        d.call(cmd='tdel', t=t)


def generalize(c):
    if c[0] == 'cpp':
        return 'cpp|src=%s|sty=%s|tgt=%s' % (c[1], c[2], c[3])
    if c[0] == 'capi':
        return 'capi|%s' % c[1]
    return 'cli|%s' % c[1]


def main():
    chk = Check('C05')
    chk.rule = ('generated (stylesheet, document, parameters) triples, 25% of them failing (terminate, run-time XPath error, unknown function, ill-formed source), 20% with '
                'method html / text; each run through the stream->stream baseline and 3-8 other combinations of 8 source forms x 5 stylesheet forms x 5 result targets, '
                '6 C API entry points and the command line program. A case is one triple; distinct = distinct supply combination exercised.')
    chk.assumptions = ['documents carry no CDATA sections or entity references (XPath-normal form)', 'tree targets are compared with the tree the baseline bytes parse to (xml method only)',
                       'stylesheet base URI is the same file path in every form']
    chk.ensure('plain', 'xvdrv')
    n = 3000 if chk.tier == 'quick' else 150000
    chk.run_cases('c05', 'case', range(n))
    chk.run_cases('c05', 'doctype_probe', range(8))
    chk.run_cases('c05', 'id_case', range(n // 3))
    chk.run_cases('c05', 'chunk_case', range(n // 3))
    chk.run_cases('c05', 'text_case', range(n // 3))
    chk.run_cases('c05', 'nodeset_case', range(n // 3))
    chk.finish(min_nontrivial=60, required_stats=('identical_bytes', 'identical_trees', 'both_fail', 'form_capi', 'form_cli', 'form_src_builder', 'form_src_xerceswrap', 'form_tgt_callback', 'form_sty_pi', 'text_forms_matching_the_document', 'text_equal', 'nodeset_equal', 'nodeset_union_counts_add_up'))


if __name__ == '__main__':
    main()
