"""C18 — number <-> string conversions follow XPath and round-trip exactly.
Oracle: refnum (exact rational arithmetic / correctly rounded python float()).
The real code (NumberToDOMString, NumberToCharacters, DoubleSupport::toDouble/round/floor/
ceiling) runs in xvdrv; thorough also runs the same workload on the asan flavour."""
import math, os, sys
sys.path.insert(0, os.path.join(os.path.dirname(os.path.abspath(__file__)), '..'))
from framework import Check, rng_for, crash_violation
from xvdriver import DriverDied
import refnum
from refnum import from_bits, bits, hexbits, same

BATCH = 400
FLAVOUR = 'plain'


# ---- generators ---------------------------------------------------------------------------
def gen_double(r):
    c = r.randrange(16)
    sign = r.choice((1.0, -1.0))
    if c <= 3:      # uniform over exponents
        return 'uniform', from_bits((r.getrandbits(1) << 63) | (r.randrange(0, 2047) << 52) | r.getrandbits(52))
    if c == 4:      # powers of two +- ulps
        x = math.ldexp(1.0, r.randrange(-1074, 1024))
        for _ in range(r.randrange(0, 4)):
            x = refnum.next_up(x) if r.random() < 0.5 else refnum.next_down(x)
        return 'pow2', sign * x
    if c == 5:      # powers of ten +- ulps
        x = float('1e%d' % r.randrange(-323, 309))
        for _ in range(r.randrange(0, 4)):
            x = refnum.next_up(x) if r.random() < 0.5 else refnum.next_down(x)
        return 'pow10', sign * x
    if c == 6:      # 2^53 / 2^63 / 2^31 / 2^64 neighbourhoods
        base = 2.0 ** r.choice((31, 32, 52, 53, 54, 62, 63, 64, 65))
        x = base
        for _ in range(r.randrange(0, 6)):
            x = refnum.next_up(x) if r.random() < 0.5 else refnum.next_down(x)
        return 'intedge', sign * x
    if c == 7:      # subnormals
        return 'subnormal', sign * from_bits(r.getrandbits(r.randrange(1, 53)))
    if c == 8:      # x.5 ties and near ties
        n = r.choice((0, 1, 2, 3, 7, 10, 255, 4095, 2 ** 31, 2 ** 51, 2 ** 52 - 1, r.randrange(0, 10 ** r.randrange(1, 16))))
        x = n + 0.5
        k = r.randrange(0, 3)
        for _ in range(k):
            x = refnum.next_up(x) if r.random() < 0.5 else refnum.next_down(x)
        return 'tie', sign * x
    if c == 9:      # specials
        return 'special', r.choice((0.0, -0.0, math.nan, math.inf, -math.inf, sys.float_info.max, -sys.float_info.max,
                                    5e-324, -5e-324, 2.2250738585072014e-308, 0.49999999999999994, -0.49999999999999994,
                                    0.5, -0.5, 1.5, -1.5, 2.5, -2.5, 4503599627370497.0, -4503599627370497.0,
                                    9007199254740993.0, 9223372036854775807.0, -9223372036854775808.0, 1e21, 1e22, 1e23))
    if c in (10, 11):  # short decimals
        nd = r.randrange(1, 18)
        digs = str(r.randrange(1, 10 ** nd))
        e = r.randrange(-30, 25)
        return 'decimal', sign * float(digs + 'e' + str(e))
    if c == 12:     # integers
        return 'integer', sign * float(r.randrange(0, 10 ** r.randrange(1, 25)))
    if c == 13:     # large magnitudes (long digit strings)
        return 'huge', sign * float('%de%d' % (r.randrange(1, 10 ** 6), r.randrange(60, 303)))
    if c == 14:     # tiny magnitudes
        return 'tiny', sign * float('%de-%d' % (r.randrange(1, 10 ** 6), r.randrange(20, 320)))
    return 'unit', sign * r.random()


WS = ' \t\r\n'
OTHER = ['e', 'E', '+', '-', '.', ',', 'x', 'NaN', 'Infinity', 'INF', ' ', '١', '１', '−', '0x10', 'd', 'f', '\x0b', '\x0c', ' ', '\u0085']


def gen_string(r):
    c = r.randrange(12)

    def digits(n):
        return ''.join(r.choice('0123456789') for _ in range(n))

    def ws():
        return ''.join(r.choice(WS) for _ in range(r.choice((0, 0, 1, 2, 5))))

    def numeral():
        k = r.randrange(6)
        ip = digits(r.choice((1, 1, 2, 5, 9, 10, 11, 17, 20, 40)))
        if r.random() < 0.2:
            ip = '0' * r.randrange(1, 5) + ip
        if k == 0:
            return ip
        if k == 1:
            return ip + '.'
        if k == 2:
            return '.' + digits(r.randrange(1, 30))
        return ip + '.' + digits(r.choice((1, 2, 5, 17, 30)))
    if c <= 3:
        return 'valid', ws() + r.choice(('', '', '-')) + numeral() + ws()
    if c == 4:      # long digit runs crossing the 200-char stack buffer
        n = r.choice((150, 198, 199, 200, 201, 250, 400, 1000))
        k = r.randrange(3)
        if k == 0:
            s = digits(n)
        elif k == 1:
            s = digits(n // 2) + '.' + digits(n - n // 2)
        else:
            s = '0.' + '0' * r.randrange(0, n) + digits(20)
        return 'long', ws() + r.choice(('', '-')) + s + ws()
    if c == 5:      # rendered doubles (17 significant digits, positional)
        _, x = gen_double(r)
        if x != x or abs(x) == math.inf:
            x = 1.25
        return 'rendered', refnum.positional(x, r.choice((15, 16, 17, 17, 20)))
    if c == 6:      # exact midpoints between adjacent doubles (round-half-even needed)
        _, x = gen_double(r)
        if x != x or abs(x) == math.inf or abs(x) > 1e60 or (x != 0 and abs(x) < 1e-60):
            x = r.random() * 1000
        from fractions import Fraction
        y = refnum.next_up(x)
        if y == math.inf:
            y = x
        mid = (Fraction(x) + Fraction(y)) / 2
        s = refnum.exact_decimal(mid)
        if r.random() < 0.3:
            s += r.choice(('0', '1', '00000000000000000001'))
        return 'midpoint', s
    if c == 7:      # short integers around the long-hack threshold (length 10)
        n = r.choice((8, 9, 10, 11))
        return 'short', r.choice(('', '-', ' ', ' -')) + digits(n - 1) + r.choice(('', ' '))
    # mutations of a valid numeral
    base = r.choice(('', '-')) + numeral()
    k = r.randrange(7)
    if k == 0:
        i = r.randrange(0, len(base) + 1)
        s = base[:i] + r.choice(OTHER) + base[i:]
    elif k == 1:
        i = r.randrange(0, len(base) + 1)
        s = base[:i] + r.choice(WS) + base[i:]
    elif k == 2:
        s = base + r.choice(('e5', 'E5', 'e-5', 'e+5', 'e', 'f', 'd', 'L'))
    elif k == 3:
        s = r.choice(('+', '--', '- ', '-+', '+-')) + base.lstrip('-')
    elif k == 4:
        s = base.replace('.', '..', 1) if '.' in base else base + '.5.5'
    elif k == 5:
        s = r.choice(('', ' ', '-', '.', '-.', '. ', ' . ', '-', '- 1', '1 -', '1-', '.-1', 'NaN', 'Infinity', '-Infinity', 'nan', 'inf', '1e5', '0x1', '1,5', '1 2'))
    else:
        s = ''.join(r.choice('0123456789.-+e \t' + 'x') for _ in range(r.randrange(1, 12)))
    return 'mutated', s


# ---- case -----------------------------------------------------------------------------------
def run_batch(drv, op, items):
    rep = drv.call(cmd='num', op=op, **{'in': ''.join(i + '\n' for i in items)})
    if 'escaped' in rep or 'error' in rep:
        raise RuntimeError('driver: %r' % rep)
    out = rep.get('out', b'').decode('utf-8', 'replace').split('\n')
    return out[:len(items)]


def isolate(ctx, res, op, items, describe):
    """A batch killed the driver: re-run one item per call to find the witnesses."""
    found = 0
    for it in items:
        try:
            run_batch(ctx.drv(FLAVOUR), op, [it])
        except DriverDied as e:
            crash_violation(res, e, ctx.prop, {'op': op, 'item': it, 'value': describe(it)})
            found += 1
            if found >= 3:
                break
    if not found:
        res.inconclusive.append('crash-not-reproduced')


def case(ctx, idx, res):
    r = rng_for(ctx.seed, 'c18', idx)
    drv = ctx.drv(FLAVOUR)
    kind = idx % 3
    sigs = set()
    if kind in (0, 1):
        vals = [gen_double(r) for _ in range(BATCH)]
        items = [hexbits(x) for _, x in vals]
        ops = ('d2s', 'd2c') if kind == 0 else ('round', 'floor', 'ceil')
        for op in ops:
            try:
                outs = run_batch(drv, op, items)
            except DriverDied:
                isolate(ctx, res, op, items, lambda h: repr(from_bits(int(h, 16))))
                continue
            res.evals += len(items)
            for (cls, x), h, o in zip(vals, items, outs):
                if op in ('d2s', 'd2c'):
                    why = refnum.check_string_of(x, o)
                    if why:
                        res.viol('%s|%s|%s' % (op, cls, why.split(':')[0]),
                                 '%s(%r) = %r: %s' % (op, x, o[:120], why), {'op': op, 'bits': h, 'value': repr(x), 'got': o[:400]})
                    if x == x and x != 0 and abs(x) != math.inf:
                        sigs.add(bits(x))
                        res.count('string_of_' + cls)
                else:
                    exp = {'round': refnum.xp_round, 'floor': refnum.xp_floor, 'ceil': refnum.xp_ceil}[op](x)
                    try:
                        got = from_bits(int(o, 16))
                    except ValueError:
                        res.viol('%s|garbled' % op, 'garbled reply %r' % o)
                        continue
                    if not same(exp, got):
                        zero = 'zero-sign' if exp == got else 'value'
                        res.viol('%s|%s|%s' % (op, cls, zero), '%s(%r) = %r, XPath 4.4 prescribes %r' % (op, x, got, exp),
                                 {'op': op, 'bits': h, 'value': repr(x), 'got': repr(got), 'expected': repr(exp)})
                    if x == x and x != 0 and abs(x) != math.inf and x != math.floor(x):
                        sigs.add((op, bits(x)))
                        res.count(op + '_' + cls)
        # composition: number(string(x)) through the library's own parser
        if kind == 0:
            try:
                strs = run_batch(drv, 'd2s', items)
                back = run_batch(drv, 's2d', [s.encode().hex() for s in strs])
                res.evals += len(items)
                for (cls, x), s, b in zip(vals, strs, back):
                    got = from_bits(int(b, 16))
                    # 'Infinity' is not a Number: XPath itself makes number('Infinity') NaN
                    if x == x and abs(x) != math.inf and not (got == x):
                        res.viol('roundtrip|%s' % cls, 'number(string(%r)) = %r via %r' % (x, got, s[:80]),
                                 {'bits': hexbits(x), 'string': s[:400], 'got': repr(got)})
            except DriverDied:
                pass    # already reported above through d2s isolation
        res.sample = {'kind': ops[0], 'first': [repr(v) for _, v in vals[:3]]}
    else:
        vals = [gen_string(r) for _ in range(BATCH)]
        items = [s.encode('utf-8').hex() for _, s in vals]
        try:
            outs = run_batch(drv, 's2d', items)
        except DriverDied:
            isolate(ctx, res, 's2d', items, lambda h: repr(bytes.fromhex(h).decode('utf-8')))
            outs = []
        res.evals += len(outs)
        for (cls, s), o in zip(vals, outs):
            exp = refnum.number_of(s)
            got = from_bits(int(o, 16))
            ok = (exp != exp and got != got) or exp == got     # sign of zero not prescribed for strings
            if not ok:
                form = 'valid' if exp == exp else 'invalid'
                res.viol('s2d|%s|%s' % (cls, form), 'number(%r) = %r, expected %r' % (s[:100], got, exp),
                         {'string': s, 'got': repr(got), 'expected': repr(exp)})
            sigs.add(s)
            res.count('number_of_' + cls + ('_valid' if exp == exp else '_nan'))
        res.sample = {'kind': 's2d', 'first': [s for _, s in vals[:3]]}
    res.sigs = sigs
    res.evals -= 1


def xpath_case(ctx, idx, res):
    """the same values through the XPath engine: string($n) (as object, into a string, as character events), number(string($n)), round / floor /
    ceiling($n), number($s), number('literal') and the numeral as a Number token of the expression; this is the route stylesheets take, with
    the caches of XNumber / XString and the lexer in the path"""
    import re
    import xpcommon as C
    r = rng_for(ctx.seed, 'c18x', idx)
    drv = ctx.drv(FLAVOUR)
    h = drv.call(cmd='xdoc', xml='<d/>', xerces=0)['doc'].decode()
    sigs = set()
    res.evals = 0

    def ev(expr, variables, entry='all'):
        res.evals += 1
        return C.call_xpath(drv, h, expr, ctx='/0', variables=variables, entry=entry)
    try:
        if idx % 2 == 0:
            for _ in range(40):
                cls, x = gen_double(r)
                v = {'n': x}
                rp = ev('string($n)', v)
                for k in ('g_str', 'str', 'chars', 'g_chars', 'g_str_append'):
                    if k in rp:
                        why = refnum.check_string_of(x, rp[k])
                        if why:
                            res.viol('xpath|string|%s|%s' % (cls, why.split(':')[0]), 'string($n) for $n = %r through %s gives %r: %s' % (x, k, rp[k][:120], why), {'bits': hexbits(x), 'entry': k})
                            break
                res.count('xpath_string_of')
                if x == x and abs(x) != math.inf:
                    rp = ev('number(string($n))', v, 'generic')
                    got = from_bits(int(rp['g_num'], 16)) if 'g_num' in rp else None
                    if got is None or not (got == x):
                        res.viol('xpath|roundtrip|%s' % cls, 'number(string($n)) for $n = %r gives %r' % (x, got), {'bits': hexbits(x), 'reply': rp})
                    sigs.add(bits(x))
                for fn, ref in (('round', refnum.xp_round), ('floor', refnum.xp_floor), ('ceiling', refnum.xp_ceil)):
                    rp = ev('%s($n)' % fn, v, 'all')
                    exp = ref(x)
                    for k in ('g_num', 'num'):
                        if k in rp:
                            got = from_bits(int(rp[k], 16))
                            if not same(exp, got):
                                res.viol('xpath|%s|%s|%s' % (fn, cls, 'zero-sign' if exp == got else 'value'), '%s($n) for $n = %r gives %r through %s, XPath 4.4 prescribes %r' % (fn, x, got, k, exp), {'bits': hexbits(x)})
                                break
                    res.count('xpath_' + fn)
        else:
            for _ in range(60):
                cls, sv = gen_string(r)
                if any(ord(c) < 32 and c not in '\t\n\r' for c in sv) or any(0xd800 <= ord(c) <= 0xdfff for c in sv):
                    continue
                exp = refnum.number_of(sv)
                forms = [('number($s)', {'s': sv})]
                if "'" not in sv:
                    forms.append(("number('%s')" % sv, {}))
                if re.match(r'^([0-9]+(\.[0-9]*)?|\.[0-9]+)$', sv):
                    forms.append((sv, {}))                      # a Number token of the expression itself
                    forms.append(('- ' + sv, {}))
                for expr, v in forms:
                    rp = ev(expr, v, 'generic')
                    if 'g_num' not in rp:
                        res.viol('xpath|number|no-value', 'the expression %r (s = %r) gives no number: %r' % (expr[:80], sv[:80], dict((k, w[:80]) for k, w in rp.items())), {'expr': expr, 'string': sv})
                        continue
                    got = from_bits(int(rp['g_num'], 16))
                    want = -exp if expr.startswith('- ') else exp
                    if not ((want != want and got != got) or want == got):
                        res.viol('xpath|number|%s|%s' % (cls, 'valid' if exp == exp else 'invalid'), '%s with s = %r gives %r, expected %r' % (expr[:60], sv[:100], got, want), {'expr': expr, 'string': sv})
                sigs.add(sv)
                res.count('xpath_number_of')
    finally:
        if drv.alive():
            drv.call(cmd='xdocdel', doc=h)
    res.sigs = sigs
    res.sample = {'kind': 'xpath', 'case': idx}


def main():
    global FLAVOUR
    chk = Check('C18')
    chk.rule = ('doubles drawn from 16 classes (uniform exponents, 2^k and 10^k +-ulps, 2^31..2^65 edges, subnormals, x.5 ties, '
                'specials, short decimals, integers, huge, tiny); strings from the Number grammar, >200-char runs, rendered doubles, '
                'exact midpoints between adjacent doubles, and mutations. A case is one value; non-trivial = finite non-zero double / '
                'any string; distinct = distinct bit pattern or distinct string.')
    chk.assumptions = ['python float() and repr are correctly rounded (IEEE round-half-even)',
                       'sign of zero is not checked for number(string)', 'NDEBUG build: asserts are not observed']
    n = 2500 if chk.tier == 'quick' else 60000          # batches of 400 values
    chk.ensure('plain', 'xvdrv')
    chk.run_cases('c18', 'case', range(n))
    chk.run_cases('c18', 'xpath_case', range(max(200, n // 4)))
    if chk.tier == 'thorough' or os.environ.get('VERIF_C18_ASAN'):
        chk.ensure('asan', 'xvdrv')
        FLAVOUR = 'asan'
        os.environ['VERIF_C18_FLAVOUR'] = 'asan'
        chk.run_cases('c18', 'case_asan', range(n, n + (n // 10)))
    chk.finish(min_nontrivial=1000, required_stats=('xpath_string_of', 'xpath_number_of', 'xpath_round'))


def case_asan(ctx, idx, res):
    global FLAVOUR
    FLAVOUR = 'asan'
    case(ctx, idx, res)


if __name__ == '__main__':
    main()
