"""C08 - output options change only the lexical form, never the content.
Metamorphic oracle: the same (stylesheet, document) is run under a base setting and under a generated
combination of presentational settings (xsl:output attributes and XalanTransformer overrides); both
results are parsed and the trees compared.  With indentation on, whitespace-only text nodes may
appear between tags, nothing else may change.  method=text must be exactly the concatenated text of
the result tree in the requested encoding; method=html is parsed by HTML rules (python html.parser)
and compared with the tree the xml method wrote."""
import html.parser, os, re, sys, urllib.parse
sys.path.insert(0, os.path.join(os.path.dirname(os.path.abspath(__file__)), '..'))
from framework import Check, rng_for
import refxml, gen_xml, xsltcommon as XC
import c04

XSL_HEAD = '<xsl:stylesheet version="1.0" xmlns:xsl="http://www.w3.org/1999/XSL/Transform" xmlns:xalan="http://xml.apache.org/xalan">'
TEXTS = ['a', 'text', ' ', '  ', '\n', ' x ', 'x\ny', '\t', '<&>', 'é', '€', '\U0001f600', ']]>', 'a  b', '\n  \n', '"q"', "it's"]
NAMES = ['a', 'b', 'c', 'd', 'p', 'item']
ENCODINGS = ['UTF-8', 'UTF-16', 'ISO-8859-1', 'US-ASCII', 'windows-1252', 'UTF-16BE', 'ISO-8859-15']


TOKENS = [']]>', ']]>', ']', ']]', '>', '\u20ac', '\u20ac', '\u00e9', '\r', 'x', '&', '<', '\U0001f600', ' ', '\n', '\u0152', 'ab']


def gen_text(r):
    """one text node: a stock text, or a run of tokens in which every pair of neighbours occurs (a character the encoding cannot hold next to ]]>, a
    carriage return next to ]], ...)"""
    if r.random() < 0.6:
        return r.choice(TEXTS)
    return ''.join(r.choice(TOKENS) for _ in range(r.choice([2, 3, 4, 6, 9])))


def gen_mixed(r, depth=0, budget=None):
    """source subtree with every mix of text, elements, comments and PIs that indentation has to get right"""
    if budget is None:
        budget = [r.choice([6, 12, 25, 40])]
    name = r.choice(NAMES)
    attrs = ''
    for k in range(r.choice([0, 0, 1, 2])):
        attrs += ' a%d="%s"' % (k, c04.src_escape(r.choice(TEXTS), True))
    if r.random() < 0.1:
        attrs += ' xml:space="%s"' % r.choice(['preserve', 'default'])
    kids = []
    n = r.choice([0, 1, 1, 2, 3, 5]) if depth < 5 else r.choice([0, 1])
    shape = r.choice(['elements', 'mixed', 'mixed', 'text'])
    for _ in range(n):
        if budget[0] <= 0:
            break
        budget[0] -= 1
        k = r.random()
        if shape == 'text' or (shape == 'mixed' and k < 0.45):
            kids.append(c04.src_escape(gen_text(r)))
        elif k < 0.85:
            kids.append(gen_mixed(r, depth + 1, budget))
        elif k < 0.93:
            kids.append('<!--%s-->' % r.choice(['c', ' c ', 'multi\nline', '']))
        else:
            kids.append('<?%s %s?>' % (r.choice(['pi', 'target']), r.choice(['d', 'a="b"', ''])))
    return '<%s%s>%s</%s>' % (name, attrs, ''.join(kids), name) if kids or r.random() < 0.5 else '<%s%s/>' % (name, attrs)


def output_decl(opts, method='xml'):
    a = ' method="%s"' % method
    for k in ('indent', 'encoding', 'omit-xml-declaration', 'standalone', 'doctype-system', 'doctype-public', 'cdata-section-elements', 'version', 'media-type'):
        if k in opts:
            a += ' %s="%s"' % (k, opts[k])
    if 'indent-amount' in opts:
        a += ' xalan:indent-amount="%s"' % opts['indent-amount']
    return '<xsl:output%s/>' % a


def gen_options(r, root_name):
    o = {}
    api = {}
    if r.random() < 0.6:
        o['indent'] = 'yes'
        if r.random() < 0.4:
            o['indent-amount'] = str(r.choice([0, 1, 2, 4, 8]))
    if r.random() < 0.15:
        api['indent'] = str(r.choice([0, 1, 3, 7]))
    if r.random() < 0.5:
        o['encoding'] = r.choice(ENCODINGS)
    if r.random() < 0.15:
        api['encoding'] = r.choice(ENCODINGS)
    if r.random() < 0.3:
        o['omit-xml-declaration'] = r.choice(['yes', 'no'])
    if r.random() < 0.2:
        o['standalone'] = r.choice(['yes', 'no'])
    if r.random() < 0.25:
        o['doctype-system'] = r.choice(['x.dtd', 'http://example.org/x.dtd'])
        if r.random() < 0.5:
            o['doctype-public'] = '-//X//Y//EN'
    if r.random() < 0.35:
        o['cdata-section-elements'] = ' '.join(r.sample(NAMES, r.choice([1, 2, 3, len(NAMES)])))
    if r.random() < 0.2:
        o['version'] = r.choice(['1.0', '1.1'])
    if r.random() < 0.1:
        o['media-type'] = 'text/xml'
    return o, api


def run(ctx, xsl, xml, api):
    d = ctx.drv('plain')
    t = d.call(cmd='tnew')['t'].decode()
    try:
        if api:
            d.call(cmd='setopt', t=t, **api)
        rep = d.call(cmd='transform', t=t, src='stream', sty='stream', tgt='stream', xml=xml, xsl=xsl)
    finally:
        try:
            d.call(cmd='tdel', t=t)
        except Exception:
            pass
    return XC.Result(rep)


def parse_xml_output(out, fallback_encoding=None):
    """tree of an xml-method result (declaration optional, DOCTYPE allowed); raises ValueError"""
    try:
        text, ver, enc = c04.decode_output(out, None)
    except ValueError:
        # no declaration: UTF-8 or UTF-16 by the XML rules
        if out[:2] in (b'\xff\xfe', b'\xfe\xff'):
            text = out.decode('utf-16')
        elif out[:2] == b'<\x00':
            text = out.decode('utf-16-le')
        elif out[:2] == b'\x00<':
            text = out.decode('utf-16-be')
        else:
            # no declaration and no BOM: the encoding is known out of band (it is the one that was requested)
            codec = 'utf-8'
            for k, v in c04.ENCODINGS.items():
                if fallback_encoding and k.lower() == fallback_encoding.lower():
                    codec = v
            text = out.decode(codec)
        ver = '1.0'
    text = text.lstrip('\ufeff')
    text = re.sub(r'^\s*<!DOCTYPE[^>]*>', '', text)
    doc = c04.parse_output(text, ver)
    roots = [c for c in doc.children if c.kind == refxml.ELEM]
    return c04.tree_of(roots[0]), ver


def ws_only(t):
    return t[0] == 't' and t[1].strip(' \t\r\n') == ''


def diff_modulo_indent(base, var, indent, path=''):
    """None if equal; with indent, whitespace-only text nodes of `var` that have no counterpart in `base` are allowed"""
    if base[0] != var[0]:
        return '%s: %s node where the base run has a %s node' % (path, var[0], base[0])
    if base[0] == 't':
        return None if base[1] == var[1] else '%s: text %s instead of %s' % (path, c04.show(var[1][:40]), c04.show(base[1][:40]))
    if base[0] in 'cp':
        return None if base == var else '%s: %s instead of %s' % (path, var, base)
    here = path + '/' + base[1]
    if base[1] != var[1]:
        return '%s: element %s instead of %s' % (path, var[1], base[1])
    if base[2] != var[2]:
        return '%s: attributes %s instead of %s' % (here, c04.show(str(sorted(var[2].items()))[:120]), c04.show(str(sorted(base[2].items()))[:120]))
    bk, vk = base[3], var[3]
    i = j = 0
    while i < len(bk) or j < len(vk):
        b = bk[i] if i < len(bk) else None
        v = vk[j] if j < len(vk) else None
        if b is not None and v is not None:
            d = diff_modulo_indent(b, v, indent, here)
            if d is None:
                i += 1
                j += 1
                continue
            if indent and ws_only(v) and not (b[0] == 't'):
                j += 1          # inserted between tags
                continue
            if b[0] == 't' and v[0] == 't':
                return '%s: existing text node %s became %s' % (here, c04.show(b[1][:40]), c04.show(v[1][:40]))
            return d
        if v is not None:
            if indent and ws_only(v):
                j += 1
                continue
            return '%s: extra %s node' % (here, v[0])
        return '%s: %s node missing' % (here, b[0])
    return None


def xml_case(ctx, idx, res):
    r = rng_for(ctx.seed, 'c08', idx)
    src = gen_mixed(r)
    root_name = re.match(r'<([A-Za-z]+)', src).group(1)
    opts, api = gen_options(r, root_name)
    how = r.choice(['copy-of', 'identity', 'literal'])
    if how == 'copy-of':
        body = '<xsl:template match="/"><xsl:copy-of select="node()"/></xsl:template>'
    elif how == 'identity':
        body = '<xsl:template match="@*|node()"><xsl:copy><xsl:apply-templates select="@*|node()"/></xsl:copy></xsl:template>'
    else:
        body = '<xsl:template match="/">%s</xsl:template>' % re.sub(r'<\?[^>]*\?>', '', src).replace('{', '{{').replace('}', '}}')
    base_xsl = XSL_HEAD + '<xsl:output method="xml" indent="no"/>' + body + '</xsl:stylesheet>'
    var_xsl = XSL_HEAD + output_decl(opts) + body + '</xsl:stylesheet>'
    xml = '<?xml version="1.0" encoding="UTF-8"?>' + src
    rb = run(ctx, base_xsl, xml.encode('utf-8'), {})
    rv = run(ctx, var_xsl, xml.encode('utf-8'), api)
    payload = {'base_stylesheet': base_xsl, 'stylesheet': var_xsl, 'document': xml, 'api_overrides': api}
    res.count('pairs')
    names = sorted(opts) + ['api:' + k for k in sorted(api)]
    res.sig = (tuple(names), how)
    res.sample = {'options': opts, 'api': api, 'construction': how}
    for n in names:
        res.count('opt_' + n)
    if rb.status != 0:
        res.viol('base-fails', 'the base run fails: %s' % rb.err[:200], payload)
        return
    # indentation is on with indent="yes", and also whenever an indent amount is given (xalan:indent-amount, setIndent): StylesheetRoot::setupFormatterListener
    indent = opts.get('indent') == 'yes' or 'indent-amount' in opts or 'indent' in api
    klass = '+'.join(n for n in names if n not in ('indent-amount', 'api:indent', 'media-type', 'omit-xml-declaration', 'standalone')) or 'none'
    if rv.status != 0:
        # an encoding that cannot hold a name / comment is a legitimate failure (C04); anything else is not
        if 'cannot be represented' in rv.err or 'UnrepresentableCharacter' in rv.err:
            res.count('variant_refused_unrepresentable')
            return
        res.viol('variant-fails|%s' % klass, 'the run with %s %s fails: %s' % (opts, api, rv.err[:200]), payload)
        return
    try:
        tb, _ = parse_xml_output(rb.out)
    except (ValueError, refxml.ParseError, UnicodeDecodeError) as e:
        res.viol('base-not-well-formed', str(e)[:200], payload)
        return
    try:
        tv, ver = parse_xml_output(rv.out, api.get('encoding') or opts.get('encoding'))
    except (ValueError, refxml.ParseError, UnicodeDecodeError) as e:
        res.viol('not-well-formed|%s' % klass, 'with %s %s the result is not well-formed: %s' % (opts, api, str(e)[:200]), dict(payload, output=rv.out[:2000].decode('latin-1')))
        return
    d = diff_modulo_indent(tb, tv, indent)
    if d:
        res.viol('content-changed|%s' % klass, 'with %s %s the parsed result differs from the base run: %s' % (opts, api, d[:300]), dict(payload, output=rv.out[:3000].decode('latin-1'), base_output=rb.out[:3000].decode('latin-1')))
        return
    res.count('equal_trees')
    if indent:
        res.count('equal_modulo_indent')
    # lexical expectations that are observable: declaration, doctype, declared encoding
    head = rv.out[:300]
    enc = api.get('encoding') or opts.get('encoding')
    if opts.get('omit-xml-declaration') == 'yes' and 'standalone' not in opts:      # a standalone value forces the declaration
        if b'<?xml' in head.replace(b'\x00', b'')[:20]:
            res.viol('lexical|omit-xml-declaration', 'omit-xml-declaration="yes" but a declaration is written', payload)
    if 'doctype-system' in opts and b'<!DOCTYPE' not in rv.out.replace(b'\x00', b'')[:400]:
        res.viol('lexical|doctype', 'doctype-system given but no DOCTYPE written', payload)


# ---- text method ----------------------------------------------------------------------------------
def text_of(t):
    if t[0] == 't':
        return t[1]
    if t[0] == 'e':
        return ''.join(text_of(c) for c in t[3])
    return ''


def text_case(ctx, idx, res):
    r = rng_for(ctx.seed, 'c08t', idx)
    src = gen_mixed(r)
    enc = r.choice(ENCODINGS + ['UTF-8'])
    codec = {'UTF-8': 'utf-8', 'UTF-16': 'utf-16', 'ISO-8859-1': 'latin-1', 'US-ASCII': 'ascii', 'windows-1252': 'cp1252', 'UTF-16BE': 'utf-16-be', 'ISO-8859-15': 'iso8859-15'}[enc]
    body = '<xsl:template match="/"><xsl:copy-of select="node()"/></xsl:template>'
    base_xsl = XSL_HEAD + '<xsl:output method="xml" indent="no"/>' + body + '</xsl:stylesheet>'
    var_xsl = XSL_HEAD + '<xsl:output method="text" encoding="%s"%s/>' % (enc, r.choice(['', ' indent="yes"', ' omit-xml-declaration="no"'])) + body + '</xsl:stylesheet>'
    xml = ('<?xml version="1.0" encoding="UTF-8"?>' + src).encode('utf-8')
    rb = run(ctx, base_xsl, xml, {})
    rv = run(ctx, var_xsl, xml, {})
    payload = {'base_stylesheet': base_xsl, 'stylesheet': var_xsl, 'document': xml.decode('utf-8')}
    res.count('text_pairs')
    res.sig = ('text', enc)
    res.sample = {'method': 'text', 'encoding': enc}
    if rb.status != 0:
        return
    tb, _ = parse_xml_output(rb.out)
    want = text_of(tb)
    if not c04.encodable(want, codec):
        res.count('text_not_encodable_skipped')
        return
    if rv.status != 0:
        res.viol('text|fails', 'method="text" encoding=%s fails: %s' % (enc, rv.err[:200]), payload)
        return
    try:
        got = rv.out.decode(codec).lstrip('\ufeff')
    except UnicodeDecodeError as e:
        res.viol('text|undecodable', 'method="text" output is not valid %s: %s' % (enc, e), payload)
        return
    if got != want:
        i = c04.first_text_diff(got, want)
        res.viol('text|content', 'method="text" encoding=%s: output differs from the concatenated text of the result tree at offset %d: %s instead of %s'
                 % (enc, i, c04.show(got, i), c04.show(want, i)), payload)
        return
    res.count('text_equal')


# ---- html method ----------------------------------------------------------------------------------
VOID = set('area base basefont br col frame hr img input isindex link meta param'.split())
RAW = set(['script', 'style'])
HTML_BLOCKS = ['div', 'p', 'ul', 'table', 'pre', 'blockquote', 'h1', 'form']
HTML_INLINE = ['span', 'a', 'b', 'em', 'code', 'i']
HTEXT = ['text', 'a b', ' ', 'x < y & z', 'a<b>c</b>', '&lt;tag&gt;', '<!--t-->', 'R&D;', '&#65;&amp;', '</p>', '<br>', 'é', '\u00a0', '€', '"q"', 'café ', ' lead', 'trail ', 'two\nlines', '>', "'"]


def gen_html(r, depth=0):
    k = r.random()
    if depth > 3 or k < 0.25:
        return c04.src_escape(r.choice(HTEXT))
    if k < 0.33:
        n = r.choice(['br', 'hr', 'img', 'input'])
        a = {'img': ' src="%s" alt="%s"' % (r.choice(['a.png', 'x y.png', 'é.png', 'a.png?x=1&amp;y=2']), c04.src_escape(r.choice(HTEXT), True)), 'input': ' type="checkbox"%s' % r.choice(['', ' checked="checked"', ' disabled="disabled"'])}.get(n, '')
        return '<%s%s/>' % (n, a)
    if k < 0.36:
        # form controls: boolean attributes where they belong, next to ordinary attributes whose value equals their name
        opts = ''.join('<option value="%s"%s>%s</option>' % (r.choice(['a', 'value', 'VALUE', 'selected', '']), r.choice(['', ' selected="selected"', ' disabled="disabled"', ' label="label"']), r.choice(['A', 'B', ''])) for _ in range(r.choice([1, 2, 3])))
        return r.choice(['<select name="%s"%s>%s</select>' % (r.choice(['s', 'name', 'multiple']), r.choice(['', ' multiple="multiple"', ' disabled="disabled"', ' size="size"']), opts),
                         '<input type="text" name="%s" value="%s"%s/>' % (r.choice(['n', 'name', 'NAME']), r.choice(['v', 'value', 'Value', 'readonly']), r.choice(['', ' readonly="readonly"', ' title="title"', ' checked="checked"'])),
                         '<textarea name="name" rows="rows"%s>%s</textarea>' % (r.choice(['', ' readonly="readonly"', ' disabled="disabled"']), r.choice(['', 't', 'a b'])),
                         '<ul compact="compact" type="type"><li>x</li></ul>', '<hr noshade="noshade" width="width"/>', '<table><tr><td nowrap="nowrap" abbr="abbr">c</td><th nowrap="nowrap" axis="AXIS">h</th></tr></table>'])
    if k < 0.4:
        n = r.choice(['script', 'style'])
        return '<%s>%s</%s>' % (n, c04.src_escape(r.choice(['if (a < b && c > d) { x = "y"; }', 'p > a { color: red }', 'var s = "é";', ''])), n)
    n = r.choice(HTML_BLOCKS + HTML_INLINE + HTML_INLINE)
    a = ''
    if n == 'a':
        a = ' href="%s"' % r.choice(['http://example.org/', 'x.html?a=1&amp;b=2', 'p q.html', 'café.html', '#frag'])
    if r.random() < 0.3:
        a += ' title="%s"' % c04.src_escape(r.choice(HTEXT), True)
    if r.random() < 0.15:
        a += ' class="c%d"' % r.randint(0, 3)
    if r.random() < 0.12:
        # a value that happens to be the name of the attribute (any case), and attributes that are boolean for other elements only
        a += r.choice([' id="id"', ' id="ID"', ' lang="lang"', ' dir="DIR"', ' style="style"', ' name="Name"', ' checked="checked"', ' selected="selected"', ' disabled="disabled"', ' nowrap="nowrap"', ' compact="compact"',
                       ' align="ALIGN"', ' data="data"'])
    kids = ''.join(gen_html(r, depth + 1) for _ in range(r.choice([0, 1, 2, 3])))
    if n == 'ul':
        kids = ''.join('<li>%s</li>' % gen_html(r, depth + 1) for _ in range(r.choice([1, 2, 3])))
    if n == 'table':
        kids = ''.join('<tr>%s</tr>' % ''.join('<td>%s</td>' % gen_html(r, depth + 2) for _ in range(r.choice([1, 2]))) for _ in range(r.choice([1, 2])))
    return '<%s%s>%s</%s>' % (n, a, kids, n)


HTML_BOOLEAN = set([('input', 'checked'), ('input', 'disabled'), ('input', 'readonly'), ('input', 'ismap'), ('option', 'selected'), ('option', 'disabled'), ('select', 'multiple'), ('select', 'disabled'),
                    ('textarea', 'disabled'), ('textarea', 'readonly'), ('button', 'disabled'), ('optgroup', 'disabled'), ('img', 'ismap'), ('hr', 'noshade'), ('td', 'nowrap'), ('th', 'nowrap'),
                    ('ul', 'compact'), ('ol', 'compact'), ('dl', 'compact'), ('dir', 'compact'), ('menu', 'compact'), ('script', 'defer'), ('object', 'declare'), ('area', 'nohref'), ('frame', 'noresize')])


class HTMLTree(html.parser.HTMLParser):
    def __init__(self):
        html.parser.HTMLParser.__init__(self, convert_charrefs=True)
        self.root = ('e', '#root', {}, [])
        self.stack = [self.root]
        self.problems = []

    def handle_starttag(self, tag, attrs):
        # an attribute written without a value stands for name="name" only where HTML 4 declares it boolean for that element; anywhere
        # else a parser reads an empty value
        e = ('e', tag, dict((k, v if v is not None else (k if (tag.lower(), k.lower()) in HTML_BOOLEAN else '')) for k, v in attrs), [])
        self.stack[-1][3].append(e)
        if tag not in VOID:
            self.stack.append(e)

    def handle_startendtag(self, tag, attrs):
        self.problems.append('XML-style empty tag <%s/>' % tag)
        self.handle_starttag(tag, attrs)
        if tag not in VOID:
            self.stack.pop()

    def handle_endtag(self, tag):
        if tag in VOID:
            self.problems.append('end tag for the void element %s' % tag)
            return
        if self.stack[-1][1] != tag:
            self.problems.append('end tag %s while %s is open' % (tag, self.stack[-1][1]))
            while len(self.stack) > 1 and self.stack[-1][1] != tag:
                self.stack.pop()
        if len(self.stack) > 1:
            self.stack.pop()

    def handle_data(self, data):
        k = self.stack[-1][3]
        if k and k[-1][0] == 't':
            k[-1] = ('t', k[-1][1] + data)
        else:
            k.append(('t', data))

    def handle_comment(self, data):
        self.stack[-1][3].append(('c', data))

    def handle_pi(self, data):
        self.stack[-1][3].append(('p', data))


def norm_html(t, drop_meta=True):
    """lower-case names, drop the META the serializer inserts, merge texts"""
    if t[0] != 'e':
        return t
    kids = []
    for c in t[3]:
        if drop_meta and c[0] == 'e' and c[1].lower() == 'meta' and 'http-equiv' in dict((k.lower(), v) for k, v in c[2].items()):
            continue
        c = norm_html(c, drop_meta)
        if c[0] == 't' and kids and kids[-1][0] == 't':
            kids[-1] = ('t', kids[-1][1] + c[1])
        else:
            kids.append(c)
    return ('e', t[1].lower(), dict((k.lower(), v) for k, v in t[2].items()), kids)


def html_case(ctx, idx, res):
    r = rng_for(ctx.seed, 'c08h', idx)
    body_src = ''.join(gen_html(r, 0) for _ in range(r.choice([1, 2, 4])))
    head = '<head><title>%s</title>%s</head>' % (c04.src_escape(r.choice(HTEXT)).strip() or 't', r.choice(['', '<style>p > a { color: red }</style>', '<script>if (a &lt; b) x();</script>']))
    src = '<html>%s<body>%s</body></html>' % (head, body_src)
    enc = r.choice(['UTF-8', 'UTF-8', 'ISO-8859-1', 'US-ASCII', 'UTF-16'])
    indent = r.choice(['no', 'no', 'yes'])
    api = {}
    if r.random() < 0.3:
        api['omitmeta'] = '2'                         # eOmitMETATagYes
    escape = r.choice(['0', '1', '1', '2'])          # eEscapeURLsDefault, eEscapeURLsNo, eEscapeURLsYes
    api['escapeurls'] = escape
    body = '<xsl:template match="/"><xsl:copy-of select="node()"/></xsl:template>'
    base_xsl = XSL_HEAD + '<xsl:output method="xml" indent="no"/>' + body + '</xsl:stylesheet>'
    var_xsl = XSL_HEAD + '<xsl:output method="html" encoding="%s" indent="%s"/>' % (enc, indent) + body + '</xsl:stylesheet>'
    xml = ('<?xml version="1.0" encoding="UTF-8"?>' + src).encode('utf-8')
    rb = run(ctx, base_xsl, xml, {})
    rv = run(ctx, var_xsl, xml, api)
    payload = {'base_stylesheet': base_xsl, 'stylesheet': var_xsl, 'document': xml.decode('utf-8'), 'api_overrides': api}
    res.count('html_pairs')
    res.sig = ('html', enc, indent, tuple(sorted(api.items())))
    res.sample = {'method': 'html', 'encoding': enc, 'indent': indent, 'api': api}
    if rb.status != 0 or rv.status != 0:
        res.viol('html|fails', 'method="html" run fails: %s%s' % (rb.err[:100], rv.err[:200]), payload)
        return
    tb, _ = parse_xml_output(rb.out)
    codec = {'UTF-8': 'utf-8', 'ISO-8859-1': 'latin-1', 'US-ASCII': 'ascii', 'UTF-16': 'utf-16'}[enc]
    try:
        text = rv.out.decode(codec).lstrip('\ufeff')
    except UnicodeDecodeError as e:
        res.viol('html|undecodable', 'method="html" output is not valid %s: %s' % (enc, e), payload)
        return
    p = HTMLTree()
    p.feed(text)
    p.close()
    payload['output'] = text[:3000]
    if p.problems:
        res.viol('html|syntax|%s' % p.problems[0].split(' ')[0], 'method="html" output: %s' % p.problems[0], payload)
        return
    roots = [c for c in p.root[3] if c[0] == 'e']
    if len(roots) != 1:
        res.viol('html|structure', 'method="html" output has %d top-level elements' % len(roots), payload)
        return
    got = norm_html(roots[0])
    want = norm_html(tb, drop_meta=False)
    if escape != '1':
        # URL attributes may be %-escaped: compare them unescaped
        def unq(t):
            if t[0] != 'e':
                return t
            return ('e', t[1], dict((k, urllib.parse.unquote(v) if k in ('href', 'src') else v) for k, v in t[2].items()), [unq(c) for c in t[3]])
        got, want = unq(got), unq(want)
    d = diff_modulo_indent(want, got, True)
    if d:
        raw = ''.join(re.findall(r'<(?:script|style)>(.*?)</(?:script|style)>', src, re.S))
        where = ('raw-text-unencodable' if not c04.encodable(raw, codec) else 'raw-text') if ('/script' in d or '/style' in d) else 'attribute' if 'attributes' in d else 'text' if 'text' in d else 'structure'
        res.viol('html|content|%s|indent-%s' % (where, indent), 'method="html" encoding=%s indent=%s %s: parsed by HTML rules the result differs from the xml result: %s' % (enc, indent, api, d[:300]), payload)
        return
    if api.get('omitmeta') == '2' and re.search(r'<meta\s+http-equiv', text, re.I):
        res.viol('html|omit-meta', 'setOmitMETATag(yes) but a META tag is written', payload)
        return
    res.count('html_equal')


def main():
    chk = Check('C08')
    chk.rule = ('mixed-content documents (text / whitespace-only text / elements / comments / PIs / xml:space in every order, depth <= 6) copied to the result by copy-of, an '
                'identity transform or literal result elements; each run twice: base (xml, indent=no) and a generated combination of indent, indent-amount, encoding, '
                'omit-xml-declaration, standalone, doctype-system/public, cdata-section-elements, version, media-type and the API overrides setIndent / setOutputEncoding; '
                'plus method=text x 7 encodings and method=html (HTML vocabulary incl. void elements, script/style, URL and boolean attributes) x encodings x indent x '
                'setOmitMETATag / setEscapeURLs. A case is one pair of runs; distinct = distinct option set.')
    chk.assumptions = ['python html.parser tokenizes the html output; void-element and raw-text rules are those of HTML 4', 'with indent, a whitespace-only text node that has no counterpart in the base result and does not touch an existing text node is allowed',
                       'html: whitespace-only text nodes are ignored in the comparison even with indent=no (the serializer may break lines at block elements)']
    chk.ensure('plain', 'xvdrv')
    n = 20000 if chk.tier == 'quick' else 2000000
    chk.run_cases('c08', 'xml_case', range(n))
    chk.run_cases('c08', 'text_case', range(n // 4))
    chk.run_cases('c08', 'html_case', range(n // 3))
    chk.finish(min_nontrivial=100, required_stats=('equal_trees', 'equal_modulo_indent', 'text_equal', 'html_equal'))


if __name__ == '__main__':
    main()
