"""C01 — the transformation result equals the tree XSLT 1.0 defines for stylesheet and source.
Oracle: refxslt (own interpreter written from the Recommendation) producing a result TREE; the
library's serialized output is re-parsed with expat and compared as a tree (elements, attribute
sets, expanded names, text, comments, PIs, order).  Prefixes / redundant declarations are C14's."""
import os, re, sys
sys.path.insert(0, os.path.join(os.path.dirname(os.path.abspath(__file__)), '..'))
from framework import Check, rng_for
from xvdriver import DriverDied
import refxml, refxpath as X, refxslt, gen_xml, gen_xslt, xsltcommon as XC
import xpcommon

FLAVOUR = os.environ.get('VERIF_C01_FLAVOUR', 'plain')


def ref_run(xsl, xml):
    """-> ('tree', canon) | ('error', reason)"""
    try:
        out, p = refxslt.transform(xsl, xml)
    except (refxslt.XsltError, X.XPathError, X.XPathSyntaxError, refxml.ParseError) as e:
        return ('error', str(e)[:100], None)
    except refxslt.Terminate:
        return ('error', 'terminate', None)
    except RecursionError:
        return ('error', 'recursion', None)
    except (TypeError, AttributeError, KeyError, ValueError, IndexError) as e:
        # a stylesheet made invalid by the shrinker (missing required attribute, ...)
        return ('error', 'reference-crash %s' % type(e).__name__, None)
    if p.builder_errors:
        return ('error', 'builder: ' + p.builder_errors[0], None)
    return ('tree', XC.ref_tree(out), p)


def xalan_run(runner, xsl, xml):
    r = runner.transform(xsl, xml)
    if r.status != 0 or r.escaped or r.error:
        return ('error', 'status %s: %s' % (r.status, (r.err or r.escaped or r.error)[:200]), r)
    try:
        return ('tree', XC.output_tree(r.out), r)
    except (refxml.ParseError, UnicodeDecodeError) as e:
        return ('notwf', str(e)[:160], r)


def same_tree_modulo_numeral_form(a, b):
    """a: the library's tree, b: the reference's; the same shape, and every pair of strings equal or differing in the form of one numeral only"""
    if isinstance(a, str) and isinstance(b, str):
        return xpcommon.same_modulo_numeral_form(a, b)
    if isinstance(a, (tuple, list)) and isinstance(b, (tuple, list)):
        return len(a) == len(b) and all(same_tree_modulo_numeral_form(x, y) for x, y in zip(a, b))
    if isinstance(a, dict) and isinstance(b, dict):
        return sorted(a) == sorted(b) and all(same_tree_modulo_numeral_form(a[k], b[k]) for k in a)
    return a == b


def classify(xsl):
    """instruction kinds in a (minimised) stylesheet"""
    names = sorted(set(re.findall(r'<xsl:([a-z\-]+)', xsl)) - set(['stylesheet', 'template', 'output']))
    return ','.join(names)


def case(ctx, idx, res):
    r = rng_for(ctx.seed, 'c01', idx)
    thorough = ctx.tier == 'thorough'
    runner = ctx.cache.get('runner')
    if runner is None:
        runner = ctx.cache['runner'] = XC.Runner(ctx, FLAVOUR)
    xml, info = gen_xml.gen_doc(r, size=r.choice([8, 15, 25] + ([40, 80] if thorough else [])))
    g = gen_xslt.SGen(r, info, avoid=ctx.findings_avoid, max_templates=r.choice([4, 8, 12]), body_depth=r.choice([2, 3, 3, 4]))
    xsl = g.stylesheet()
    kr, vr, p = ref_run(xsl, xml)
    if kr == 'error':
        if vr.startswith('reference-crash'):
            res.inconclusive.append('harness-exception: refxslt crashed on a generated stylesheet: %s\n%s' % (vr, xsl[:1500]))
            return
        res.count('reference_error')
        res.count('reference_error:' + vr.split(':')[0][:40])
        return
    kx, vx, rx = xalan_run(runner, xsl, xml)
    payload = {'stylesheet': xsl, 'document': xml}
    executed = p.executed
    if len(executed) >= 2:
        res.sig = ','.join(sorted(executed))
    res.count('instructions_executed', len(executed))
    for e in executed:
        res.count('instr:' + e)
    res.sample = {'stylesheet': xsl[:400], 'document': xml[:200], 'instructions': sorted(executed)}
    if kx == 'tree' and vx == vr:
        res.count('agree')
        return
    if kx == 'tree' and same_tree_modulo_numeral_form(vx, vr):
        # the only differences are numerals of which XPath 4.2 allows both forms (see xpcommon.same_modulo_numeral_form)
        res.count('agree')
        res.count('agree_modulo_numeral_form')
        return

    def differs(xs, xm):
        a = ref_run(xs, xm)
        if a[0] != 'tree':
            return False
        b = xalan_run(runner, xs, xm)
        if b[0] != kx:
            return False
        return b[0] != 'tree' or b[1] != a[1]
    mxsl = XC.shrink_xml(xsl, lambda s: differs(s, xml), budget=250, protect=XC.protect_stylesheet)
    mxml = XC.shrink_xml(xml, lambda s: differs(mxsl, s), budget=120)
    a = ref_run(mxsl, mxml)
    b = xalan_run(runner, mxsl, mxml)
    payload.update({'minimal_stylesheet': mxsl, 'minimal_document': mxml})
    cls = classify(mxsl)
    if b[0] == 'error':
        res.viol('fails|%s' % cls, 'the error-free stylesheet fails: %s\n    stylesheet: %s\n    document: %s' % (b[1], mxsl[:700], mxml[:300]), payload)
    elif b[0] == 'notwf':
        res.viol('not-well-formed|%s' % cls, 'the output is not well-formed XML: %s\n    stylesheet: %s\n    document: %s' % (b[1], mxsl[:700], mxml[:300]), payload)
    else:
        d = refxml.first_diff(('root', b[1]), ('root', a[1])) if a[0] == 'tree' else 'reference failed on minimal case'
        res.viol('tree|%s' % cls, 'result tree differs from the one XSLT defines: %s\n    stylesheet: %s\n    document: %s' % (d[:300], mxsl[:700], mxml[:300]), payload)


# The namespace nodes of elements inside a result tree fragment, looked at directly (the reference interpreter does not model them, so the
# expectation is written out from XSLT 7.1.1 / XPath 5.4): place of the variable, the fragment, and the prefixes its first element must have
RTF_NS_PROBES = [
    ('top-level', '<xsl:variable name="v"><p:r xmlns:z="urn:z"><k/></p:r></xsl:variable><xsl:template match="/"><out>%s</out></xsl:template>', ['p', 'xml', 'z']),
    ('inside a literal element that declares the prefix', '<xsl:template match="/"><out><p:outer><xsl:variable name="v"><p:r xmlns:z="urn:z"/></xsl:variable>%s</p:outer></out></xsl:template>', ['p', 'xml', 'z']),
    ('xsl:element', '<xsl:template match="/"><out><xsl:variable name="v"><xsl:element name="y:r" namespace="urn:y"/></xsl:variable>%s</out></xsl:template>', ['xml', 'y']),
]


def rtf_ns_probe(ctx, idx, res):
    d = ctx.drv(FLAVOUR)
    where, body, want = RTF_NS_PROBES[idx]
    obs = '<xsl:for-each select="exsl:node-set($v)/*/namespace::*"><xsl:sort select="name()"/><xsl:value-of select="concat(name(), \' \')"/></xsl:for-each>'
    xsl = ('<xsl:stylesheet version="1.0" xmlns:xsl="http://www.w3.org/1999/XSL/Transform" xmlns:p="urn:p" xmlns:exsl="http://exslt.org/common" exclude-result-prefixes="exsl p">'
           '<xsl:output method="text"/>' + body % obs + '</xsl:stylesheet>')
    t = d.call(cmd='tnew')['t'].decode()
    try:
        rp = d.call(cmd='transform', t=t, src='stream', sty='stream', tgt='stream', xml=b'<doc/>', xsl=xsl.encode())
    finally:
        d.call(cmd='tdel', t=t)
    res.sig = ('rtf-namespace-probe',)
    res.count('rtf_namespace_probes')
    got = (rp.get('out') or b'').decode('utf-8', 'replace').split()
    if rp.get('status') != b'0':
        res.viol('rtf-namespace-axis|fails', 'the probe (%s) fails: %r' % (where, rp.get('err', b'')[:200]), {'stylesheet': xsl})
    elif got != want:
        res.viol('rtf-namespace-axis|%s' % ('missing' if set(got) < set(want) else 'other'),
                 'namespace nodes of the first element of a result tree fragment (%s): prefixes %s, XSLT 7.1.1 / XPath 5.4 give %s' % (where, got, want), {'stylesheet': xsl, 'document': '<doc/>'})
    else:
        res.count('rtf_namespace_probe_as_specified')


def main():
    chk = Check('C01')
    chk.rule = ('generated stylesheets over the core instruction set (template rules with match/name/mode/priority, apply-templates, '
                'call-template, for-each, sort, value-of, copy, copy-of, element, attribute, attribute-set, text, comment, PI, if, choose, '
                'variable, param, with-param, number, key, LREs with AVTs, exclude-result-prefixes) x generated documents. A case is one '
                '(stylesheet, document); non-trivial = at least 2 instruction kinds executed by the reference; distinct = distinct set of '
                'executed instruction kinds.')
    chk.assumptions = ['refxslt is the reference; cases where it reports an error are skipped', 'prefixes and namespace declarations are not compared (C14)',
                       'text sort keys are restricted to strings whose collation is unambiguous', 'xsl:number with an empty number list writes nothing']
    chk.ensure(FLAVOUR, 'xvdrv')
    n = 12000 if chk.tier == "quick" else 400000
    chk.run_cases('c01', 'case', range(n))
    chk.run_cases('c01', 'rtf_ns_probe', range(len(RTF_NS_PROBES)))
    chk.finish(min_nontrivial=50, required_stats=('agree',))


if __name__ == '__main__':
    main()
