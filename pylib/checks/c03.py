"""C03 - no input crashes, hangs or corrupts memory; every failure is a reported error.
Oracle: AddressSanitizer + UndefinedBehaviorSanitizer (incl. float-cast-overflow) on a sanitizer build
of the working tree, process exit / signals, and three behavioural monitors at the API boundary:
  (a) every entry point returns: status 0, or non-zero status with a non-empty error message;
  (b) after a failure the same transformer still performs a known-good transformation correctly;
  (c) no call outlives its (generous) time budget twice.
Inputs: generated stylesheets / documents / XPath expressions / parameter expressions and byte-, token-
and structure-level mutations of them (deletion, duplication, splicing, hostile values: huge and tiny
numbers, deep nesting, long names, odd Unicode, unterminated constructs), through XalanTransformer
(stream, compiled, parsed, C API), the XPath engine entry points, and the serializers."""
import os, re, sys
sys.path.insert(0, os.path.join(os.path.dirname(os.path.abspath(__file__)), '..'))
from framework import Check, rng_for
from xvdriver import DriverDied
import gen_xml, gen_xslt, gen_xpath, xsltcommon as XC

FLAVOUR = os.environ.get('VERIF_FLAVOUR', 'asan')
HEAD = gen_xslt.HEAD
GOOD_XSL = (HEAD % '') + '<xsl:template match="/"><good n="{count(//*)}"><xsl:for-each select="//*"><xsl:sort select="name()"/><i><xsl:number level="any"/><xsl:value-of select="name()"/></i></xsl:for-each></good></xsl:template></xsl:stylesheet>'
GOOD_XML = '<doc><a x="1"><b/>t</a><c/></doc>'
# the follow-up transformation after every case: number and text sorts with two keys over more nodes than the hostile documents
# have (state that a failed transformation leaves in the sorter, the counters or the key tables shows here), numbering, a key
FOLLOW_XML = '<doc>' + ''.join('<i v="%d" w="%s"><j/></i>' % ((k * 37) % 101, 'abcdefghij'[(k * 7) % 10]) for k in range(90)) + '<a x="1"><b/>t</a><c/></doc>'
FOLLOW_XSL = ((HEAD % '') + '<xsl:key name="fk" match="i" use="@w"/><xsl:template match="/"><good n="{count(//*)}" k="{count(key(\'fk\',\'c\'))}">'
              '<xsl:for-each select="//i"><xsl:sort select="@v mod 7" data-type="number" order="descending"/><xsl:sort select="@w"/><xsl:sort select="@v" data-type="number"/><xsl:value-of select="concat(@v,@w,\' \')"/></xsl:for-each>'
              '<xsl:for-each select="//*"><xsl:sort select="name()"/><i><xsl:number level="any"/><xsl:value-of select="name()"/></i></xsl:for-each></good></xsl:template></xsl:stylesheet>')
GOOD_OUT = None

HOSTILE_NUMBERS = ['1e308', '1e309', '-1e308', '1e-320', '0.1e-400', '9' * 40, '9' * 120, '9' * 400, '0.' + '0' * 350 + '1', '1 div 0', '-1 div 0', '0 div 0', '-0', '2147483648', '-2147483649',
                   '4294967296', '9223372036854775807', '9223372036854775808', '18446744073709551616', '1e19', '123456789012345678901234567890.5', '.5e1', '1.', '--1', '1e']
HOSTILE_STRINGS = ["''", '"\\"', "'" + 'A' * 5000 + "'", "'&#0;'", "'\ufffe'", "'\U0010ffff'", "'a\u0300\u0301'", "'%s%n%x'", "'{{}}'", "'{'", "'}'", "'<![CDATA['", "']]>'", "'\u202e'"]
XPATH_FRAGMENTS = ['substring(%s, %s, %s)', 'format-number(%s, %s)', 'translate(%s, %s, %s)', 'substring-before(%s, %s)', 'string-length(%s)', 'round(%s)', 'floor(%s)', 'ceiling(%s)', 'number(%s)',
                   'concat(%s, %s)', 'sum(%s)', 'id(%s)', 'key(%s, %s)', 'document(%s)', 'lang(%s)', 'contains(%s, %s)', 'normalize-space(%s)', 'boolean(%s)', 'not(%s)', '(%s)[%s]', '%s | %s',
                   '%s mod %s', '%s div %s', '- %s', '%s = %s', '%s < %s', 'count(%s)', 'name(%s)', 'generate-id(%s)', 'system-property(%s)', 'unparsed-entity-uri(%s)', 'element-available(%s)',
                   'function-available(%s)', 'string(%s)', 'starts-with(%s, %s)', 'local-name(%s)', 'namespace-uri(%s)', 'position() = %s', 'last() - %s', '//*[%s]', 'ancestor::*[%s]/@*[%s]',
                   "format-number(%s, '#,##0.00;(#)')", "format-number(%s, '" + '#' * 300 + "')", "format-number(%s, '0.' + " + "'0'" + ")",
                   # run-time errors, also ones that only the last / a middle node raises (state built for the nodes before it is left behind)
                   "key('nokey', %s)", "%s + count(self::*[not(following::*)][key('nokey', 'x')])", "%s + count(self::*[count(preceding::*) = 2][key('nokey', 'x')])"]


def hostile_xpath(r, depth=0):
    k = r.random()
    if depth > 4 or k < 0.3:
        return r.choice(HOSTILE_NUMBERS + HOSTILE_STRINGS + ['.', '..', '/', '//*', '@*', '*', 'text()', '$undefined', '$gp', 'node()', 'processing-instruction()', "'x'", '1', 'true()', 'false()', 'position()', 'last()', '-' * r.choice([1, 2, 41, 42, 43, 100]), '(' * r.choice([1, 30]), '/' * r.choice([3, 50]), '|' , '[', '*' * r.choice([2, 40])])
    f = r.choice(XPATH_FRAGMENTS)
    n = f.count('%s')
    return f % tuple(hostile_xpath(r, depth + 1) for _ in range(n))


def mutate_text(r, s, rounds=None):
    """byte / token level damage to an XML text"""
    for _ in range(rounds or r.choice([1, 1, 2, 3, 6])):
        if not s:
            break
        k = r.random()
        i = r.randrange(len(s))
        j = min(len(s), i + r.choice([1, 1, 2, 5, 20, 100]))
        if k < 0.2:
            s = s[:i] + s[j:]
        elif k < 0.35:
            s = s[:i] + s[i:j] * r.choice([2, 3, 50]) + s[j:]
        elif k < 0.5:
            s = s[:i] + r.choice(['<', '>', '&', '"', "'", '/', '{', '}', '[', ']', '(', ')', '\x00', '\x01', '\ufffe', '\ud800'.encode('utf-8', 'surrogatepass').decode('latin-1'), '&#0;', '&#xD800;', '&amp', '<!--', '-->', '<![CDATA[', ']]>', '<?', '?>', '\n', '\t']) + s[i:]
        elif k < 0.62:
            a, b = sorted(r.sample(range(len(s)), 2)) if len(s) > 2 else (0, 0)
            s = s[:a] + s[b:] + s[a:b]
        elif k < 0.74:
            # replace a quoted attribute value by something hostile
            vals = list(re.finditer(r'"[^"<]*"', s))
            if vals:
                m = r.choice(vals)
                s = s[:m.start()] + '"' + r.choice(HOSTILE_NUMBERS + ['', '{', '}', '{{', '$', 'x' * 3000, '../' * 200, 'no:such', '#default', 'yes', '-1', '1e9', '&#10;', 'xml', 'xmlns', ':', 'a:b:c', '*', '//', hostile_xpath(r).replace('"', "'").replace('<', '&lt;').replace('&', '&amp;')]) + '"' + s[m.end():]
        elif k < 0.82:
            names = list(re.finditer(r'xsl:[a-z\-]+', s))
            if names:
                m = r.choice(names)
                s = s[:m.start()] + r.choice(['xsl:template', 'xsl:apply-imports', 'xsl:fallback', 'xsl:sort', 'xsl:with-param', 'xsl:param', 'xsl:import', 'xsl:include', 'xsl:output', 'xsl:key', 'xsl:decimal-format',
                                              'xsl:number', 'xsl:attribute-set', 'xsl:namespace-alias', 'xsl:strip-space', 'xsl:otherwise', 'xsl:when', 'xsl:text', 'xsl:nosuch', 'xsl:stylesheet', 'xsl:transform']) + s[m.end():]
        elif k < 0.9:
            s = s[:i] + s[i:j].upper() + s[j:]
        else:
            s = s[:i] + chr(r.choice([0x80, 0xff, 0x100, 0x2028, 0xfffd, 0x10000, 0xe000])) + s[j:]
    return s


def deep_doc(r):
    n = r.choice([200, 1000, 3000])
    k = r.random()
    if k < 0.4:
        return '<a>' * n + 'x' + '</a>' * n
    if k < 0.6:
        return '<d>' + '<e a="1"/>' * (n * 3) + '</d>'
    if k < 0.8:
        return '<d ' + ' '.join('a%d="%d"' % (i, i) for i in range(n)) + '/>'
    return '<d>' + 'x' * (n * 200) + '<!--' + 'c' * n + '-->' + '<?p ' + 'd' * n + '?></d>'


def deep_sheet(r):
    n = r.choice([50, 300, 1500])
    k = r.random()
    if k < 0.25:
        body = '<xsl:if test="1">' * n + 'x' + '</xsl:if>' * n
    elif k < 0.5:
        body = '<xsl:value-of select="%s1%s"/>' % ('(' * n, ')' * n)
    elif k < 0.7:
        body = '<xsl:value-of select="%s"/>' % ' + '.join(['1'] * n)
    elif k < 0.85:
        body = '<xsl:call-template name="r"><xsl:with-param name="n" select="%d"/></xsl:call-template>' % (n * 4)
        return (HEAD % '') + '<xsl:template match="/">%s</xsl:template><xsl:template name="r"><xsl:param name="n"/><xsl:if test="$n &gt; 0"><a><xsl:call-template name="r"><xsl:with-param name="n" select="$n - 1"/></xsl:call-template></a></xsl:if></xsl:template></xsl:stylesheet>' % body
    else:
        body = '<e>' * n + '<xsl:value-of select="%s"/>' % '/'.join(['*'] * n) + '</e>' * n
    return (HEAD % '') + '<xsl:template match="/">%s</xsl:template></xsl:stylesheet>' % body


# ---- hostile attribute values ------------------------------------------------------------------------------
# Every attribute of every XSLT 1.0 instruction that takes a number, a character, a name, an enumerated
# word or a language / encoding tag, filled with values its type does not allow (or allows only just):
# literally, and for attribute value templates also through a top-level parameter.
V_NUM = ['0', '-0', '-1', '1', '2', '3', '2.5', 'x', '', ' ', '18446744073709551616', '18446744073709551615', '4294967296', '4294967295', '2147483648', '-2147483649', '9' * 40, '1e309', 'NaN', 'Infinity', '0x10', '+3', '3 ', '٣']
V_CHAR = [',', '.', '', ',,', ' ', '0', '#', ';', "'", ' ', '́', '‰', '\U0001d7ce', '퟿', 'ab', '%', '-', 'E', '٠', 'x' * 300]
V_ENUM = ['', 'yes', 'no', 'YES', 'true', '1', 'single', 'multiple', 'any', 'Any', 'text', 'number', 'qname:x', 'x:qname', 'ascending', 'descending', 'upper-first', 'lower-first', 'alphabetic', 'traditional', 'xml', 'html', 'HTML', 'xhtml', ' xml ', 'x' * 2000]
V_NAME = ['', 'a', 'a:b', ':', 'a:', ':b', 'xml', 'xmlns', 'xmlns:a', 'xsl:x', 'x:a', 'nosuch:a', '#default', '1a', 'a b', 'a:b:c', '*', 'é', '\U00010000', 'A' * 5000, '-', 'a.b-c_d', '{', '}}', 'xml:space']
V_LANG = ['', 'en', 'en-US', 'EN', 'x-klingon', 'de_DE', 'zz', 'a' * 300, '-', 'en-', 'ja', 'el', 'he', 'ka', 'th', 'i-default', 'é']
V_ENC = ['', 'UTF-8', 'utf-8', 'UTF-16', 'UTF-16BE', 'UTF-32', 'ISO-8859-1', 'US-ASCII', 'windows-1252', 'EBCDIC-CP-US', 'nosuch', 'x' * 500, 'UTF-7', 'utf8', 'ucs-2', 'SHIFT_JIS', 'iso-2022-jp']
V_FORMAT = ['', '1', '01', '001', 'a', 'A', 'i', 'I', '1.1', '1.a.i', '(1)', '-', '--', ' ', '١', 'あ', 'а', 'α', 'א', 'ა', '๑', '１', '\U0001d7ce', '\U0001d7cf', '0', '00000000000000000000000000000000000000001',
            '1' * 300, '#', '1,1', 'w', 'W', 'Ww', '一', '壹', 'ア', 'イ', '한', 'x1y', '1' + '.1' * 200]
V_VALUE = ['0', '1', '-1', '0.4', '0.5', '1.5', '3999', '4000', '1234567', '1e15', '1e19', '1e30', '1e309', '-1e309', '0 div 0', "'x'", '1 div 0', '9007199254740993', '18446744073709551616', '26', '27', '702', '703', '2147483647', '2147483648', '4294967296', '5000000000', '/..', '//*']
V_PRIO = ['0', '-0.5', '1e309', '-1e309', 'NaN', 'x', '', '1e', '.5', '5.', '+1', '9' * 400, '0.' + '0' * 400 + '1', ' 1 ']
V_URI = ['', 'urn:x', 'http://www.w3.org/1999/XSL/Transform', 'http://www.w3.org/XML/1998/namespace', 'http://www.w3.org/2000/xmlns/', ' ', 'a b', '{', 'é', 'x' * 3000, '#', '%zz']
V_NAMES = ['', 'a', 'a b', 'a  b\tc', '*', 'x:*', 'nosuch:*', 'a:b', '#default', 'xsl', 'x', 'x x x', 'nosuch', ' ', 'A' * 3000, '1', 'a|b']
V_PATTERN = ['//', '/', 'a//', 'a/', '|', 'a|', '|a', '//|a', 'a|//', "id('x')//", "id('x')/", "key('k','v')//", "key('k','v')/a", "id('x')//a", '*[', 'a[1][2]', '@*', '@', 'a/@b/c', '@a/b', 'text()', 'node()', 'node()/node()',
             'processing-instruction()', "processing-instruction('x')", 'processing-instruction(x)', 'comment()', 'a/..', '.', '..', 'a/.', '/*', '//*', '/@a', '//@*', 'child::a', 'attribute::a', 'descendant::a', 'self::a', 'a//b//c',
             'p:*', 'nosuch:a', '*:a', 'x:*', 'a[//b]', 'a[position()=last()]', 'a[last()]', '@a[1]', '$v', 'f()', "id(id('x'))", "key('k', //a)", "key('nosuch', 'v')", '()', '(a)', 'a b', '*|*', '*' * 50, '/' * 7, 'a' + '/a' * 300,
             'a' + '[1]' * 300, 'a[' * 200, '@*[.=.]|node()[..]|/', '', ' ', '///', '//.', '//..', '/..', 'a//.', "id('x')|key('k','v')|/|//a|a//b|@c|text()|comment()|processing-instruction()|node()"]
ATTR_TYPES = {'pattern': V_PATTERN, 'num': V_NUM, 'char': V_CHAR, 'enum': V_ENUM, 'name': V_NAME, 'lang': V_LANG, 'enc': V_ENC, 'format': V_FORMAT, 'value': V_VALUE, 'prio': V_PRIO, 'uri': V_URI, 'names': V_NAMES}
# (element, where: 'body' | 'top' | 'sort' | 'lre' | 'root', [(attribute, type, usual value or None, is an AVT)], content)
INSTRUCTIONS = [
    ('xsl:number', 'body', [('value', 'value', '1234567', False), ('format', 'format', '1', True), ('lang', 'lang', None, True), ('letter-value', 'enum', None, True), ('grouping-separator', 'char', ',', True), ('grouping-size', 'num', '3', True)], ''),
    ('xsl:number', 'body', [('level', 'enum', 'any', False), ('count', 'pattern', None, False), ('from', 'pattern', None, False), ('format', 'format', '1.a', True), ('grouping-separator', 'char', None, True), ('grouping-size', 'num', None, True)], ''),
    ('xsl:sort', 'sort', [('select', 'value', '.', False), ('lang', 'lang', None, True), ('data-type', 'enum', 'text', True), ('order', 'enum', None, True), ('case-order', 'enum', None, True)], ''),
    ('xsl:output', 'top', [('method', 'enum', 'xml', False), ('version', 'num', None, False), ('encoding', 'enc', None, False), ('omit-xml-declaration', 'enum', None, False), ('standalone', 'enum', None, False), ('doctype-public', 'uri', None, False),
                           ('doctype-system', 'uri', None, False), ('cdata-section-elements', 'names', None, False), ('indent', 'enum', None, False), ('media-type', 'uri', None, False), ('xalan:indent-amount', 'num', None, False)], ''),
    ('xsl:decimal-format', 'top', [('name', 'name', None, False), ('decimal-separator', 'char', None, False), ('grouping-separator', 'char', None, False), ('infinity', 'format', None, False), ('minus-sign', 'char', None, False), ('NaN', 'format', None, False),
                                   ('percent', 'char', None, False), ('per-mille', 'char', None, False), ('zero-digit', 'char', None, False), ('digit', 'char', None, False), ('pattern-separator', 'char', None, False)], ''),
    ('xsl:element', 'body', [('name', 'name', 'e', True), ('namespace', 'uri', None, True), ('use-attribute-sets', 'names', None, False)], 'x'),
    ('xsl:attribute', 'body', [('name', 'name', 'a', True), ('namespace', 'uri', None, True)], 'v'),
    ('xsl:processing-instruction', 'body', [('name', 'name', 'p', True)], 'v?>'),
    ('xsl:template', 'top', [('match', 'pattern', '*', False), ('priority', 'prio', None, False), ('mode', 'name', None, False), ('name', 'name', None, False)], 'x'),
    ('xsl:key', 'top', [('name', 'name', 'kk', False), ('match', 'pattern', '*', False), ('use', 'value', '.', False)], ''),
    ('xsl:strip-space', 'top', [('elements', 'names', '*', False)], ''),
    ('xsl:preserve-space', 'top', [('elements', 'names', '*', False)], ''),
    ('xsl:namespace-alias', 'top', [('stylesheet-prefix', 'name', 'x', False), ('result-prefix', 'name', '#default', False)], ''),
    ('xsl:attribute-set', 'top', [('name', 'name', 'as', False), ('use-attribute-sets', 'names', None, False)], '<xsl:attribute name="q">1</xsl:attribute>'),
    ('xsl:apply-templates', 'body', [('select', 'value', '*', False), ('mode', 'name', None, False)], ''),
    ('xsl:call-template', 'body', [('name', 'name', 'r', False)], ''),
    ('xsl:message', 'body', [('terminate', 'enum', 'no', False)], 'm'),
    ('xsl:value-of', 'body', [('select', 'value', '.', False), ('disable-output-escaping', 'enum', None, False)], ''),
    ('xsl:text', 'body', [('disable-output-escaping', 'enum', None, False)], '&lt;t'),
    ('xsl:copy', 'body', [('use-attribute-sets', 'names', None, False)], ''),
    ('xsl:variable', 'body', [('name', 'name', 'vv', False), ('select', 'value', None, False)], ''),
    ('xsl:with-param', 'call', [('name', 'name', 'n', False), ('select', 'value', None, False)], ''),
    ('lre', 'body', [('xsl:version', 'num', None, False), ('xsl:use-attribute-sets', 'names', None, False), ('xsl:exclude-result-prefixes', 'names', None, False), ('xsl:extension-element-prefixes', 'names', None, False), ('xml:space', 'enum', None, False), ('xml:lang', 'lang', None, False)], 'x'),
    ('root', 'root', [('version', 'num', '1.0', False), ('exclude-result-prefixes', 'names', None, False), ('extension-element-prefixes', 'names', None, False), ('id', 'name', None, False), ('xml:space', 'enum', None, False)], ''),
]


def xattr(v):
    return v.replace('&', '&amp;').replace('<', '&lt;').replace('"', '&quot;').replace('\t', '&#9;').replace('\n', '&#10;')


def _place_instruction(el, where, a, content, top, body, sorts, calls, rootattrs):
    if where == 'root':
        rootattrs.append(a)
    elif where == 'top':
        top.append('<%s %s>%s</%s>' % (el, a, content, el))
    elif where == 'sort':
        sorts.append('<%s %s/>' % (el, a))
    elif where == 'call':
        calls.append('<%s %s/>' % (el, a))
    elif el == 'lre':
        body.append('<lit %s>%s</lit>' % (a, content))
    else:
        body.append('<%s %s>%s</%s>' % (el, a, content, el))


def _attribute_frame(top, body, sorts, calls, rootattrs, params):
    decl = ''.join('<xsl:param name="%s"/>' % p for p in sorted(params))
    root = ('<xsl:stylesheet xmlns:xsl="http://www.w3.org/1999/XSL/Transform" xmlns:x="urn:x" xmlns:xalan="http://xml.apache.org/xalan" %s>' % ' '.join(rootattrs)) if rootattrs else \
           '<xsl:stylesheet version="1.0" xmlns:xsl="http://www.w3.org/1999/XSL/Transform" xmlns:x="urn:x" xmlns:xalan="http://xml.apache.org/xalan">'
    sheet = (root + decl + ''.join(top) + '<xsl:template match="/"><out><xsl:for-each select="//*">' + ''.join(sorts) + '<i>' + ''.join(body) +
             '<xsl:call-template name="r">' + ''.join(calls) + '</xsl:call-template><xsl:value-of select="format-number(1234.5, \'#,##0.0\')"/></i></xsl:for-each><xsl:apply-templates select="//node()|//@*"/><xsl:value-of select="count(key(\'kk\', \'a\'))"/></out></xsl:template>'
             '<xsl:template name="r"><xsl:param name="n"/>r</xsl:template></xsl:stylesheet>')
    return sheet


def attribute_sweep_list():
    """every (instruction shape, attribute, hostile value of the attribute's type), literally and - for attribute value templates - through a parameter"""
    out = []
    for ii, (el, where, attrs, content) in enumerate(INSTRUCTIONS):
        for ai, (an, ty, usual, avt) in enumerate(attrs):
            for v in ATTR_TYPES[ty]:
                if el == 'xsl:output' and an == 'xalan:indent-amount' and re.match(r'^[ +]*[0-9]{6,}', v):
                    continue        # legitimately huge work, see hostile_attribute_sheet
                out.append((ii, ai, v, False))
                if avt:
                    out.append((ii, ai, v, True))
    return out


def attribute_sweep_sheet(ii, ai, v, as_param):
    el, where, attrs, content = INSTRUCTIONS[ii]
    top, body, sorts, calls, rootattrs, params, parts = [], [], [], [], [], {}, []
    for i, (an, ty, usual, avt) in enumerate(attrs):
        if i == ai:
            val = v
            if as_param:
                params['hp0'] = v
                val = '{$hp0}'
            elif avt:
                val = v.replace('{', '{{').replace('}', '}}')
        elif usual is not None:
            val = usual
        else:
            continue
        parts.append('%s="%s"' % (an, xattr(val)))
    _place_instruction(el, where, ' '.join(parts), content, top, body, sorts, calls, rootattrs)
    return _attribute_frame(top, body, sorts, calls, rootattrs, params), params, '%s/@%s=%r%s' % (el, attrs[ai][0], v[:40], ' (through a parameter)' if as_param else '')


ATTRIBUTE_SWEEP = attribute_sweep_list()


def hostile_attribute_sheet(r):
    """returns (stylesheet, {parameter: value}, description)"""
    top, body, sorts, calls, rootattrs, params, desc = [], [], [], [], [], {}, []
    for _ in range(r.choice([1, 1, 2, 3])):
        el, where, attrs, content = r.choice(INSTRUCTIONS)
        hostile = set(r.sample(range(len(attrs)), min(len(attrs), r.choice([1, 1, 2, 3]))))
        parts = []
        for i, (an, ty, usual, avt) in enumerate(attrs):
            if i in hostile:
                v = r.choice(ATTR_TYPES[ty])
                if ty == 'value' and el != 'xsl:number' and r.random() < 0.5:
                    v = hostile_xpath(r)
                desc.append('%s/@%s=%r' % (el, an, v[:40]))
                if avt and r.random() < 0.4:
                    pn = 'hp%d' % len(params)
                    params[pn] = v
                    v = '{$%s}' % pn
                elif avt:
                    v = v.replace('{', '{{').replace('}', '}}') if r.random() < 0.7 else v
            elif usual is not None and r.random() < 0.8:
                v = usual
            else:
                continue
            parts.append('%s="%s"' % (an, xattr(v)))
        if el == 'xsl:output':
            # an indentation of 10^6 or more columns is legitimately huge work (an indent amount switches indenting on), not a hostile input;
            # the conversion of such numbers is driven directly instead (kind integer-conversion)
            parts = [x for x in parts if not (x.startswith('xalan:indent-amount="') and re.match(r'^[ +]*[0-9]{6,}', x[21:]))]
        a = ' '.join(parts)
        _place_instruction(el, where, a, content, top, body, sorts, calls, rootattrs)
    sheet = _attribute_frame(top, body, sorts, calls, rootattrs, params)
    return sheet, params, '; '.join(desc)


# ---- every instruction inside every other -----------------------------------------------------------------------
# Containers restrict what their content may produce (an attribute, comment or processing instruction takes text only; a with-param
# takes a value); the engine has a separate path for each combination, entered with every kind of context node.
CONTAINERS = ['<xsl:attribute name="a">@</xsl:attribute>', '<xsl:comment>@</xsl:comment>', '<xsl:processing-instruction name="p">@</xsl:processing-instruction>', '<xsl:variable name="v#">@</xsl:variable><xsl:copy-of select="$v#"/>',
              '<xsl:message>@</xsl:message>', '<e>@</e>', '<xsl:element name="el">@</xsl:element>', '<xsl:copy>@</xsl:copy>', '<xsl:if test="true()">@</xsl:if>', '<xsl:for-each select="SEL">@</xsl:for-each>',
              '<xsl:for-each select="SEL"><xsl:sort select="."/>@</xsl:for-each>', '<xsl:choose><xsl:when test="false()"/><xsl:otherwise>@</xsl:otherwise></xsl:choose>',
              '<xsl:call-template name="r"><xsl:with-param name="n">@</xsl:with-param></xsl:call-template>', '<xsl:apply-templates select="SEL" mode="down"><xsl:with-param name="n">@</xsl:with-param></xsl:apply-templates>',
              '<xsl:value-of select="string-length(.)"/>@', '<nosuch:ext xmlns:nosuch="urn:nosuch" xsl:extension-element-prefixes="nosuch"><xsl:fallback>@</xsl:fallback></nosuch:ext>']
LEAVES = ['<xsl:copy/>', '<xsl:copy><x/></xsl:copy>', '<xsl:copy-of select="."/>', '<xsl:copy-of select="SEL"/>', '<xsl:copy-of select="@*"/>', '<x y="1"/>', '<xsl:element name="q"/>', '<xsl:attribute name="b">v</xsl:attribute>',
          '<xsl:comment>c</xsl:comment>', '<xsl:processing-instruction name="q">d</xsl:processing-instruction>', 'text', '<xsl:text>t</xsl:text>', '<xsl:value-of select="."/>', '<xsl:value-of select="." disable-output-escaping="yes"/>',
          '<xsl:number/>', '<xsl:number level="any" format="a"/>', '<xsl:apply-templates/>', '<xsl:apply-templates select="SEL" mode="down"/>', '<xsl:apply-imports/>', '<xsl:call-template name="r"/>', '<xsl:message>m</xsl:message>',
          '<xsl:variable name="w" select="."/>', '<xsl:copy use-attribute-sets="as"/>', '<x xsl:use-attribute-sets="as"/>', '']
SELECTS = ['/*', '//*', '/', '//@*', '//text()', '//comment()', '//processing-instruction()', '/node()', '//node()', '//namespace::*', '.', '..', '/..', "document('')/*", '$rtf', '$rtf/*', "id('i')"]


def nesting_sheet(r):
    """returns (stylesheet, description): a leaf instruction wrapped in one to four containers, at a generated context node"""
    inner = r.choice(LEAVES).replace('SEL', r.choice(SELECTS))
    names = [re.sub(r'[ >/].*', '', inner)[1:] or 'text']
    for n in range(r.choice([1, 2, 2, 3, 4])):
        c = r.choice(CONTAINERS)
        names.append(re.sub(r'[ >/].*', '', c)[1:])
        inner = c.replace('SEL', r.choice(SELECTS)).replace('#', str(n)).replace('@', inner)
    sheet = ((HEAD % '') + '<xsl:attribute-set name="as"><xsl:attribute name="s">1</xsl:attribute></xsl:attribute-set><xsl:variable name="rtf"><a>1</a>t<!--c--></xsl:variable>'
             '<xsl:template match="/"><out><xsl:for-each select="%s"><i>%s</i></xsl:for-each></out></xsl:template>'
             '<xsl:template name="r"><xsl:param name="n"/><r><xsl:copy-of select="$n"/></r></xsl:template><xsl:template match="node()|@*" mode="down"><xsl:param name="n"/><d><xsl:copy-of select="$n"/></d></xsl:template></xsl:stylesheet>'
             % (r.choice(SELECTS[:10] + ['/*', '//*']), inner))
    return sheet, ' in '.join(names)


def check_reply(res, rp, what, payload, key_hint):
    """monitor (a): success, or failure with a message"""
    if 'escaped' in rp and rp['escaped'].startswith(b'SAXParseException') and payload.get('src') in ('xerceswrap', 'stwrap', 'builder'):
        # in these forms the DRIVER runs the XML parser itself; its error handler throwing is the harness, not the library
        res.count('source_rejected_by_the_harness_parser')
        return
    if 'src_error' in rp:
        res.count('source_rejected_by_the_harness_parser')
        return
    st = rp.get('status')
    if st is None and 'escaped' not in rp:
        if 'error' in rp:
            return
        res.viol('no-status|%s' % key_hint, '%s returns no status: %s' % (what, dict((k, v[:80]) for k, v in rp.items())), payload)
        return
    if 'escaped' in rp:
        res.viol('exception-escapes|%s|%s' % (key_hint, rp['escaped'].decode('utf-8', 'replace').split(':')[0]), '%s lets an exception escape the API: %s' % (what, rp['escaped'][:200]), payload)
        return
    if st != b'0':
        res.count('failures_reported')
        if not rp.get('err', b'').strip():
            res.viol('empty-error|%s' % key_hint, '%s fails with status %s and an empty error message' % (what, st.decode()), payload)
    else:
        res.count('successes')


def case(ctx, idx, res):
    global GOOD_OUT
    r = rng_for(ctx.seed, 'c03', idx)
    d = ctx.drv(FLAVOUR)
    wd = os.path.join(ctx.workdir, 'c03')
    os.makedirs(wd, exist_ok=True)
    t = ctx.cache.get('t')
    if t is None or ctx.cache.get('drv') is not d or not d.alive():
        t = ctx.cache['t'] = d.call(cmd='tnew')['t'].decode()
        ctx.cache['drv'] = d
        ctx.cache['good'] = d.call(cmd='transform', t=t, src='stream', sty='stream', tgt='stream', xml=FOLLOW_XML, xsl=FOLLOW_XSL).get('out')
        ctx.cache['since'] = 0
    kind = r.choice(['mutated-stylesheet', 'mutated-stylesheet', 'mutated-document', 'hostile-xpath-in-stylesheet', 'hostile-xpath-in-stylesheet', 'xpath-entry', 'xpath-entry', 'param', 'deep-document', 'deep-stylesheet',
                     'capi', 'garbage', 'serializer-garbage', 'hostile-uri', 'hostile-uri', 'hostile-attribute', 'hostile-attribute', 'hostile-attribute', 'integer-conversion', 'nesting', 'nesting'])
    xml, info = gen_xml.gen_doc(r, size=r.choice([5, 12, 25]))
    g = gen_xslt.SGen(r, info, avoid=ctx.findings_avoid, max_templates=r.choice([2, 5, 8]), body_depth=r.choice([2, 3]))
    xsl = g.stylesheet()
    res.sig = kind
    res.count('kind_' + kind)
    res.evals = 0
    req = None
    try:
        if kind == 'mutated-stylesheet':
            xsl = mutate_text(r, xsl)
        elif kind == 'mutated-document':
            xml = mutate_text(r, xml)
        elif kind == 'hostile-xpath-in-stylesheet':
            e = hostile_xpath(r).replace('&', '&amp;').replace('<', '&lt;').replace('"', '&quot;')
            where = r.choice(['<xsl:value-of select="%s"/>', '<xsl:for-each select="%s">x</xsl:for-each>', '<xsl:if test="%s">y</xsl:if>', '<a b="{%s}"/>', '<xsl:copy-of select="%s"/>',
                              '<xsl:number value="%s" format="1"/>', '<xsl:number value="%s" format="a" grouping-separator="," grouping-size="3"/>', '<xsl:apply-templates select="%s" mode="down"/>',
                              '<xsl:for-each select="//*"><xsl:sort select="%s" data-type="number"/>z</xsl:for-each>', '<xsl:for-each select="//*"><xsl:sort select="%s"/>z</xsl:for-each>',
                              '<xsl:for-each select="//*"><xsl:sort select="name()"/><xsl:sort select="%s" data-type="number"/>z</xsl:for-each>', '<xsl:variable name="v" select="%s"/><xsl:value-of select="$v"/>',
                              '<xsl:element name="{%s}"/>', '<xsl:attribute name="{%s}">v</xsl:attribute>', '<xsl:processing-instruction name="{%s}">v</xsl:processing-instruction>',
                              '<xsl:message><xsl:value-of select="%s"/></xsl:message>'])
            xsl = (HEAD % '') + '<xsl:param name="gp" select="1"/><xsl:key name="k" match="*" use="name()"/><xsl:template match="/"><out>%s</out></xsl:template></xsl:stylesheet>' % (where % e)
        elif kind == 'hostile-uri':
            segs = ['..', '.', 'a', 'b.xml', '', '%2e%2e', 'x y', '\u00e9', '..' * 3, 'c:']
            u = r.choice(['', '/', '//', 'file:', 'file://', 'file:///', 'http://h/', 'http://h', 'nosuch:', '../', './']) + '/'.join(r.choice(segs) for _ in range(r.choice([1, 3, 8, 30, 120])))
            u += r.choice(['', '', '#f', '?q=1', '/', '/..', '/.'])
            u = u.replace('&', '&amp;').replace('<', '&lt;').replace('"', '&quot;').replace("'", '')
            use = r.choice(['document', 'document2', 'include', 'import', 'pi'])
            if use == 'document':
                xsl = (HEAD % '') + '<xsl:template match="/"><out><xsl:copy-of select="document(\'%s\')"/></out></xsl:template></xsl:stylesheet>' % u
            elif use == 'document2':
                xsl = (HEAD % '') + '<xsl:template match="/"><out><xsl:copy-of select="document(\'%s\', /)"/><xsl:copy-of select="document(//@*)"/></out></xsl:template></xsl:stylesheet>' % u
                xml = '<d a="%s" b="../../../../../../../../../../../x"/>' % u
            elif use == 'include':
                xsl = (HEAD % '') + '<xsl:include href="%s"/><xsl:template match="/"><out/></xsl:template></xsl:stylesheet>' % u
            elif use == 'import':
                xsl = (HEAD % '') + '<xsl:import href="%s"/><xsl:template match="/"><out/></xsl:template></xsl:stylesheet>' % u
            else:
                xml = '<?xml-stylesheet type="text/xsl" href="%s"?><d/>' % u
            base = r.choice(['file:///tmp/a/b.xsl', 'file:///b.xsl', '/tmp/b.xsl', 'b.xsl', 'http://h/a/b.xsl', '', 'file:///tmp/a/b/c/d.xsl'])
            rp = d.call(cmd='transform', t=t, src='stream', sty='pi' if use == 'pi' else 'stream', tgt='stream', xml=xml.encode('utf-8'), xsl=xsl.encode('utf-8'), xslsysid=base, xmlsysid=base.replace('.xsl', '.xml'))
            res.evals += 1
            res.count('uri_cases')
            check_reply(res, rp, 'transformation resolving the reference %r against %r (%s)' % (u[:120], base, use), {'kind': kind, 'stylesheet': xsl, 'document': xml, 'base': base}, 'uri')
            kind_done = True
        elif kind == 'hostile-attribute':
            xsl, hp, what = hostile_attribute_sheet(r)
            for pn, pv in hp.items():
                d.call(cmd='param', t=t, kind='xstr', name=pn, value=pv.encode('utf-8', 'surrogatepass'))
            sty = r.choice(['stream', 'compiled'])
            rp = d.call(cmd='transform', t=t, src='stream', sty=sty, tgt='stream', xml=GOOD_XML, xsl=xsl.encode('utf-8', 'surrogatepass'))
            res.evals += 1
            res.count('attribute_cases')
            check_reply(res, rp, 'transformation with %s' % what, {'kind': kind, 'stylesheet': xsl, 'document': GOOD_XML, 'params': hp, 'sty': sty}, 'attribute')
            if hp:
                d.call(cmd='param', t=t, kind='clear', name='', value='')
        elif kind == 'nesting':
            xsl, what = nesting_sheet(r)
            xml = '<!DOCTYPE doc [<!ATTLIST a id ID #IMPLIED>]><?top p?><doc xmlns:n="urn:n"><a id="i" x="1"><b/>t<!--c--><?pi d?></a><c/></doc>'
            src, sty, tgt = r.choice(['stream', 'parsed', 'parsedx']), r.choice(['stream', 'compiled']), r.choice(['stream', 'stream', 'dom', 'callback'])
            if tgt == 'callback':
                src, sty = 'parsed', 'compiled'
            rp = d.call(cmd='transform', t=t, src=src, sty=sty, tgt=tgt, xml=xml, xsl=xsl.encode('utf-8'))
            res.evals += 1
            res.count('nesting_cases')
            check_reply(res, rp, 'transformation with %s' % what, {'kind': kind, 'stylesheet': xsl, 'document': xml, 'src': src, 'sty': sty, 'tgt': tgt}, 'nesting')
        elif kind == 'integer-conversion':
            # the string -> int / long / unsigned long conversions behind xalan:indent-amount, grouping-size and friends, called directly:
            # values around every power of two and ten that matters, signs, padding, and damaged forms
            items = []
            for _ in range(40):
                base = r.choice([2 ** 31, 2 ** 32, 2 ** 63, 2 ** 64, 10 ** 9, 10 ** 10, 10 ** 18, 10 ** 19, 10 ** 20, 214748364, 922337203685477580, 1844674407370955161, 0, 7, 10 ** 40]) + r.choice([-2, -1, 0, 1, 2, 5, 9])
                v = str(abs(base))
                v = r.choice(['', '-', ' -', '\t', '0', '000', '+']) + v + r.choice(['', '', ' ', '.0', '.', 'e1', 'x', '\n', ' 1', '0', '9'])
                items.append(r.choice(V_NUM) if r.random() < 0.2 else v)
            for op in ('s2i', 's2l', 's2ul'):
                rp = d.call(cmd='num', op=op, **{'in': ''.join(i.encode('utf-8').hex() + '\n' for i in items)})
                res.evals += 1
                got = rp.get('out', b'').decode().split('\n')[:len(items)]
                if len(got) != len(items) or not all(re.match(r'^-?[0-9]+$', g) for g in got):
                    res.viol('no-status|integer-conversion', '%s: %d strings in, reply %r' % (op, len(items), rp), {'kind': kind, 'op': op, 'items': items})
                res.count('integer_conversions', len(items))
        elif kind == 'deep-document':
            xml = deep_doc(r)
            if r.random() < 0.7:
                # mostly with stylesheets whose work is linear in the document: a generated one with keys over every string value and
                # // inside predicates is legitimately cubic on 9 000 siblings, and only produces time-outs
                xsl = (HEAD % '') + r.choice([
                    '<xsl:template match="@*|node()"><xsl:copy><xsl:apply-templates select="@*|node()"/></xsl:copy></xsl:template>',
                    '<xsl:template match="/"><o><xsl:value-of select="count(//node()) + count(//@*)"/><xsl:value-of select="string-length(.)"/></o></xsl:template>',
                    '<xsl:template match="/"><o><xsl:copy-of select="."/></o></xsl:template>',
                    '<xsl:template match="*"><e n="{count(ancestor::*)}"><xsl:apply-templates select="*[1]|@*[1]"/></e></xsl:template><xsl:template match="@*"><xsl:value-of select="name()"/></xsl:template>',
                    '<xsl:template match="/"><o><xsl:for-each select="(//*)[last()]"><xsl:value-of select="count(ancestor-or-self::*)"/><xsl:number level="multiple"/></xsl:for-each></o></xsl:template>',
                    '<xsl:template match="/"><o><xsl:for-each select="//*[not(*)][1]/ancestor::*"><xsl:sort select="count(ancestor::*)" data-type="number" order="descending"/><i/></xsl:for-each></o></xsl:template>',
                ]) + '</xsl:stylesheet>'
        elif kind == 'deep-stylesheet':
            xsl = deep_sheet(r)
        elif kind == 'garbage':
            blob = bytes(r.randrange(256) for _ in range(r.choice([0, 1, 10, 200, 3000])))
            if r.random() < 0.5:
                xsl = blob.decode('latin-1')
            else:
                xml = blob.decode('latin-1')
        payload = {'kind': kind, 'stylesheet': xsl[:20000], 'document': xml[:20000]}
        if kind == 'xpath-entry':
            e = hostile_xpath(r) if r.random() < 0.6 else gen_xpath.mutate_invalid(r, hostile_xpath(r))
            h = d.call(cmd='xdoc', xml=GOOD_XML, xerces=r.choice([0, 1]))
            res.evals += 1
            if 'doc' in h:
                hd = h['doc'].decode()
                try:
                    for entry in r.sample(['generic', 'bool', 'num', 'str', 'nodelist', 'all'], 2):
                        rp = d.call(cmd='xpath', doc=hd, expr=e.encode('utf-8', 'replace'), ctx='/0', ctxlist='/0', entry=entry, ns='', vars='gp\x1fstr\x1f1\x1e')
                        res.evals += 1
                        res.count('xpath_calls')
                        if 'escaped' in rp:
                            res.viol('exception-escapes|xpath|%s' % rp['escaped'].decode('utf-8', 'replace').split(':')[0], 'XPath %r (%s entry point): exception escapes: %s' % (e[:200], entry, rp['escaped'][:200]), {'expr': e})
                finally:
                    d.call(cmd='xdocdel', doc=hd)
        elif kind == 'param':
            name = r.choice(['gp', 'p0', 'x:y', '', '{urn:x}p', 'a b'])
            val = hostile_xpath(r) if r.random() < 0.7 else gen_xpath.mutate_invalid(r, hostile_xpath(r))
            d.call(cmd='param', t=t, kind=r.choice(['expr', 'cexpr']), name=name, value=val.encode('utf-8', 'replace'))
            psheet = (HEAD % '') + '<xsl:param name="gp" select="0"/><xsl:param name="p0"/><xsl:template match="/"><out a="{$gp}"><xsl:copy-of select="$p0"/></out></xsl:template></xsl:stylesheet>'
            rp = d.call(cmd='transform', t=t, src='stream', sty='stream', tgt='stream', xml=GOOD_XML, xsl=psheet)
            res.evals += 1
            check_reply(res, rp, 'transformation with top-level parameter %r = %r' % (name, val[:100]), {'param': name, 'value': val, 'stylesheet': psheet}, 'param')
            d.call(cmd='param', t=t, kind='clear', name='', value='')
        elif kind == 'capi':
            xp, sp, op = [os.path.join(wd, n) for n in ('in.xml', 'in.xsl', 'out.bin')]
            if r.random() < 0.5:
                xsl = mutate_text(r, xsl)
            else:
                xml = mutate_text(r, xml)
            open(xp, 'wb').write(xml.encode('utf-8', 'surrogateescape'))
            open(sp, 'wb').write(xsl.encode('utf-8', 'surrogateescape'))
            form = r.choice(['tofile', 'todata', 'tohandler', 'tofile_prebuilt', 'todata_prebuilt', 'tohandler_prebuilt'])
            rp = d.call(cmd='capi', form=form, fromstream=r.choice(['0', '1']), xml=xml.encode('utf-8', 'surrogateescape'), xsl=xsl.encode('utf-8', 'surrogateescape'), xmlpath=xp, xslpath=sp, outpath=op, params=b'')
            res.evals += 1
            check_reply(res, rp, 'C API %s' % form, payload, 'capi')
        elif kind == 'serializer-garbage':
            units = [r.choice([0x20, 0x41, 0x3c, 0x26, 0x5d, 0x3e, 0xd, 0xa, 0x9, 0x0, 0x1, 0x7f, 0x85, 0x2028, 0xd800, 0xdbff, 0xdc00, 0xdfff, 0xfffe, 0xffff, 0xe9, 0x20ac]) for _ in range(r.choice([1, 3, 10, 600, 1100]))]
            s = ''.join(chr(u) for u in units)
            hx = lambda v: v.encode('utf-8', 'surrogatepass').hex() or '-'
            ops = r.choice(['T', 'D', 'M', 'R'])
            script = '\n'.join(['S ' + hx('r') + ' ' + hx('a') + ' ' + hx(s[:50]), ops + ' ' + hx(s), 'P ' + hx('pi') + ' ' + hx(s[:30]), 'E ' + hx('r')])
            rp = d.call(cmd='ser', which=r.choice(['factory', 'fxml', 'html', 'text']), enc=r.choice(['UTF-8', 'UTF-16', 'ISO-8859-1', 'US-ASCII', 'UTF-32', 'windows-1252', 'nosuch']), ver=r.choice(['1.0', '1.1']),
                        indent=r.choice(['0', '1']), script=script)
            res.evals += 1
            res.count('serializer_calls')
        elif kind in ('hostile-uri', 'hostile-attribute', 'integer-conversion', 'nesting'):
            pass
        else:
            src = r.choice(['stream', 'stream', 'parsed', 'parsedx', 'builder', 'xerceswrap'])
            sty = r.choice(['stream', 'compiled'])
            tgt = r.choice(['stream', 'stream', 'dom', 'callback'])
            if tgt == 'callback':
                src, sty = ('stream', 'stream') if r.random() < 0.5 else ('parsed', 'compiled')
            extra = {}
            if tgt == 'callback' and r.random() < 0.4:
                # the target refuses the data after so many bytes: the failure of the sink meets whatever the hostile input does to the transformation
                extra['cbfail'] = str(r.choice([0, 1, 7, 64, 600]))
                res.count('refusing_callbacks')
            rp = d.call(cmd='transform', t=t, src=src, sty=sty, tgt=tgt, xml=xml.encode('utf-8', 'surrogateescape'), xsl=xsl.encode('utf-8', 'surrogateescape'), **extra)
            res.evals += 1
            check_reply(res, rp, 'transformation (%s, %s -> %s%s)' % (src, sty, tgt, ' refusing after %s bytes' % extra['cbfail'] if extra else ''), dict(payload, src=src, **extra), kind)
        # monitor (b): the transformer is still usable
        ctx.cache['since'] += 1
        if kind not in ('xpath-entry', 'capi', 'serializer-garbage'):
            rp = d.call(cmd='transform', t=t, src='stream', sty='stream', tgt='stream', xml=FOLLOW_XML, xsl=FOLLOW_XSL)
            res.evals += 1
            if rp.get('status') != b'0' or rp.get('out') != ctx.cache['good']:
                res.viol('unusable-after|%s' % kind, 'after a %s case the same transformer no longer performs a known-good transformation: status %s, %r' % (kind, rp.get('status'), (rp.get('err') or rp.get('out') or b'')[:200]), payload)
                ctx.cache['t'] = None
            else:
                res.count('still_usable')
        if ctx.cache['since'] > 200 and ctx.cache.get('t'):
            d.call(cmd='tdel', t=t)
            ctx.cache['t'] = None
    except DriverDied as e:
        ctx.cache['t'] = None
        e.request = dict(e.request or {}, kind=kind)
        raise
    res.sample = {'kind': kind}


# ---- runs of operator tokens, exhaustively ---------------------------------------------------------------------------
# What a damaged expression compiles to, and whether reading it stays inside the compiled form, depends on the exact number of tokens
# (the two defects of this kind that libFuzzer found needed 42 minus signs and 16 asterisks).  Every frame x every unit x every
# length 1..140, plus a tail token.
SWEEP_FRAMES = ['%s', 'e=%s', '1%s', '%s1', 'id(%s)', '(%s)', 'a[%s]', 'nosuch(%s)', '-(%s)', 'count(%s)', '%s|a', 'a/%s', '$gp%s', "'s'%s", 'a[1][%s]', 'key(%s)', '(1 + %s)', 'concat(%s,%s)']
SWEEP_UNITS = ['-', '*', '+', '/', '|', '=', '<', '!=', ' div ', ' or ', '-*', '*-', '(', ')', '[', ']', '..', '.', '@', '::', ',', '$', '- -', '*+', '|/']
SWEEP_TAILS = ['', '-', ')', '1', '*', 'a']


def sweep_case(ctx, idx, res):
    d = ctx.drv(FLAVOUR)
    frame, unit = SWEEP_FRAMES[idx // len(SWEEP_UNITS)], SWEEP_UNITS[idx % len(SWEEP_UNITS)]
    res.sig = 'operator-sweep'
    res.evals = 0
    h = d.call(cmd='xdoc', xml=GOOD_XML, xerces=0)
    if 'doc' not in h:
        res.inconclusive.append('harness-exception: no document')
        return
    hd = h['doc'].decode()
    try:
        for L2 in range(2, 282):
            # every length without a tail, and with one of the tail tokens in turn
            L = L2 // 2
            tail = '' if L2 % 2 == 0 else SWEEP_TAILS[1 + (L + idx + ctx.seed) % (len(SWEEP_TAILS) - 1)]
            e = frame.replace('%s', unit * L + tail)
            try:
                rp = d.call(cmd='xpath', doc=hd, expr=e.encode('utf-8'), ctx='/0', ctxlist='/0', entry='generic' if L % 2 else 'all', ns='', vars='gp\x1fstr\x1f1\x1e')
            except DriverDied as ex:
                ex.request = dict(ex.request or {}, kind='operator-sweep')
                raise
            res.evals += 1
            res.count('operator_runs')
            if 'escaped' in rp:
                res.viol('exception-escapes|xpath|%s' % rp['escaped'].decode('utf-8', 'replace').split(':')[0], 'XPath %r: exception escapes: %s' % (e[:200], rp['escaped'][:200]), {'expr': e})
    finally:
        if d.alive():
            d.call(cmd='xdocdel', doc=hd)
    res.sample = {'kind': 'operator-sweep', 'frame': frame, 'unit': unit}


NEST_XML = '<!DOCTYPE doc [<!ATTLIST a id ID #IMPLIED>]><?top p?><doc xmlns:n="urn:n"><a id="i" x="1"><b/>t<!--c--><?pi d?></a><c/></doc>'
OUTER = ['/*', '//*', '/', '//@*', '//text()', '//comment()', '//processing-instruction()', '/node()', '//node()', '//namespace::*', '$rtf/node()', "document('')//node()[position() < 9]"]


def leaf_sweep_case(ctx, idx, res):
    """every leaf instruction at every kind of context node (incl. the nodes only a Xerces DOM has), bare and inside one container, for the
    three ways a source tree is built"""
    d = ctx.drv(FLAVOUR)
    leaf, outer = LEAVES[idx // len(OUTER)], OUTER[idx % len(OUTER)]
    res.sig = 'leaf-sweep'
    res.evals = 0
    t = d.call(cmd='tnew')['t'].decode()
    try:
        for k, src in enumerate(['stream', 'parsed', 'parsedx']):
            for cont in ('@', CONTAINERS[(idx + k + ctx.seed) % len(CONTAINERS)]):
                inner = cont.replace('SEL', '.').replace('#', '0').replace('@', leaf.replace('SEL', '.'))
                xsl = ((HEAD % '') + '<xsl:attribute-set name="as"><xsl:attribute name="s">1</xsl:attribute></xsl:attribute-set><xsl:variable name="rtf"><a>1</a>t<!--c--></xsl:variable>'
                       '<xsl:template match="/"><out><xsl:for-each select="%s"><i>%s</i></xsl:for-each></out></xsl:template>'
                       '<xsl:template name="r"><xsl:param name="n"/><r><xsl:copy-of select="$n"/></r></xsl:template><xsl:template match="node()|@*" mode="down"><xsl:param name="n"/><d><xsl:copy-of select="$n"/></d></xsl:template></xsl:stylesheet>'
                       % (outer, inner))
                try:
                    rp = d.call(cmd='transform', t=t, src=src, sty='stream', tgt='stream', xml=NEST_XML, xsl=xsl.encode('utf-8'))
                except DriverDied as ex:
                    ex.request = dict(ex.request or {}, kind='leaf-sweep')
                    raise
                res.evals += 1
                res.count('leaf_sweep_transformations')
                check_reply(res, rp, 'transformation with %s at %s (source %s)' % (leaf[:40], outer, src), {'kind': 'leaf-sweep', 'stylesheet': xsl, 'document': NEST_XML, 'src': src}, 'leaf-sweep')
    finally:
        if d.alive():
            d.call(cmd='tdel', t=t)
    res.sample = {'kind': 'leaf-sweep', 'leaf': leaf[:40], 'context': outer}


# every element of the XSLT vocabulary (and one that does not exist), valid in itself, ...
VOCABULARY = ['<xsl:apply-imports/>', '<xsl:apply-templates/>', '<xsl:attribute name="a">v</xsl:attribute>', '<xsl:attribute-set name="s2"/>', '<xsl:call-template name="r"/>',
              '<xsl:choose><xsl:when test="1">w</xsl:when></xsl:choose>', '<xsl:comment>c</xsl:comment>', '<xsl:copy/>', '<xsl:copy-of select="."/>', '<xsl:decimal-format name="d2"/>', '<xsl:element name="el2"/>',
              '<xsl:fallback>f</xsl:fallback>', '<xsl:for-each select="*">e</xsl:for-each>', '<xsl:if test="1">i</xsl:if>', '<xsl:import href="nosuch.xsl"/>', '<xsl:include href="nosuch.xsl"/>',
              '<xsl:key name="k2" match="a" use="."/>', '<xsl:message>m</xsl:message>', '<xsl:namespace-alias stylesheet-prefix="xsl" result-prefix="#default"/>', '<xsl:number/>', '<xsl:otherwise>o</xsl:otherwise>',
              '<xsl:output method="xml"/>', '<xsl:param name="pp" select="1"/>', '<xsl:param name="pq">x</xsl:param>', '<xsl:preserve-space elements="a"/>', '<xsl:processing-instruction name="q">d</xsl:processing-instruction>',
              '<xsl:sort select="."/>', '<xsl:sort/>', '<xsl:strip-space elements="a"/>', '<xsl:stylesheet version="1.0"/>', '<xsl:template match="zz">z</xsl:template>', '<xsl:template name="zn"/>', '<xsl:text>t</xsl:text>',
              '<xsl:transform version="1.0"/>', '<xsl:value-of select="."/>', '<xsl:variable name="vv" select="1"/>', '<xsl:variable name="vw">x</xsl:variable>', '<xsl:when test="1">w</xsl:when>',
              '<xsl:with-param name="n" select="1"/>', '<xsl:with-param name="n">x</xsl:with-param>', '<xsl:nosuch/>', '<xsl:nosuch><xsl:fallback>f</xsl:fallback></xsl:nosuch>']
# ... in every place of a stylesheet: '@' inside the root template, '^' at the top level
PLACES = ['@', 'x@', '@x', '<e/>@', '^'] + CONTAINERS + [
    '<xsl:choose>@</xsl:choose>', '<xsl:choose><xsl:when test="1">w</xsl:when>@</xsl:choose>', '<xsl:call-template name="r">@</xsl:call-template>', '<xsl:apply-templates select="*" mode="down">@</xsl:apply-templates>',
    '<xsl:text>@</xsl:text>', '<xsl:value-of select=".">@</xsl:value-of>', '<xsl:copy-of select=".">@</xsl:copy-of>', '<xsl:number>@</xsl:number>', '<xsl:apply-imports>@</xsl:apply-imports>',
    '<xsl:for-each select="*"><xsl:sort select=".">@</xsl:sort></xsl:for-each>', '<xsl:call-template name="r"><xsl:with-param name="n" select="1">@</xsl:with-param></xsl:call-template>',
    '<xsl:nosuch>@<xsl:fallback>f</xsl:fallback></xsl:nosuch>', '^<xsl:attribute-set name="as2">@</xsl:attribute-set>', '^<xsl:key name="k3" match="a" use=".">@</xsl:key>', '^<xsl:output>@</xsl:output>',
    '^<xsl:param name="tp">@</xsl:param>', '^<xsl:variable name="tv">@</xsl:variable>', '^<xsl:template name="t2"><xsl:param name="a1"/>@</xsl:template>', '^<xsl:template match="b">b@</xsl:template>',
    '^<xsl:decimal-format name="d3">@</xsl:decimal-format>', '^<xsl:import href="x.xsl">@</xsl:import>', '^<xsl:strip-space elements="b">@</xsl:strip-space>', '^<lre>@</lre>', '^<n:lre xmlns:n="urn:n">@</n:lre>']


def attribute_sweep_case(ctx, idx, res):
    """every hostile value of every attribute of the 25 instruction shapes, one at a time (the generated family combines them at random)"""
    d = ctx.drv(FLAVOUR)
    ii, ai, v, as_param = ATTRIBUTE_SWEEP[idx]
    xsl, hp, what = attribute_sweep_sheet(ii, ai, v, as_param)
    res.sig = 'attribute-sweep'
    res.evals = 0
    t = d.call(cmd='tnew')['t'].decode()
    try:
        for pn, pv in hp.items():
            d.call(cmd='param', t=t, kind='xstr', name=pn, value=pv.encode('utf-8', 'surrogatepass'))
        try:
            rp = d.call(cmd='transform', t=t, src='stream', sty='stream', tgt='stream', xml=GOOD_XML, xsl=xsl.encode('utf-8', 'surrogatepass'))
        except DriverDied as ex:
            ex.request = dict(ex.request or {}, kind='attribute-sweep')
            raise
        res.evals += 1
        res.count('attribute_sweep_transformations')
        check_reply(res, rp, 'transformation with %s' % what, {'kind': 'attribute-sweep', 'stylesheet': xsl, 'document': GOOD_XML, 'params': hp}, 'attribute-sweep')
        if hp:
            d.call(cmd='param', t=t, kind='clear', name='', value='')
        rp = d.call(cmd='transform', t=t, src='stream', sty='stream', tgt='stream', xml=FOLLOW_XML, xsl=FOLLOW_XSL)
        res.evals += 1
        if rp.get('status') != b'0' or rp.get('out') != follow_expected(ctx, d):
            res.viol('unusable-after|attribute-sweep', 'after %s the same transformer no longer performs a known-good transformation: status %s, %r' % (what, rp.get('status'), (rp.get('err') or rp.get('out') or b'')[:200]),
                     {'kind': 'attribute-sweep', 'stylesheet': xsl})
    finally:
        if d.alive():
            d.call(cmd='tdel', t=t)
    res.sample = {'kind': 'attribute-sweep', 'what': what}


def misplaced_sweep_case(ctx, idx, res):
    """every element of the XSLT vocabulary in every place of a stylesheet, allowed or not: compiled and, where it compiles, run; then the follow-up"""
    d = ctx.drv(FLAVOUR)
    el, place = VOCABULARY[idx // len(PLACES)], PLACES[idx % len(PLACES)]
    top = ''
    if place.startswith('^'):
        top, body = place[1:].replace('@', el) if '@' in place else el, '<xsl:copy-of select="$tv"/><xsl:apply-templates/>'
    else:
        body = place.replace('SEL', '*').replace('#', '0').replace('@', el)
    xsl = ((HEAD % '') + top + '<xsl:attribute-set name="as"><xsl:attribute name="s">1</xsl:attribute></xsl:attribute-set><xsl:variable name="rtf"><a>1</a>t<!--c--></xsl:variable>'
           '<xsl:template match="/"><out>%s</out></xsl:template>'
           '<xsl:template name="r"><xsl:param name="n"/><r><xsl:copy-of select="$n"/></r></xsl:template><xsl:template match="node()|@*" mode="down"><xsl:param name="n"/><d><xsl:copy-of select="$n"/></d></xsl:template></xsl:stylesheet>' % body)
    if place.startswith('^') and '$tv' in body and 'name="tv"' not in top:
        xsl = xsl.replace('<xsl:copy-of select="$tv"/>', '')
    res.sig = 'misplaced-sweep'
    res.evals = 0
    t = d.call(cmd='tnew')['t'].decode()
    try:
        for src, sty in (('stream', 'stream'), ('parsed', 'compiled')):
            try:
                rp = d.call(cmd='transform', t=t, src=src, sty=sty, tgt='stream', xml=NEST_XML, xsl=xsl.encode('utf-8'))
            except DriverDied as ex:
                ex.request = dict(ex.request or {}, kind='misplaced-sweep')
                raise
            res.evals += 1
            res.count('misplaced_sweep_transformations')
            check_reply(res, rp, 'transformation with %s placed in %s' % (el[:40], place[:60]), {'kind': 'misplaced-sweep', 'stylesheet': xsl, 'document': NEST_XML, 'src': src}, 'misplaced-sweep')
        rp = d.call(cmd='transform', t=t, src='stream', sty='stream', tgt='stream', xml=FOLLOW_XML, xsl=FOLLOW_XSL)
        res.evals += 1
        if rp.get('status') != b'0' or rp.get('out') != follow_expected(ctx, d):
            res.viol('unusable-after|misplaced-sweep', 'after %s placed in %s the same transformer no longer performs a known-good transformation: status %s, %r' % (el[:40], place[:60], rp.get('status'), (rp.get('err') or rp.get('out') or b'')[:200]),
                     {'kind': 'misplaced-sweep', 'stylesheet': xsl})
    finally:
        if d.alive():
            d.call(cmd='tdel', t=t)
    res.sample = {'kind': 'misplaced-sweep', 'element': el[:40], 'place': place[:60]}


def follow_expected(ctx, d):
    """the result of the follow-up transformation on a fresh transformer (once per driver process)"""
    if ctx.cache.get('follow_drv') is not d or 'follow' not in ctx.cache:
        f = d.call(cmd='tnew')['t'].decode()
        ctx.cache['follow'] = d.call(cmd='transform', t=f, src='stream', sty='stream', tgt='stream', xml=FOLLOW_XML, xsl=FOLLOW_XSL).get('out')
        d.call(cmd='tdel', t=f)
        ctx.cache['follow_drv'] = d
    return ctx.cache['follow']


PATTERN_SLOTS = [('<xsl:template match="%s">m</xsl:template>', '<xsl:apply-templates select="//node()|//@*"/>'),
                 ('<xsl:key name="kk" match="%s" use="name()"/>', '<xsl:value-of select="count(key(\'kk\', \'a\'))"/><xsl:for-each select="//*"><xsl:value-of select="count(key(\'kk\', name()))"/></xsl:for-each>'),
                 ('', '<xsl:for-each select="//node()|//@*"><xsl:number level="any" count="%s"/>,<xsl:number level="multiple" count="%s"/>,<xsl:number count="%s"/></xsl:for-each>'),
                 ('', '<xsl:for-each select="//node()|//@*"><xsl:number level="any" from="%s"/>,<xsl:number level="multiple" from="%s" count="*"/>,<xsl:number from="%s"/></xsl:for-each>')]


def pattern_sweep_case(ctx, idx, res):
    """every hostile pattern in every place that takes a pattern, compiled and then matched against every node of a document"""
    d = ctx.drv(FLAVOUR)
    pat = V_PATTERN[idx // len(PATTERN_SLOTS)]
    top, body = PATTERN_SLOTS[idx % len(PATTERN_SLOTS)]
    e = xattr(pat)
    xsl = (HEAD % '') + top.replace('%s', e) + '<xsl:template match="/"><out>' + body.replace('%s', e) + '</out></xsl:template></xsl:stylesheet>'
    res.sig = 'pattern-sweep'
    res.evals = 0
    t = d.call(cmd='tnew')['t'].decode()
    try:
        for src, sty in (('stream', 'stream'), ('parsedx', 'compiled')):
            try:
                rp = d.call(cmd='transform', t=t, src=src, sty=sty, tgt='stream', xml=NEST_XML, xsl=xsl.encode('utf-8'))
            except DriverDied as ex:
                ex.request = dict(ex.request or {}, kind='pattern-sweep')
                raise
            res.evals += 1
            res.count('pattern_sweep_transformations')
            check_reply(res, rp, 'transformation with the pattern %r' % pat[:60], {'kind': 'pattern-sweep', 'stylesheet': xsl, 'document': NEST_XML, 'src': src}, 'pattern-sweep')
    finally:
        if d.alive():
            d.call(cmd='tdel', t=t)
    res.sample = {'kind': 'pattern-sweep', 'pattern': pat[:60]}


# hostile document type declarations: names, defaults and entities that the parser accepts or refuses, and that a DOM being built may refuse later
DTD_NAMES = ['a', 'doc', '\U00010000', 'x:y', 'x:y:z', ':', '_', 'xml', 'xmlns', 'xml:space', 'a.b-c', '\u00e9', '\u0300', '1a', 'a' * 2000, '\ufffd']
DTD_DECLS = ['<!ATTLIST %(n)s id ID #IMPLIED>', '<!ATTLIST %(n)s %(m)s CDATA "d&lt;&#10;&#x10000;">', '<!ATTLIST doc %(n)s CDATA #FIXED "f">', '<!ATTLIST doc xmlns:%(m)s CDATA "urn:dflt">', '<!ATTLIST doc xmlns CDATA "urn:d">',
             '<!ELEMENT %(n)s ANY>', '<!ELEMENT doc (#PCDATA|%(n)s)*>', '<!ENTITY %(m)s "text&#60;e/&#62;">', '<!ENTITY %(m)s "&%(m)s;">', '<!ENTITY %(m)s SYSTEM "nosuch.ent">', '<!ENTITY %(m)s SYSTEM "nosuch.gif" NDATA %(n)s>',
             '<!NOTATION %(n)s SYSTEM "n">', '<!ENTITY %% %(m)s "<!ATTLIST doc p CDATA \'q\'>"> %%%(m)s;', '<!ATTLIST doc a IDREFS "x y" b ENTITY #IMPLIED c NMTOKENS "1 2" d (u|v) "u" e NOTATION (%(n)s) #IMPLIED>',
             '<?pi in-dtd?>', '<!-- comment in the subset -->', '<!ATTLIST doc xml:space (default|preserve) "preserve" xml:lang CDATA "en">', '<!ATTLIST doc id ID #REQUIRED>', '<!ATTLIST doc i1 ID #IMPLIED i2 ID #IMPLIED>']


def dtd_case(ctx, idx, res):
    r = rng_for(ctx.seed, 'c03dtd', idx)
    d = ctx.drv(FLAVOUR)
    res.sig = 'hostile-dtd'
    res.evals = 0
    decls = ''.join(r.choice(DTD_DECLS) % {'n': r.choice(DTD_NAMES), 'm': r.choice(['e1', 'p', '\U00010000', 'x:y', 'a' * 300])} for _ in range(r.choice([1, 2, 3, 5])))
    body = r.choice(['<doc/>', '<doc a="1">&e1;</doc>', '<doc>&p;<a id="i"/></doc>', '<doc><a/>t</doc>', '<doc b="e1" e="n"/>', '<doc xmlns:p="urn:x"><p:a/></doc>'])
    xml = '<?xml version="1.0"?><!DOCTYPE doc %s[%s]>%s' % (r.choice(['', 'SYSTEM "nosuch.dtd" ', 'PUBLIC "-//x//y" "nosuch.dtd" ']), decls, body)
    xsl = (HEAD % '') + r.choice(['<xsl:template match="@*|node()"><xsl:copy><xsl:apply-templates select="@*|node()"/></xsl:copy></xsl:template>',
                                  '<xsl:template match="/"><o n="{count(//node())}" a="{count(//@*)}" u="{unparsed-entity-uri(\'e1\')}" i="{count(id(\'i x y\'))}"><xsl:copy-of select="/"/><xsl:for-each select="/node()"><xsl:number/></xsl:for-each></o></xsl:template>'])
    xsl += '</xsl:stylesheet>'
    t = d.call(cmd='tnew')['t'].decode()
    try:
        for src in r.sample(['stream', 'parsed', 'parsedx', 'xerceswrap', 'stwrap', 'builder'], 3):
            try:
                rp = d.call(cmd='transform', t=t, src=src, sty='stream', tgt=r.choice(['stream', 'dom']), xml=xml.encode('utf-8'), xsl=xsl.encode('utf-8'))
            except DriverDied as ex:
                ex.request = dict(ex.request or {}, kind='hostile-dtd')
                raise
            res.evals += 1
            res.count('dtd_transformations')
            check_reply(res, rp, 'transformation of a document with the subset %r supplied as %s' % (decls[:120], src), {'kind': 'hostile-dtd', 'stylesheet': xsl, 'document': xml, 'src': src}, 'hostile-dtd')
    finally:
        if d.alive():
            d.call(cmd='tdel', t=t)
    res.sample = {'kind': 'hostile-dtd'}


# ---- coverage-guided phase (thorough tier) ---------------------------------------------------------------
DICT = ['xsl:template', 'xsl:apply-templates', 'xsl:value-of', 'xsl:for-each', 'xsl:sort', 'xsl:number', 'xsl:key', 'xsl:variable', 'xsl:param', 'xsl:copy', 'xsl:copy-of', 'xsl:attribute', 'xsl:element',
        'xsl:output', 'xsl:import', 'xsl:include', 'xsl:decimal-format', 'xsl:message', 'xsl:call-template', 'xsl:with-param', 'select=', 'match=', 'name=', 'mode=', 'priority=', 'format=', 'level=', 'count=',
        'from=', 'value=', 'use=', 'test=', 'href=', 'document(', 'key(', 'id(', 'format-number(', 'substring(', 'translate(', 'ancestor::', 'preceding::', 'following-sibling::', 'namespace::', '//', '..',
        '@*', 'node()', 'text()', 'position()', 'last()', ' div ', ' mod ', ' and ', ' or ', '1e308', '-0', '&#', '<![CDATA[', ']]>', '<!DOCTYPE', '<!ENTITY', 'xmlns:', 'xml:space', '{', '}', '$', '|']


def fuzz_case(ctx, idx, res):
    """one libFuzzer process: bounded by a run count, seeded from the generators"""
    import subprocess, shutil
    from xvdriver import exe_path, sanitizer_env, report_key
    r = rng_for(ctx.seed, 'c03f', idx)
    wd = os.path.join(ctx.workdir, 'c03fuzz')
    if os.path.isdir(wd):
        shutil.rmtree(wd)
    os.makedirs(os.path.join(wd, 'corpus'))
    os.makedirs(os.path.join(wd, 'artifacts'))
    for i in range(40):
        xml, info = gen_xml.gen_doc(r, size=r.choice([4, 8, 15]))
        g = gen_xslt.SGen(r, info, avoid=ctx.findings_avoid, max_templates=r.choice([2, 4]), body_depth=2)
        k = i % 5
        blob = {0: g.stylesheet().encode('utf-8'), 1: xml.encode('utf-8'), 2: hostile_xpath(r).encode('utf-8', 'replace'), 3: hostile_xpath(r).encode('utf-8', 'replace'),
                4: g.stylesheet().encode('utf-8') + b'\0' + xml.encode('utf-8')}[k]
        open(os.path.join(wd, 'corpus', 'seed%d' % i), 'wb').write(bytes([k]) + blob[:4000])
    open(os.path.join(wd, 'dict'), 'w').write('\n'.join('"%s"' % t.replace('\\', '\\\\').replace('"', '\\"') for t in DICT) + '\n')
    runs = 4000 if ctx.tier == 'quick' else 150000
    env = sanitizer_env('fuzz')
    env['ASAN_OPTIONS'] = env.get('ASAN_OPTIONS', '') + ':detect_leaks=0:quarantine_size_mb=8'
    cmd = [exe_path('fuzz', 'xvfuzz'), '-runs=%d' % runs, '-seed=%d' % r.randrange(1, 1 << 30), '-max_len=4096', '-timeout=60', '-rss_limit_mb=4000', '-dict=' + os.path.join(wd, 'dict'),
           '-artifact_prefix=' + os.path.join(wd, 'artifacts') + '/', '-print_final_stats=1', os.path.join(wd, 'corpus')]
    try:
        p = subprocess.run(cmd, capture_output=True, text=True, errors='replace', timeout=3 * 3600, env=env, cwd=wd)
    except subprocess.TimeoutExpired:
        res.inconclusive.append('timeout')
        return
    err = p.stderr
    m = re.search(r'stat::number_of_executed_units:\s*(\d+)', err)
    execs = int(m.group(1)) if m else 0
    cov = [int(x) for x in re.findall(r'cov: (\d+)', err)]
    res.evals = execs
    res.count('fuzz_executions', execs)
    res.count('fuzz_processes')
    res.sigs = set(('fuzz-cov-bucket', c // 500) for c in cov[-1:])
    res.sample = {'fuzz': True, 'executions': execs, 'edges_covered': cov[-1] if cov else None}
    arts = sorted(os.listdir(os.path.join(wd, 'artifacts')))
    if p.returncode != 0 or arts:
        kind, frames = report_key(err)
        if kind is None:
            mm = re.search(r'XV-FUZZ: ([^\n]*)', err)
            kind = 'monitor:' + mm.group(1)[:60] if mm else ('libFuzzer:' + (re.findall(r'ERROR: libFuzzer: ([\w\- ]+)', err) or ['exit %s' % p.returncode])[0])
        data = open(os.path.join(wd, 'artifacts', arts[0]), 'rb').read() if arts else b''
        if kind.startswith('libFuzzer:timeout') and arts:
            # a time-out is a verdict only when it can be repeated (the rule for every other request of the framework): the input is run
            # again, alone, in a fresh process with ten times the budget.  If it finishes, the stall belonged to the machine or to state of
            # the fuzzing process that the input alone does not rebuild: inconclusive, and the input is kept for inspection.
            try:
                p2 = subprocess.run([exe_path('fuzz', 'xvfuzz'), '-timeout=600', os.path.join(wd, 'artifacts', arts[0])], capture_output=True, text=True, errors='replace', timeout=900, env=env, cwd=wd)
                again = p2.returncode != 0
            except subprocess.TimeoutExpired:
                again = True
            if not again:
                keep = os.path.join(os.path.dirname(os.path.dirname(ctx.workdir)), 'timeouts')          # WORK/timeouts, as framework.crash_violation
                os.makedirs(keep, exist_ok=True)
                shutil.copy(os.path.join(wd, 'artifacts', arts[0]), os.path.join(keep, 'C03.fuzz%d.%s' % (idx, arts[0][:24])))
                open(os.path.join(keep, 'C03.fuzz%d.stderr' % idx), 'w').write(err[-20000:])
                res.inconclusive.append('fuzz-timeout-not-repeatable')
                res.count('fuzz_timeouts_not_repeatable')
                return
            kind = 'hang (libFuzzer time-out, repeated alone with ten times the budget)'
        res.viol('fuzz|%s|%s' % (kind, ';'.join(frames[:2])), 'libFuzzer input of %d bytes (mode %s): %s in %s' % (len(data), data[0] % 5 if data else '?', kind, ' <- '.join(frames[:3]) or '?'),
                 {'input_hex': data.hex()[:20000], 'input_text': data[1:2000].decode('utf-8', 'replace'), 'stderr_tail': err[-3000:], 'command': ' '.join(cmd)})


def main():
    chk = Check('C03')
    chk.rule = ('generated stylesheets / documents / XPath expressions / parameter expressions and byte-, token- and structure-level mutations of them; hostile numeric and string '
                'literals composed through 45 function / operator shapes to depth 5; deep documents (3 000 levels, 9 000 siblings, 3 000 attributes) and deep stylesheets (1 500 nested '
                'instructions, parentheses, steps, recursion depth 6 000); random bytes; UTF-16 garbage into the four serializers; through XalanTransformer (6 source forms, compiled or '
                'not, stream / DOM / callback targets), the C API (6 entry points) and the XPath engine entry points, all in an ASan + UBSan (float-cast-overflow) build. A case is one '
                'hostile input followed by a known-good transformation on the same transformer; distinct = distinct input family.')
    chk.assumptions = ['resource exhaustion by legitimately huge work (a padding of 10^9 characters) is not generated; nesting depths stay within what the default 8 MB stack holds for correct recursive code',
                       'LeakSanitizer is not enabled in this check (C19 measures allocation balance exactly)']
    chk.ensure(FLAVOUR, 'xvdrv')
    n = 2000 if chk.tier == 'quick' else 30000
    chk.run_cases('c03', 'case', range(n))
    chk.run_cases('c03', 'sweep_case', range(len(SWEEP_FRAMES) * len(SWEEP_UNITS)))
    chk.run_cases('c03', 'leaf_sweep_case', range(len(LEAVES) * len(OUTER)))
    chk.run_cases('c03', 'pattern_sweep_case', range(len(V_PATTERN) * len(PATTERN_SLOTS)))
    chk.run_cases('c03', 'misplaced_sweep_case', range(len(VOCABULARY) * len(PLACES)))
    chk.run_cases('c03', 'attribute_sweep_case', range(len(ATTRIBUTE_SWEEP)))
    chk.run_cases('c03', 'dtd_case', range(n // 4))
    if chk.tier == 'thorough' or os.environ.get('VERIF_FUZZ'):
        chk.ensure('fuzz', 'xvfuzz')
        chk.run_cases('c03', 'fuzz_case', range(16))
    chk.finish(min_nontrivial=8, required_stats=('failures_reported', 'successes', 'still_usable', 'xpath_calls', 'serializer_calls', 'attribute_cases', 'integer_conversions', 'nesting_cases', 'operator_runs', 'leaf_sweep_transformations', 'pattern_sweep_transformations', 'misplaced_sweep_transformations', 'attribute_sweep_transformations', 'dtd_transformations'))


if __name__ == '__main__':
    main()
