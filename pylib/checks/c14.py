"""C14 — result elements/attributes get the requested expanded names; prefixes resolve.
Oracle: the generator builds the EXPECTED result tree (expanded names) together with the stylesheet
that asks for it, choosing for every node one of the constructing instructions and hostile prefix /
URI arrangements.  The serialized result is parsed by the harness's namespace-aware parser (unbound
prefixes, duplicate attributes by expanded name and illegal xml/xmlns bindings are parse errors) and
compared with the expected tree; exclude-result-prefixes and namespace-alias leave no trace.
Second opinion: the reference interpreter."""
import os, sys
sys.path.insert(0, os.path.join(os.path.dirname(os.path.abspath(__file__)), '..'))
from framework import Check, rng_for
import refxml, refxpath as X, refxslt, xsltcommon as XC

XSL = 'http://www.w3.org/1999/XSL/Transform'
XMLNS = 'http://www.w3.org/XML/1998/namespace'
URIS = ['urn:u1', 'urn:u2', 'urn:u3']
PREFIXES = ['a', 'b', 'c', 'ns0', 'ns1', 'ns2', 'xsl2']
LOCALS = ['e', 'f', 'g', 'h']
ALOCALS = ['k', 'l', 'm']
EX = {'ex1': 'urn:ex1', 'ex2': 'urn:ex2'}
ALIAS_STYLE = 'urn:alias-stylesheet-side'
ALIAS_RESULT = 'urn:alias-result-side'

# the source document: elements and attributes with their own namespace nodes, prefixes clashing with the stylesheet's
SOURCE = ('<doc xmlns:a="urn:u2" xmlns:s="urn:src">'
          '<s:one a:k="sk" l="sl" xmlns:b="urn:u1"><b:in xmlns:a="urn:u3" a:m="x"/>t1</s:one>'
          '<two xmlns="urn:u1" k="2k"><inner xmlns="" m="im"/><a:deep xmlns:c="urn:src" c:k="ck"/></two>'
          '<a:three a:k="3k" xmlns:ns0="urn:u3" ns0:k="3n"/>'
          '<four xml:lang="en" xml:space="preserve"> </four>'
          '</doc>')


def esc(s):
    return s.replace('&', '&amp;').replace('<', '&lt;').replace('"', '&quot;')


class G(object):
    def __init__(self, r, avoid):
        self.r = r
        self.avoid = avoid
        self.src = refxml.parse(SOURCE)
        self.src_elems = [c for c in self.src.children[0].children if c.kind == refxml.ELEM]
        self.sets = {}          # attribute-set name -> (xml, [(uri, local, value)])
        self.n = 0
        self.features = set()
        self.uses_alias = False

    # ----- expected helpers ---------------------------------------------------------------------
    @staticmethod
    def src_expected(e):
        if e.kind == refxml.TEXT:
            return ('t', e.value)
        return ('e', (e.uri, e.local), dict(((a.uri, a.local), a.value) for a in e.attrs), [G.src_expected(c) for c in e.children if c.kind in (refxml.ELEM, refxml.TEXT)])

    def value(self):
        self.n += 1
        return 'v%d' % self.n

    # ----- attributes ----------------------------------------------------------------------------
    def attr_instruction(self, scope):
        """one xsl:attribute; returns (xml, (uri, local, value))"""
        r = self.r
        local = r.choice(ALOCALS)
        v = self.value()
        k = r.random()
        if k < 0.35:
            u = r.choice(URIS)
            p = r.choice(PREFIXES + ['xmlns', 'xml', 'ex1'])
            self.features.add('attr-ns-prefix' if p not in ('xmlns', 'xml') else 'attr-ns-' + p)
            return '<xsl:attribute name="%s:%s" namespace="%s">%s</xsl:attribute>' % (p, local, u, v), (u, local, v)
        if k < 0.5:
            u = r.choice(URIS)
            self.features.add('attr-ns-noprefix')
            return '<xsl:attribute name="%s" namespace="%s">%s</xsl:attribute>' % (local, u, v), (u, local, v)
        if k < 0.6:
            self.features.add('attr-ns-empty')
            return '<xsl:attribute name="%s" namespace="">%s</xsl:attribute>' % (local, v), (None, local, v)
        if k < 0.8:
            cands = [p for p, u in scope.items() if p and u and p not in ('xsl', 'res')]
            if cands:
                p = r.choice(cands)
                self.features.add('attr-prefix-from-stylesheet')
                return '<xsl:attribute name="%s:%s">%s</xsl:attribute>' % (p, local, v), (scope[p], local, v)
        if k < 0.88:
            u = r.choice(URIS)
            p = r.choice(PREFIXES)
            self.features.add('attr-avt')
            return ('<xsl:attribute name="{concat(\'%s\', \':\', \'%s\')}" namespace="{concat(\'%s\', \'\')}">%s</xsl:attribute>' % (p, local, u, v)), (u, local, v)
        if k < 0.91:
            self.features.add('attr-xml')
            return '<xsl:attribute name="xml:lang">%s</xsl:attribute>' % v, (XMLNS, 'lang', v)
        if k < 0.94 and 'xml-namespace-foreign-prefix' not in self.avoid:
            self.features.add('attr-xmlns-uri-foreign-prefix')
            return '<xsl:attribute name="%s" namespace="%s">%s</xsl:attribute>' % (r.choice(['lang', 'a:lang', 'xml:lang']), XMLNS, v), (XMLNS, 'lang', v)
        return '<xsl:attribute name="%s">%s</xsl:attribute>' % (local, v), (None, local, v)

    def attribute_set(self, scope):
        name = 's%d' % len(self.sets)
        items = [self.attr_instruction(scope) for _ in range(self.r.choice([1, 2, 3]))]
        use = ''
        exp = []
        if self.sets and self.r.random() < 0.3:
            other = self.r.choice(sorted(self.sets))
            use = ' use-attribute-sets="%s"' % other
            exp = list(self.sets[other][1])
        xml = '<xsl:attribute-set name="%s"%s>%s</xsl:attribute-set>' % (name, use, ''.join(x for x, _ in items))
        self.sets[name] = (xml, exp + [e for _, e in items])
        return name

    # ----- elements ------------------------------------------------------------------------------
    def element(self, depth, scope):
        """returns (xml, expected) for one result element built at a point of the stylesheet where `scope` is in scope"""
        r = self.r
        k = r.random()
        local = r.choice(LOCALS)
        attrs = {}                      # expected (uri, local) -> value, in application order
        decls = ''
        scope = dict(scope)
        pre_attrs = ''                  # literal attributes
        set_attr = ''
        kind = None
        if k < 0.32:
            kind = 'lre'
            j = r.random()
            if j < 0.55:
                p = r.choice(PREFIXES[:6])
                u = r.choice(URIS)
                if r.random() < 0.15 and not self.uses_alias and 'alias' not in self.avoid:
                    p, u = 'al', ALIAS_STYLE
                    self.uses_alias = True
                if scope.get(p) != u:
                    decls += ' xmlns:%s="%s"' % (p, u)
                    scope[p] = u
                name = p + ':' + local
                exp_uri = u
            elif j < 0.8:
                u = r.choice(URIS)
                if scope.get('', '') != u:
                    decls += ' xmlns="%s"' % u
                    scope[''] = u
                name = local
                exp_uri = u
            else:
                if scope.get('', ''):
                    decls += ' xmlns=""'
                    scope[''] = ''
                name = local
                exp_uri = None
            if r.random() < 0.25:
                q = r.choice(['ex1', 'ex2'])
                name = q + ':' + local
                exp_uri = EX[q]
                self.features.add('lre-excluded-prefix-used')
            if exp_uri == ALIAS_STYLE:
                exp_uri = ALIAS_RESULT
            open_tag = name
            self.features.add('lre')
        elif k < 0.62:
            kind = 'element'
            j = r.random()
            if j < 0.4:
                u = r.choice(URIS)
                p = r.choice(PREFIXES + ['ex1', 'xml', 'xmlns'])
                spec = 'name="%s:%s" namespace="%s"' % (p, local, u)
                exp_uri = u
                self.features.add('element-ns-prefix')
            elif j < 0.55:
                u = r.choice(URIS)
                spec = 'name="%s" namespace="%s"' % (local, u)
                exp_uri = u
                self.features.add('element-ns-noprefix')
            elif j < 0.65:
                spec = 'name="%s" namespace=""' % local
                exp_uri = None
                self.features.add('element-ns-empty')
            elif j < 0.8:
                cands = [p for p, u in scope.items() if p and u and p not in ('xsl', 'res')]
                p = r.choice(cands)
                spec = 'name="%s:%s"' % (p, local)
                exp_uri = scope[p]
                self.features.add('element-prefix-from-stylesheet')
            elif j < 0.9:
                spec = 'name="%s"' % local
                exp_uri = scope.get('', '') or None
                self.features.add('element-default-from-stylesheet')
            else:
                u = r.choice(URIS)
                p = r.choice(PREFIXES)
                spec = 'name="{concat(\'%s:\', \'%s\')}" namespace="{substring(\'%s\', 1)}"' % (p, local, u)
                exp_uri = u
                self.features.add('element-avt')
        elif k < 0.8 and depth > 0:
            kind = 'copy'
            se = r.choice(self.src_elems + [c for e in self.src_elems for c in e.children if c.kind == refxml.ELEM])
            exp_uri, local = se.uri, se.local
            self.features.add('copy')
        else:
            # copy-of a whole source subtree: a leaf of the generated tree
            se = r.choice(self.src_elems)
            idx = self.src_elems.index(se) + 1
            self.features.add('copy-of')
            return '<xsl:copy-of select="/doc/*[%d]"/>' % idx, self.src_expected(se)
        # attributes, in the order the Recommendation applies them: attribute sets, literal attributes, instructions
        if r.random() < 0.3:
            sname = r.choice(sorted(self.sets)) if self.sets and r.random() < 0.7 else None
            if sname:
                for (u, l, v) in self.sets[sname][1]:
                    attrs[(u, l)] = v
                set_attr = (' xsl:use-attribute-sets="%s"' if kind == 'lre' else ' use-attribute-sets="%s"') % sname
                self.features.add('attribute-set-on-' + kind)
        if kind == 'lre':
            lit_keys = set()
            for _ in range(r.choice([0, 0, 1, 2])):
                l = r.choice(ALOCALS)
                v = self.value()
                if r.random() < 0.6:
                    cands = [p for p, u in scope.items() if p and u and p not in ('xsl', 'res')]
                    p = r.choice(cands + PREFIXES[:3])
                    if p not in scope:
                        u = r.choice(URIS)
                        decls += ' xmlns:%s="%s"' % (p, u)
                        scope[p] = u
                    # the alias applies to the attributes of a literal result element as well
                    key = (ALIAS_RESULT if scope[p] == ALIAS_STYLE else scope[p], l)
                    text = ' %s:%s="%s"' % (p, l, v)
                    if scope[p] == ALIAS_STYLE:
                        self.uses_alias = True
                else:
                    key = (None, l)
                    text = ' %s="%s"' % (l, v)
                if key in lit_keys:          # two literal attributes with one expanded name: the stylesheet itself would be ill-formed
                    continue
                lit_keys.add(key)
                attrs[key] = v
                pre_attrs += text
                self.features.add('literal-attribute')
        body = ''
        for _ in range(r.choice([0, 0, 1, 2, 3])):
            x, (u, l, v) = self.attr_instruction(scope)
            attrs[(u, l)] = v
            body += x
        if r.random() < 0.2:
            ae = r.choice(self.src_elems)
            idx = self.src_elems.index(ae) + 1
            if ae.attrs:
                body += '<xsl:copy-of select="/doc/*[%d]/@*"/>' % idx
                for a in ae.attrs:
                    attrs[(a.uri, a.local)] = a.value
                self.features.add('copy-of-attributes')
        kids = []
        if r.random() < 0.5:
            t = self.value()
            body += t
            kids.append(('t', t))
        if depth < 3:
            for _ in range(r.choice([0, 1, 1, 2, 3]) if depth < 2 else r.choice([0, 0, 1])):
                x, e = self.element(depth + 1, scope)
                if r.random() < 0.15 and e[0] == 'e':
                    # the subtree is built as a result tree fragment here (where the prefixes of this place are in scope) and copied into a
                    # holder that binds a prefix of its own, or that is the copy of a source element with its own namespace nodes
                    self.n += 1
                    vname = 'rtf%d' % self.n
                    body += '<xsl:variable name="%s">%s</xsl:variable>' % (vname, x)
                    if r.random() < 0.6:
                        hp, hu, hl = r.choice(PREFIXES[:6] + ['a', 'b']), r.choice(URIS), r.choice(LOCALS)
                        x = '<%s:%s xmlns:%s="%s"><xsl:copy-of select="$%s"/></%s:%s>' % (hp, hl, hp, hu, vname, hp, hl)
                        e = ('e', (hu, hl), {}, [e])
                    else:
                        hs = r.choice(self.src_elems + [c for s2 in self.src_elems for c in s2.children if c.kind == refxml.ELEM])
                        x = '<xsl:for-each select="%s"><xsl:copy><xsl:copy-of select="$%s"/></xsl:copy></xsl:for-each>' % (self.src_path(hs), vname)
                        e = ('e', (hs.uri, hs.local), {}, [e])
                    self.features.add('rtf-copied-into-holder')
                body += x
                if kids and kids[-1][0] == 't' and e[0] == 't':
                    kids[-1] = ('t', kids[-1][1] + e[1])
                else:
                    kids.append(e)
        exp = ('e', (exp_uri, local), attrs, kids)
        if kind == 'lre':
            return '<%s%s%s%s>%s</%s>' % (open_tag, decls, set_attr, pre_attrs, body, open_tag), exp
        if kind == 'element':
            return '<xsl:element %s%s>%s</xsl:element>' % (spec, set_attr, body), exp
        # xsl:copy of a source element, reached by for-each
        path = self.src_path(se)
        return '<xsl:for-each select="%s"><xsl:copy%s>%s</xsl:copy></xsl:for-each>' % (path, set_attr, body), exp

    def src_path(self, se):
        if se in self.src_elems:
            return '/doc/*[%d]' % (self.src_elems.index(se) + 1)
        pi = self.src_elems.index(se.parent) + 1
        ci = [c for c in se.parent.children if c.kind == refxml.ELEM].index(se) + 1
        return '/doc/*[%d]/*[%d]' % (pi, ci)

    def stylesheet(self):
        r = self.r
        scope = {'xsl': XSL, 'a': 'urn:u1', 'b': 'urn:u2', 'ex1': EX['ex1'], 'ex2': EX['ex2'], 'al': ALIAS_STYLE, 'res': ALIAS_RESULT, '': ''}
        top_default = ''
        if r.random() < 0.2:
            top_default = ' xmlns="urn:u3"'
            scope[''] = 'urn:u3'
        for _ in range(r.choice([0, 1, 2, 3])):
            self.attribute_set(scope)
        body, exp = self.element(0, scope)
        head = ('<xsl:stylesheet version="1.0" xmlns:xsl="%s" xmlns:a="urn:u1" xmlns:b="urn:u2" xmlns:ex1="%s" xmlns:ex2="%s" xmlns:al="%s" xmlns:res="%s"%s '
                'exclude-result-prefixes="ex1 ex2%s">' % (XSL, EX['ex1'], EX['ex2'], ALIAS_STYLE, ALIAS_RESULT, top_default, ' #default' if top_default and r.random() < 0.5 else ''))
        alias = '<xsl:namespace-alias stylesheet-prefix="al" result-prefix="res"/>'
        xsl = head + alias + ''.join(x for x, _ in self.sets.values()) + '<xsl:output method="xml" indent="no"/><xsl:template match="/"><root>%s</root></xsl:template></xsl:stylesheet>' % body
        root_uri = scope.get('', '') or None
        return xsl, ('e', (root_uri, 'root'), {}, [exp])


def tree_of(e):
    if e.kind == refxml.TEXT:
        return ('t', e.value)
    kids = []
    for c in e.children:
        if c.kind == refxml.TEXT:
            if kids and kids[-1][0] == 't':
                kids[-1] = ('t', kids[-1][1] + c.value)
            else:
                kids.append(('t', c.value))
        elif c.kind == refxml.ELEM:
            kids.append(tree_of(c))
    return ('e', (e.uri or None, e.local), dict((((a.uri or None), a.local), a.value) for a in e.attrs), kids)


def norm(t):
    if t[0] == 't':
        return t
    return ('e', (t[1][0] or None, t[1][1]), dict(((u or None, l), v) for (u, l), v in t[2].items()), [norm(c) for c in t[3]])


def diff(got, exp, path=''):
    if got[0] != exp[0]:
        return ('structure', '%s: %s where %s is requested' % (path, got[:2], exp[:2]))
    if got[0] == 't':
        return None if got[1] == exp[1] else ('text', '%s: text %r where %r is requested' % (path, got[1], exp[1]))
    here = '%s/{%s}%s' % (path, exp[1][0] or '', exp[1][1])
    if got[1] != exp[1]:
        return ('element-name', '%s: element {%s}%s where {%s}%s is requested' % (path, got[1][0] or '', got[1][1], exp[1][0] or '', exp[1][1]))
    if got[2] != exp[2]:
        miss = sorted(set(exp[2]) - set(got[2]), key=str)
        extra = sorted(set(got[2]) - set(exp[2]), key=str)
        if miss or extra:
            return ('attribute-name', '%s: attributes %s missing, %s not requested' % (here, ['{%s}%s' % (u or '', l) for u, l in miss], ['{%s}%s' % (u or '', l) for u, l in extra]))
        k = [x for x in exp[2] if exp[2][x] != got[2][x]][0]
        return ('attribute-value', '%s: attribute {%s}%s is %r where %r is requested (a later attribute of the same expanded name replaces an earlier one)' % (here, k[0] or '', k[1], got[2][k], exp[2][k]))
    if len(got[3]) != len(exp[3]):
        return ('structure', '%s: %d children where %d are requested' % (here, len(got[3]), len(exp[3])))
    for i, (a, b) in enumerate(zip(got[3], exp[3])):
        d = diff(a, b, here)
        if d:
            return d
    return None


def trace_checks(root, res_uses_ex):
    """exclude-result-prefixes / namespace-alias leave no trace"""
    stack = [root]
    while stack:
        e = stack.pop()
        used = set([e.uri] + [a.uri for a in e.attrs])
        for (p, u) in e.nsdecls:
            if u == ALIAS_STYLE and u not in used:
                # (xsl:element / xsl:attribute may ask for a name in that namespace: the alias is about literal result elements only)
                return ('alias-stylesheet-uri', 'the stylesheet side of the namespace-alias (%s) is declared on <%s>, where no name uses it' % (u, e.name))
            if u in EX.values() and u not in used:
                return ('excluded-namespace', 'namespace %s, excluded by exclude-result-prefixes and not used by the name of <%s> or its attributes, is declared there' % (u, e.name))
        # (whether a name may be in the stylesheet side namespace is decided by the comparison with the expected tree: a literal result element
        # never is, xsl:element / xsl:attribute with that prefix are)
        stack.extend(c for c in e.children if c.kind == refxml.ELEM)
    return None


def case(ctx, idx, res):
    r = rng_for(ctx.seed, 'c14', idx)
    runner = ctx.cache.get('runner')
    if runner is None:
        runner = ctx.cache['runner'] = XC.Runner(ctx, 'plain')
    g = G(r, ctx.findings_avoid)
    xsl, exp = g.stylesheet()
    exp = norm(exp)
    src = r.choice(['stream', 'stream', 'xerceswrap'])
    rx = runner.transform(xsl, SOURCE, src=src)
    payload = {'stylesheet': xsl, 'document': SOURCE, 'source_form': src}
    res.count('cases')
    res.sig = tuple(sorted(g.features))
    res.sample = {'features': sorted(g.features), 'stylesheet': xsl[:400]}
    for f in g.features:
        res.count('feature_' + f)
    if rx.status != 0:
        res.viol('fails', 'stylesheet fails: %s' % rx.err[:300], payload)
        return
    try:
        text = XC._DECL.sub('', rx.out.decode('utf-8'))
        tree = refxml.parse(text)
    except (refxml.ParseError, UnicodeDecodeError) as e:
        msg = str(e)
        kind = 'unbound-prefix' if 'unbound' in msg else 'duplicate-attribute' if 'duplicate attribute' in msg else 'illegal-binding' if 'illegal' in msg or 'undeclared' in msg else 'other'
        res.viol('not-namespace-well-formed|%s' % kind, 'the result is not namespace-well-formed: %s' % msg[:200], dict(payload, output=rx.out.decode('utf-8', 'replace')[:3000]))
        return
    root = [c for c in tree.children if c.kind == refxml.ELEM][0]
    got = tree_of(root)
    d = diff(got, exp)
    if d:
        res.viol('expanded-name|%s' % d[0], d[1], dict(payload, output=text[:3000]))
        return
    res.count('trees_equal_expected')
    res.count('elements', text.count('</') + text.count('/>'))
    t = trace_checks(root, None)
    if t:
        res.viol('trace|%s' % t[0], t[1], dict(payload, output=text[:3000]))
        return
    try:
        refout, p = refxslt.transform(xsl, SOURCE)
        rroot = [c for c in refout.children if c.kind == refxml.ELEM][0]
        if diff(tree_of(rroot), exp):
            res.count('reference_disagrees_with_generator')
        else:
            res.count('reference_agrees')
    except (refxslt.XsltError, X.XPathError, X.XPathSyntaxError):
        res.count('reference_error')


def nscopy_case(ctx, idx, res):
    """copying namespace nodes (xsl:copy-of select="namespace::..." and xsl:copy of a namespace node): the element that receives them gets the
    declarations, prefix and URI as in the source, and no attribute; what it does not get is decided by what is selected"""
    import gen_xml
    r = rng_for(ctx.seed, 'c14n', idx)
    runner = ctx.cache.get('runner')
    if runner is None:
        runner = ctx.cache['runner'] = XC.Runner(ctx, 'plain')
    xml, info = gen_xml.gen_doc(r, size=r.choice([8, 15, 25]), ns=True)
    doc = refxml.parse(xml)
    elems = []

    def walk(n):
        for c in n.children:
            if c.kind == refxml.ELEM:
                elems.append(c)
                walk(c)
    walk(doc)
    how = r.choice(['copy-of', 'copy', 'copy-of-some'])
    sel = {'copy-of': 'namespace::*[name()]', 'copy': 'namespace::*[name()]', 'copy-of-some': 'namespace::*[name() and string-length(name()) mod 2 = 1]'}[how]
    inner = '<xsl:copy-of select="%s"/>' % sel if how != 'copy' else '<xsl:for-each select="%s"><xsl:copy/></xsl:for-each>' % sel
    xsl = ('<xsl:stylesheet version="1.0" xmlns:xsl="http://www.w3.org/1999/XSL/Transform"><xsl:template match="/"><out><xsl:for-each select="//*"><e>%s<xsl:attribute name="plain">v</xsl:attribute><i/></e></xsl:for-each></out></xsl:template></xsl:stylesheet>' % inner)
    rx = runner.transform(xsl, xml, src=r.choice(['stream', 'parsed', 'parsedx']))
    payload = {'stylesheet': xsl, 'document': xml}
    res.count('nscopy_cases')
    res.sig = ('nscopy', how)
    if rx.status != 0:
        res.viol('nscopy|fails', 'copying namespace nodes fails: %s' % rx.err[:200], payload)
        return
    try:
        out = refxml.parse(XC._DECL.sub('', rx.out.decode('utf-8')))
    except (refxml.ParseError, UnicodeDecodeError) as e:
        res.viol('nscopy|not-well-formed', str(e)[:200], payload)
        return
    es = [c for c in [c for c in out.children if c.kind == refxml.ELEM][0].children if c.kind == refxml.ELEM]
    if len(es) != len(elems):
        res.viol('nscopy|structure', '%d result elements for %d source elements' % (len(es), len(elems)), payload)
        return

    def in_scope(n):
        m = {}
        chain = []
        while n is not None and n.kind == refxml.ELEM:
            chain.append(n)
            n = n.parent
        for a in reversed(chain):
            for p_, u in a.nsdecls:
                m[p_] = u
        return dict((p_, u) for p_, u in m.items() if p_ and u)
    for src_el, e in zip(elems, es):
        want = in_scope(src_el)
        if how == 'copy-of-some':
            want = dict((p_, u) for p_, u in want.items() if len(p_) % 2 == 1)
        got = in_scope(e)
        attrs = sorted((a.uri, a.local) for a in e.attrs)
        if attrs != [('', 'plain')]:
            res.viol('nscopy|attributes', 'copying the namespace nodes of %s (%s) leaves the attributes %s on the result element (only "plain" was added)' % (src_el.name, how, attrs), payload)
            return
        if got != want:
            res.viol('nscopy|declarations', 'copying the namespace nodes of %s (%s) gives the declarations %s, the source element has %s in scope' % (src_el.name, how, sorted(got.items()), sorted(want.items())), payload)
            return
    res.count('nscopy_elements_checked', len(es))


def main():
    chk = Check('C14')
    chk.rule = ('generated nestings (depth <= 4) of literal result elements, xsl:element, xsl:attribute (static and AVT names / namespaces, prefixes incl. xml, xmlns, '
                'ns0.. as the processor invents them, prefixes bound to different URIs at different depths, default namespace on/off/undeclared), attribute sets, '
                'xsl:copy and xsl:copy-of of source nodes with their own namespace nodes, exclude-result-prefixes and namespace-alias; native and Xerces-wrapped '
                'sources; plus copies of namespace nodes (xsl:copy-of select="namespace::*[...]", xsl:copy of each) onto a new element for every element of generated documents with namespaces. A case is one stylesheet; all non-trivial; distinct = distinct set of constructs used.')
    chk.assumptions = ['the generator computes the expected tree while it writes the stylesheet; the reference interpreter only gives a second opinion (counted, not decisive)',
                       'an excluded namespace is "needed" on an element iff the element name or one of its attributes is in it']
    chk.ensure('plain', 'xvdrv')
    n = 60000 if chk.tier == 'quick' else 1500000
    chk.run_cases('c14', 'case', range(n))
    chk.run_cases('c14', 'nscopy_case', range(n // 20))
    chk.finish(min_nontrivial=100, required_stats=('trees_equal_expected', 'feature_lre', 'feature_copy', 'feature_copy-of', 'feature_attr-ns-xmlns', 'feature_attr-ns-xml', 'nscopy_elements_checked'))


if __name__ == '__main__':
    main()
