"""C15 — key() returns exactly the nodes its xsl:key declaration defines.
Oracles: (1) in the same transformation, the brute-force defining expression
   //nodes-matching-the-pattern[use = $value]   compared with key(name, value) by generate-id();
(2) the reference interpreter's result tree for the whole stylesheet.  Lookups are issued in
generated and shuffled orders, from the main source and from a second document, with string and
node-set arguments, for several keys including one name declared twice."""
import os, re, sys
sys.path.insert(0, os.path.join(os.path.dirname(os.path.abspath(__file__)), '..'))
from framework import Check, rng_for
import refxml, refxpath as X, refxslt, gen_xml, gen_xslt, xsltcommon as XC

HEAD = gen_xslt.HEAD

# (match pattern, equivalent expression selecting the matching nodes of a document from its root)
def key_family(r, names, attrs):
    n = r.choice(names)
    a = r.choice(attrs)
    fam = [
        (n, '//' + n),
        ('*', '//*'),
        ('@' + a, '//@' + a),
        (n + '/' + r.choice(names + ['*']), None),
        ('*[@%s]' % a, '//*[@%s]' % a),
        (n + '[1]', '//' + n + '[1]'),
        ('text()', '//text()'),
        (n + ' | @' + a, '(//%s | //@%s)' % (n, a)),
        ('p:*', '//p:*'),
        ('*[not(*)]', '//*[not(*)]'),
    ]
    m, e = r.choice(fam)
    if e is None:
        e = '//' + m
    return m, e


USES = ['@x', '@n', '@id', '.', 'name()', '*', '@*', 'text()', 'string-length(.)', 'count(*)', '../@x', 'substring(., 1, 1)', '@x | @n']


def gen_case(r, info, second_doc):
    names = [n for n in sorted(info.elem_names) if not n.startswith('dflt:')] or ['a']
    attrs = sorted(info.attr_names) or ['x']
    keys = []
    parts = [HEAD % '']
    # in a third of the cases some declarations live in imported / included modules (two levels): every declaration of a name defines the key,
    # whatever module it is in and whatever the import precedence (XSLT 12.2), so the same names are used across modules
    modules = {}
    use_modules = r.random() < 0.35
    if use_modules:
        parts.append('<xsl:%s href="imp1.xsl"/>' % r.choice(['import', 'import', 'include']))
        modules['imp1.xsl'] = ['<xsl:%s href="imp2.xsl"/>' % r.choice(['import', 'include'])] if r.random() < 0.5 else []
        if modules['imp1.xsl']:
            modules['imp2.xsl'] = []
    parts.append('<xsl:output method="xml"/>')
    nk = r.choice([1, 2, 3, 4]) + (1 if use_modules else 0)
    for i in range(nk):
        name = 'k%d' % i
        if i > 0 and r.random() < (0.5 if use_modules else 0.25):
            name = keys[0][0]            # the same name declared twice: union of both declarations
        m, e = key_family(r, names, attrs)
        u = r.choice(USES)
        keys.append((name, m, e, u))
        decl = '<xsl:key name="%s" match="%s" use="%s"/>' % (name, gen_xslt.aesc(m), gen_xslt.aesc(u))
        where_ = r.choice(['main'] + sorted(modules) * 2) if use_modules else 'main'
        if where_ == 'main':
            parts.append(decl)
        else:
            modules[where_].append(decl)
    values = sorted(set(list(info.values)[:12] + gen_xml.VALUES[:8] + ['', 'doc', 'a', 'b', '1', '2', '0']))
    lookups = []
    for _ in range(r.choice([10, 25, 40])):
        name = r.choice(keys)[0]
        k = r.random()
        if k < 0.7:
            v = "'%s'" % r.choice(values).replace("'", '')
        elif k < 0.85:
            v = r.choice(['//@x', '//@n', '//' + r.choice(names), '//@*', '//text()[1]', '/..'])
        else:
            v = r.choice(['1', '2', 'count(//*)', '1 = 1'])
        # 'cross': key() is evaluated with a context node in the second document (inside a predicate) while the current node stays in the main one
        where = r.choice(['main', 'main', 'second', 'cross', 'cross']) if second_doc else 'main'
        lookups.append((name, v, where))
    if r.random() < 0.5:
        r.shuffle(lookups)
    body = ['<out>']
    for (name, v, where) in lookups:
        decls = [d for d in keys if d[0] == name]
        # the defining expression: nodes matching some declaration's pattern whose use value equals (some) v
        cmpv = '$v' if (v.startswith("'") or v.startswith('/')) else 'string($v)'      # key() converts a non node-set value to a string
        brute = ' | '.join('%s[%s = ' % (e, u if not u.startswith('string-length') and not u.startswith('count') and not u.startswith('substring') and u != 'name()' else 'string(%s)' % u) + cmpv + ']'
                           for (_, m, e, u) in decls)
        if where == 'cross':
            sel = "(document('second.xml')//node() | document('second.xml')//@*)[count(. | key('%s', $v)) = count(key('%s', $v))]" % (name, name)
            body.append('<xsl:variable name="v" select="%s"/><l k="%s" w="cross"><xsl:attribute name="key"><xsl:for-each select="%s"><xsl:value-of select="concat(generate-id(), \' \')"/></xsl:for-each></xsl:attribute>'
                        '<xsl:attribute name="def"><xsl:for-each select="document(\'second.xml\')"><xsl:for-each select="%s"><xsl:value-of select="concat(generate-id(), \' \')"/></xsl:for-each></xsl:for-each></xsl:attribute>'
                        '<xsl:attribute name="n"><xsl:value-of select="count(%s)"/></xsl:attribute></l>'
                        % (gen_xslt.aesc(v), name, gen_xslt.aesc(sel), gen_xslt.aesc(brute), gen_xslt.aesc(sel)))
            continue
        ctx_open = '<xsl:for-each select="document(\'second.xml\')">' if where == 'second' else ''
        ctx_close = '</xsl:for-each>' if where == 'second' else ''
        body.append('%s<xsl:variable name="v" select="%s"/><l k="%s" w="%s"><xsl:attribute name="key"><xsl:for-each select="key(\'%s\', $v)"><xsl:value-of select="concat(generate-id(), \' \')"/></xsl:for-each></xsl:attribute>'
                    '<xsl:attribute name="def"><xsl:for-each select="%s"><xsl:value-of select="concat(generate-id(), \' \')"/></xsl:for-each></xsl:attribute>'
                    '<xsl:attribute name="n"><xsl:value-of select="count(key(\'%s\', $v))"/></xsl:attribute></l>%s'
                    % (ctx_open, gen_xslt.aesc(v), name, where, name, gen_xslt.aesc(brute), name, ctx_close))
    body.append('</out>')
    # every lookup needs its own variable scope: wrap each in a for-each over the root of its document
    wrapped = []
    for chunk in body[1:-1]:
        wrapped.append('<xsl:for-each select="/">' + chunk + '</xsl:for-each>')
    parts.append('<xsl:template match="/"><out>' + ''.join(wrapped) + '</out></xsl:template></xsl:stylesheet>')
    files = dict((fn, (HEAD % '') + ''.join(sorted(ds, key=lambda d: not d.startswith('<xsl:import'))) + '</xsl:stylesheet>') for fn, ds in modules.items())
    return ''.join(parts), keys, lookups, files


def case(ctx, idx, res):
    r = rng_for(ctx.seed, 'c15', idx)
    runner = ctx.cache.get('runner')
    if runner is None:
        runner = ctx.cache['runner'] = XC.Runner(ctx, 'plain')
    xml, info = gen_xml.gen_doc(r, size=r.choice([10, 20, 35]), ns=r.random() < 0.5)
    use_second = r.random() < 0.4
    second, info2 = gen_xml.gen_doc(r, size=r.choice([6, 12]), ns=r.random() < 0.5)
    if use_second:
        info.elem_names |= info2.elem_names
        info.attr_names |= info2.attr_names
    xsl, keys, lookups, files = gen_case(r, info, use_second)
    d = os.path.join(ctx.workdir, 'c15')
    os.makedirs(d, exist_ok=True)
    open(os.path.join(d, 'second.xml'), 'w').write(second)
    for fn, text in files.items():
        open(os.path.join(d, fn), 'w', encoding='utf-8').write(text)
    if files:
        res.count('cases_with_modules')
    mp = os.path.join(d, 'main.xsl')
    open(mp, 'w').write(xsl)
    rx = runner.transform(None, xml, sty='file', xslpath=mp)
    payload = {'stylesheet': xsl, 'document': xml, 'second.xml': second if use_second else None, 'modules': files}
    res.count('cases')
    res.count('lookups', len(lookups))
    res.sig = tuple(sorted((k[1], k[3]) for k in keys))
    res.sample = {'keys': ['%s match=%s use=%s' % (k[0], k[1], k[3]) for k in keys], 'lookups': lookups[:4]}
    if rx.status != 0:
        res.viol('fails', 'key stylesheet fails: %s' % rx.err[:200], payload)
        return
    try:
        tree = refxml.parse(XC._DECL.sub('', rx.out.decode('utf-8')))
    except (refxml.ParseError, UnicodeDecodeError) as e:
        res.viol('not-well-formed', str(e), payload)
        return
    out = [c for c in tree.children if c.kind == refxml.ELEM][0]
    ls = [c for c in out.children if c.kind == refxml.ELEM]
    for l, (name, v, where) in zip(ls, lookups):
        at = dict((a.local, a.value) for a in l.attrs)
        kset, dset = at.get('key', '').split(), at.get('def', '').split()
        decl = [(k[1], k[3]) for k in keys if k[0] == name]
        if kset != dset or int(at.get('n', '-1')) != len(kset):
            if sorted(kset) == sorted(dset):
                kind = 'order'
            elif len(set(kset)) != len(kset):
                kind = 'duplicates'
            elif set(kset) < set(dset):
                kind = 'missing'
            elif set(kset) > set(dset):
                kind = 'extra'
            else:
                kind = 'different'
            res.viol('key|%s|%s' % (kind, {'second': 'second-doc', 'cross': 'cross-doc'}.get(where, 'main')),
                     "key('%s', %s) in the %s document returns %d node(s) %s, the declaration(s) %s define %d node(s) %s"
                     % (name, v, where, len(kset), kset[:8], decl, len(dset), dset[:8]), dict(payload, lookup=(name, v, where)))
            return
        res.count('lookups_with_results' if kset else 'lookups_empty')
    # second oracle: the reference interpreter (generate-id values differ: compare structure with ids abstracted)
    try:
        refout, p = refxslt.transform(xsl, xml, loader=lambda h: files.get(h), doc_loader=lambda h: second if h == 'second.xml' else None)
    except (refxslt.XsltError, X.XPathError, X.XPathSyntaxError):
        res.count('reference_error')
        return
    rl = [c for c in [c for c in refout.children if c.kind == refxml.ELEM][0].children if c.kind == refxml.ELEM]
    for l, m, (name, v, where) in zip(ls, rl, lookups):
        n1 = dict((a.local, a.value) for a in l.attrs).get('n')
        n2 = dict((a.local, a.value) for a in m.attrs).get('n')
        if n1 != n2:
            res.viol('key-vs-reference|%s' % ({'second': 'second-doc', 'cross': 'cross-doc'}.get(where, 'main')), "count(key('%s', %s)) is %s, the reference interpreter finds %s" % (name, v, n1, n2), dict(payload, lookup=(name, v, where)))
            return
    res.count('agree_with_reference')


def main():
    chk = Check('C15')
    chk.rule = ('1-4 xsl:key declarations (same name twice, use yielding node-sets, attribute / text / predicate / union match patterns) x documents with '
                'duplicate values, in a third of the cases spread over imported / included modules of two levels that declare the same names, x 10-40 lookups per case in generated or shuffled order, string and node-set arguments, main source and a document() load. '
                'A case is one (declarations, document, lookup sequence); all are non-trivial; distinct = distinct set of (match, use) pairs.')
    chk.assumptions = ['the brute-force defining expression is evaluated by the library itself in the same run (XPath correctness is C02)', 'the reference interpreter gives a second opinion on the counts']
    chk.ensure('plain', 'xvdrv')
    n = 6000 if chk.tier == 'quick' else 80000
    chk.run_cases('c15', 'case', range(n))
    chk.finish(min_nontrivial=100, required_stats=('lookups_with_results', 'agree_with_reference', 'cases_with_modules'))


if __name__ == '__main__':
    main()
