"""C12 — node-sets are duplicate-free sets in one consistent document order.
Oracle: invariant checker over delivered node lists, using document order computed by the
harness itself (refxml pre-order numbering; paths reported by the driver's own tree walk).
(a) insertion histories into MutableNodeRefList through the *InDocOrder entry points with nodes of
several documents (native and Xerces-wrapped); (b) union algebra on generated node-set
expressions: A|B = B|A, (A|B)|C = A|(B|C), A|A = A, and order/uniqueness of every result."""
import os, sys
sys.path.insert(0, os.path.join(os.path.dirname(os.path.abspath(__file__)), '..'))
from framework import Check, rng_for
from xvdriver import DriverDied
import refxml, refxpath as X, gen_xml, gen_xpath, xpcommon as C
import c02

NS = gen_xml.expr_namespaces()


def order_map(doc):
    return {n.path(): n.order for n in c02.all_nodes(doc)}


def check_list(entries, orders, what):
    """entries: [(dochandle, path)]; returns None or (kind, detail)"""
    seen = set()
    for e in entries:
        if e in seen:
            return ('duplicate', '%s: node %s:%s delivered twice' % (what, e[0], e[1]))
        seen.add(e)
    # contiguity per document
    closed = set()
    cur = None
    for d, p in entries:
        if d != cur:
            if d in closed:
                return ('interleaved', '%s: nodes of document %s are interleaved with another document: %s' % (what, d, [x[0] + ':' + x[1] for x in entries][:20]))
            if cur is not None:
                closed.add(cur)
            cur = d
    # order inside each document (namespace nodes vs attributes of one element: not ordered by the statement)
    last = {}
    for d, p in entries:
        o = orders[d].get(p)
        if o is None:
            if '/ns:' in p:
                continue
            return ('unknown-node', '%s: unknown node %s' % (what, p))
        if d in last and o < last[d][0]:
            a, b = last[d][1], p
            if a.rsplit('/', 1)[0] == b.rsplit('/', 1)[0] and ('/ns:' in a or '/ns:' in b):
                continue
            return ('order', '%s: %s is delivered after %s' % (what, b, a))
        last[d] = (o, p)
    return None


def case(ctx, idx, res):
    r = rng_for(ctx.seed, 'c12', idx)
    drv = ctx.drv('plain')
    ndocs = r.choice([1, 2, 2, 3])
    docs = []
    handles = []
    res.evals = 0
    try:
        for k in range(ndocs):
            xml, info = gen_xml.gen_doc(r, size=r.choice([6, 12, 25]), ns=r.random() < 0.4, ids=False)
            xer = r.random() < 0.3
            h = drv.call(cmd='xdoc', xml=xml, xerces=1 if xer else 0, buildmaps=r.choice([0, 1]))['doc'].decode()
            doc = refxml.parse(xml)
            docs.append((h, doc, xml, info, xer))
            handles.append(h)
        orders = {h: order_map(d) for h, d, _, _, _ in docs}
        allnodes = {h: [n for n in c02.all_nodes(d)] for h, d, _, _, _ in docs}
        # ---- (a) insertion histories -----------------------------------------------------
        for rep_i in range(6):
            ops = []
            expected = set()
            nops = r.choice([3, 8, 20, 60, 200 if ctx.tier == 'thorough' else 40])
            strategy = r.choice(['random', 'ascending', 'descending', 'blocks', 'shared-ends', 'shared-ends'])
            if strategy == 'shared-ends':
                # lists that agree in length, first and last node but not in between (what a "same list" shortcut would confuse)
                h = r.choice(handles)
                nodes = sorted(allnodes[h], key=lambda n: n.order)
                if len(nodes) >= 5:
                    k = r.choice([3, 3, 4, 6])
                    lo, hi = sorted(r.sample(range(len(nodes)), 2))
                    if hi - lo >= k:
                        for _ in range(r.choice([2, 3])):
                            inner = sorted(r.sample(range(lo + 1, hi), min(k - 2, hi - lo - 1)))
                            sub = [nodes[lo]] + [nodes[i] for i in inner] + [nodes[hi]]
                            ops.append('addlistindoc doc %s' % ';'.join('%s:%s' % (h, n.path()) for n in sub))
                            expected.update((h, n.path()) for n in sub)
                nops = r.choice([0, 2])
            for _ in range(nops):
                h = r.choice(handles)
                nodes = allnodes[h]
                k = r.random()
                if k < 0.6:
                    n = r.choice(nodes)
                    ops.append('addindoc %s:%s' % (h, n.path()))
                    expected.add((h, n.path()))
                elif k < 0.97:
                    sub = [n for n in nodes if r.random() < r.choice([0.1, 0.3, 0.7])]
                    if not sub:
                        continue
                    flag = r.choice(['doc', 'rev', 'unk'])
                    if flag == 'rev':
                        sub = sub[::-1]
                    elif flag == 'unk':
                        r.shuffle(sub)
                        if r.random() < 0.3:
                            sub = sub + sub[:2]
                    ops.append('addlistindoc %s %s' % (flag, ';'.join('%s:%s' % (h, n.path()) for n in sub)))
                    expected.update((h, n.path()) for n in sub)
                else:
                    ops.append('clear')
                    expected = set()
            rp = drv.call(cmd='nodelist', doc=handles[0], ops='\n'.join(ops))
            res.evals += 1
            if 'error' in rp:
                res.inconclusive.append('harness-exception: nodelist: %s' % rp['error'].decode())
                continue
            entries = [tuple(x.split(':', 1)) for x in rp['nodes'].decode().split('\n') if x]
            payload = {'ops': ops, 'documents': [(h, x, xer) for h, d, x, i, xer in docs], 'delivered': entries[:200]}
            bad = check_list(entries, orders, 'insertion history')
            if bad is None and set(entries) != expected:
                missing = sorted(expected - set(entries))[:5]
                extra = sorted(set(entries) - expected)[:5]
                bad = ('content', 'insertion history: list lacks %s / has unexpected %s' % (missing, extra))
            if bad:
                mops = shrink_ops(drv, handles[0], ops, orders, bad[0])
                res.viol('nodelist|%s|docs=%d' % (bad[0], min(len(set(o.split(':')[0].split()[-1] for o in mops if ':' in o)), 3)),
                         '%s after %d operations (minimal: %s)' % (bad[1], len(ops), mops[:6]), dict(payload, minimal_ops=mops))
            res.count('histories')
            res.count('docs_%d' % ndocs)
        # ---- (b) union algebra --------------------------------------------------------------
        h, doc, xml, info, xer = docs[0]
        nodes = allnodes[h]
        variables = c02.make_vars(r, nodes)
        onodes = sorted(nodes, key=lambda n: n.order)
        if len(onodes) >= 6:
            lo, hi = sorted(r.sample(range(len(onodes)), 2))
            if hi - lo >= 3:
                k = min(r.choice([1, 2, 4]), hi - lo - 1)
                variables['ns1'] = [onodes[lo]] + [onodes[i] for i in sorted(r.sample(range(lo + 1, hi), k))] + [onodes[hi]]
                variables['ns2'] = [onodes[lo]] + [onodes[i] for i in sorted(r.sample(range(lo + 1, hi), k))] + [onodes[hi]]
        for j in range(12):
            g = gen_xpath.Gen(r, info, c02.VTYPES, max_depth=2)
            A, B, Cx = g.e_ns(1), g.e_ns(1), g.e_ns(1)
            if j < 3:
                A, B = '$ns1', '$ns2'          # equal length, same first and last node, different interior
            cnode = r.choice(nodes)
            forms = {'A|B': '(%s) | (%s)' % (A, B), 'B|A': '(%s) | (%s)' % (B, A), '(A|B)|C': '((%s) | (%s)) | (%s)' % (A, B, Cx),
                     'A|(B|C)': '(%s) | ((%s) | (%s))' % (A, B, Cx), 'A|A': '(%s) | (%s)' % (A, A), 'A': A}
            out = {}
            err = False
            for name, e in forms.items():
                rp = C.call_xpath(drv, h, e, cnode.path(), [cnode.path()], NS, variables, 'generic')
                res.evals += 1
                if 'nodes' not in rp and rp.get('type') != 'node-set':
                    err = True
                    break
                out[name] = [p for p in rp.get('nodes', '').split('\n') if p]
            if err:
                res.count('union_skipped')
                continue
            payload = {'A': A, 'B': B, 'C': Cx, 'context': cnode.path(), 'document': xml, 'xerces': xer}
            for name, lst in out.items():
                bad = check_list([(h, p) for p in lst], orders, 'result of ' + name)
                if bad:
                    res.viol('union|%s|%s' % (bad[0], name), '%s with A=%s B=%s C=%s' % (bad[1], A, B, Cx), payload)
            for x, y, law in (('A|B', 'B|A', 'commutative'), ('(A|B)|C', 'A|(B|C)', 'associative'), ('A|A', 'A', 'idempotent')):
                if out[x] != out[y]:
                    res.viol('union|%s' % law, 'union is not %s: %s gives %s, %s gives %s (A=%s B=%s C=%s)' % (law, x, out[x][:10], y, out[y][:10], A, B, Cx), payload)
            res.count('union_triples')
    finally:
        for h in handles:
            try:
                drv.call(cmd='xdocdel', doc=h)
            except DriverDied:
                pass
    res.sig = idx
    res.sample = {'documents': ndocs, 'last_ops': ops[:5]}


def shrink_ops(drv, h0, ops, orders, kind):
    cur = list(ops)
    changed = True
    budget = 200
    while changed and budget > 0:
        changed = False
        for i in range(len(cur)):
            cand = cur[:i] + cur[i + 1:]
            if not cand:
                continue
            budget -= 1
            rp = drv.call(cmd='nodelist', doc=h0, ops='\n'.join(cand))
            if 'nodes' not in rp:
                continue
            entries = [tuple(x.split(':', 1)) for x in rp['nodes'].decode().split('\n') if x]
            bad = check_list(entries, orders, '')
            if bad and bad[0] == kind:
                cur = cand
                changed = True
                break
    return cur


# ---- (c) node-sets spanning result tree fragments, the stylesheet document and the source, at the XSLT level -------------------------
def multi_doc_case(ctx, idx, res):
    """unions over several documents as a stylesheet sees them: two result tree fragments turned into node-sets (exsl:node-set), the stylesheet
    itself (document('')), a second source (document(...) of a generated file) and the main source.  Every element carries its own place
    in its document (@n, ascending in document order), so that the delivered sequence can be judged without trusting the library's order:
    no node twice, the nodes of one document contiguous, ascending within a document, and every association / permutation of one union
    delivering the same sequence."""
    import xsltcommon as XC
    r = rng_for(ctx.seed, 'c12m', idx)
    runner = ctx.cache.get('runner')
    if runner is None:
        runner = ctx.cache['runner'] = XC.Runner(ctx, 'plain')
    wd = os.path.join(ctx.workdir, 'c12m')
    os.makedirs(wd, exist_ok=True)
    counter = [0]

    def tree(depth, tag):
        counter[0] += 1
        me = counter[0]
        kids = ''.join(tree(depth + 1, tag) for _ in range(r.choice([0, 1, 2, 3]) if depth < 3 else 0))
        return '<e n="%d" d="%s"%s>%s</e>' % (me, tag, ' a="%d"' % me if r.random() < 0.5 else '', kids)

    def doc(tag):
        counter[0] = 0
        return '<top n="0" d="%s">%s</top>' % (tag, ''.join(tree(0, tag) for _ in range(r.choice([1, 2, 3]))))
    main_xml, ext_xml, r1, r2 = doc('main'), doc('ext'), doc('r1'), doc('r2')
    open(os.path.join(wd, 'ext.xml'), 'w').write(ext_xml)
    SRC = {'main': '', 'ext': "document('ext.xml')", 'r1': 'exsl:node-set($r1)', 'r2': 'exsl:node-set($r2)', 'r1b': 'xalan:nodeset($r1)'}
    PRED = ['', '[@n mod 2 = 0]', '[@n mod 3 = 1]', '[@a]', '[not(*)]', '[@n &gt; 3]', '[position() = last()]', '[1]']

    def operand():
        k = r.choice(sorted(SRC))
        step = r.choice(['//e', '//e', '//*', '/top/e', '//e/e', '//e/@a', '//e/@n', '//e/parent::*', '//e/ancestor-or-self::*', '/top/parent::node()', '//e/ancestor-or-self::node()', '/top/e/ancestor::node()', '//e/following-sibling::e', '//e/preceding::e'])
        return SRC[k] + step + r.choice(PRED)
    ops = [operand() for _ in range(3)]
    a, b, c = ops
    forms = ['%s | %s | %s' % (a, b, c), '%s | %s | %s' % (c, b, a), '(%s | %s) | %s' % (b, a, c), '%s | (%s | %s)' % (a, c, b), '%s | %s | %s | %s' % (a, b, c, a), '(%s | %s) | (%s | %s)' % (a, b, b, c)]
    body = ''.join('<u f="%d"><xsl:for-each select="%s"><x d="{(ancestor-or-self::*[last()] | *)[1]/@d}" n="{(self::*|..)[last()]/@n}" k="{name()}" g="{generate-id()}" root="{count(self::node()[not(parent::node())][not(self::*)])}"/></xsl:for-each></u>' % (i, f) for i, f in enumerate(forms))
    xsl = ('<xsl:stylesheet version="1.0" xmlns:xsl="http://www.w3.org/1999/XSL/Transform" xmlns:exsl="http://exslt.org/common" xmlns:xalan="http://xml.apache.org/xalan" exclude-result-prefixes="exsl xalan">'
           '<xsl:variable name="r1">%s</xsl:variable><xsl:variable name="r2">%s</xsl:variable><xsl:template match="/"><out>%s</out></xsl:template></xsl:stylesheet>' % (r1, r2, body))
    rx = runner.transform(xsl, main_xml, xslsysid='file://' + os.path.join(wd, 'sheet.xsl'), xmlsysid='file://' + os.path.join(wd, 'main.xml'))
    payload = {'stylesheet': xsl, 'document': main_xml, 'ext.xml': ext_xml, 'operands': ops}
    res.count('multi_document_unions')
    res.sig = ('multi-doc', idx)
    if rx.status != 0:
        res.viol('multi|fails', 'the union stylesheet fails: %s' % rx.err[:200], payload)
        return
    tree_ = refxml.parse(XC._DECL.sub('', rx.out.decode('utf-8')))
    us = [u for u in [c for c in tree_.children if c.kind == refxml.ELEM][0].children if u.kind == refxml.ELEM]
    seqs = []
    for u in us:
        seqs.append([dict((a_.local, a_.value) for a_ in x.attrs) for x in u.children if x.kind == refxml.ELEM])
    docs_seen = set()
    for i, sq in enumerate(seqs):
        ids = [x['g'] for x in sq]
        if len(set(ids)) != len(ids):
            res.viol('multi|duplicate', 'the union %r delivers a node twice (%d nodes, %d distinct)' % (forms[i], len(ids), len(set(ids))), payload)
            return
        order, last = [], {}
        for x in sq:
            d_ = x['d']
            if not order or order[-1] != d_:
                if d_ in order:
                    res.viol('multi|interleaved', 'the union %r interleaves the nodes of different documents: %s' % (forms[i], [y['d'] for y in sq][:40]), payload)
                    return
                order.append(d_)
            if x['root'] == '1':
                x['n'] = '-1'           # the root comes before the top element (number 0)
            if x['n'] == '':
                # (self::* | ..)[last()] is the node itself (or the parent of an attribute); no number means it delivered the root instead
                res.viol('multi|order', 'in the union %r the expression (self::* | ..)[last()] at the %s element of document %s selects the root: the root is ordered after its child' % (forms[i], x['k'], d_), payload)
                return
            key = (int(x['n']), 0 if x['k'] != 'a' and x['k'] != 'n' else 1)       # an element before its own attributes
            if d_ in last and key < last[d_]:
                res.viol('multi|order', 'the union %r is not in document order within document %s: @n %s' % (forms[i], d_, [y['n'] + ('@' if y['k'] in 'an' else '') for y in sq if y['d'] == d_][:40]), payload)
                return
            last[d_] = key
            docs_seen.add(d_)
        # which document comes first is not prescribed (here: the one met first), so the forms are compared document by document
        def per_doc(q):
            out = {}
            for x in q:
                out.setdefault(x['d'], []).append(x['g'])
            return out
        if i and per_doc(sq) != per_doc(seqs[0]):
            res.viol('multi|algebra', 'the unions %r and %r of the same operands deliver different node-sets: %s / %s' % (forms[0], forms[i], [(x['d'], x['n']) for x in seqs[0]][:20], [(x['d'], x['n']) for x in sq][:20]), payload)
            return
    res.count('multi_document_sequences_checked', len(seqs))
    res.count('multi_documents_in_one_union_%d' % min(len(docs_seen), 4))
    res.sample = {'operands': ops}


def main():
    chk = Check('C12')
    chk.rule = ('(a) random insertion histories (3..200 ops) into MutableNodeRefList via addNodeInDocOrder / addNodesInDocOrder (lists flagged '
                'document / reverse / unknown order, with duplicates) over 1-3 documents (native, Xerces-wrapped with and without index maps); '
                '(b) union algebra on triples of generated node-set expressions; (c) unions spanning two result tree fragments (exsl:node-set, xalan:nodeset), a second source (document()) and the main source, in six associations / permutations, judged by a document-order number every element carries. A case is one history or one triple; all are non-trivial; '
                'distinct = distinct case index.')
    chk.assumptions = ['document order is computed by the harness from its own parse (refxml)', 'relative order of namespace nodes and attributes of one element is not checked',
                       'the order of whole documents relative to each other is not prescribed; only contiguity is checked']
    chk.ensure('plain', 'xvdrv')
    n = 1500 if chk.tier == 'quick' else 100000
    chk.run_cases('c12', 'case', range(n))
    chk.run_cases('c12', 'multi_doc_case', range(n if chk.tier == 'quick' else n // 10))
    chk.finish(min_nontrivial=100, required_stats=('histories', 'union_triples', 'multi_document_unions', 'multi_documents_in_one_union_3'))


if __name__ == '__main__':
    main()
