"""C12 — node-sets are duplicate-free sets in one consistent document order.
Oracle: invariant checker over delivered node lists, using document order computed by the
harness itself (refxml pre-order numbering; paths reported by the driver's own tree walk).
(a) insertion histories into MutableNodeRefList through the *InDocOrder entry points with nodes of
several documents (native and Xerces-wrapped); (b) union algebra on generated node-set
expressions: A|B = B|A, (A|B)|C = A|(B|C), A|A = A, and order/uniqueness of every result."""
import os, sys
sys.path.insert(0, os.path.join(os.path.dirname(os.path.abspath(__file__)), '..'))
from framework import Check, rng_for
from xvdriver import DriverDied
import refxml, refxpath as X, gen_xml, gen_xpath, xpcommon as C
import c02

NS = gen_xml.expr_namespaces()


def order_map(doc):
    return {n.path(): n.order for n in c02.all_nodes(doc)}


def check_list(entries, orders, what):
    """entries: [(dochandle, path)]; returns None or (kind, detail)"""
    seen = set()
    for e in entries:
        if e in seen:
            return ('duplicate', '%s: node %s:%s delivered twice' % (what, e[0], e[1]))
        seen.add(e)
    # contiguity per document
    closed = set()
    cur = None
    for d, p in entries:
        if d != cur:
            if d in closed:
                return ('interleaved', '%s: nodes of document %s are interleaved with another document: %s' % (what, d, [x[0] + ':' + x[1] for x in entries][:20]))
            if cur is not None:
                closed.add(cur)
            cur = d
    # order inside each document (namespace nodes vs attributes of one element: not ordered by the statement)
    last = {}
    for d, p in entries:
        o = orders[d].get(p)
        if o is None:
            if '/ns:' in p:
                continue
            return ('unknown-node', '%s: unknown node %s' % (what, p))
        if d in last and o < last[d][0]:
            a, b = last[d][1], p
            if a.rsplit('/', 1)[0] == b.rsplit('/', 1)[0] and ('/ns:' in a or '/ns:' in b):
                continue
            return ('order', '%s: %s is delivered after %s' % (what, b, a))
        last[d] = (o, p)
    return None


def case(ctx, idx, res):
    r = rng_for(ctx.seed, 'c12', idx)
    drv = ctx.drv('plain')
    ndocs = r.choice([1, 2, 2, 3])
    docs = []
    handles = []
    res.evals = 0
    try:
        for k in range(ndocs):
            xml, info = gen_xml.gen_doc(r, size=r.choice([6, 12, 25]), ns=r.random() < 0.4, ids=False)
            xer = r.random() < 0.3
            h = drv.call(cmd='xdoc', xml=xml, xerces=1 if xer else 0, buildmaps=r.choice([0, 1]))['doc'].decode()
            doc = refxml.parse(xml)
            docs.append((h, doc, xml, info, xer))
            handles.append(h)
        orders = {h: order_map(d) for h, d, _, _, _ in docs}
        allnodes = {h: [n for n in c02.all_nodes(d)] for h, d, _, _, _ in docs}
        # ---- (a) insertion histories -----------------------------------------------------
        for rep_i in range(6):
            ops = []
            expected = set()
            nops = r.choice([3, 8, 20, 60, 200 if ctx.tier == 'thorough' else 40])
            strategy = r.choice(['random', 'ascending', 'descending', 'blocks', 'shared-ends', 'shared-ends'])
            if strategy == 'shared-ends':
                # lists that agree in length, first and last node but not in between (what a "same list" shortcut would confuse)
                h = r.choice(handles)
                nodes = sorted(allnodes[h], key=lambda n: n.order)
                if len(nodes) >= 5:
                    k = r.choice([3, 3, 4, 6])
                    lo, hi = sorted(r.sample(range(len(nodes)), 2))
                    if hi - lo >= k:
                        for _ in range(r.choice([2, 3])):
                            inner = sorted(r.sample(range(lo + 1, hi), min(k - 2, hi - lo - 1)))
                            sub = [nodes[lo]] + [nodes[i] for i in inner] + [nodes[hi]]
                            ops.append('addlistindoc doc %s' % ';'.join('%s:%s' % (h, n.path()) for n in sub))
                            expected.update((h, n.path()) for n in sub)
                nops = r.choice([0, 2])
            for _ in range(nops):
                h = r.choice(handles)
                nodes = allnodes[h]
                k = r.random()
                if k < 0.6:
                    n = r.choice(nodes)
                    ops.append('addindoc %s:%s' % (h, n.path()))
                    expected.add((h, n.path()))
                elif k < 0.97:
                    sub = [n for n in nodes if r.random() < r.choice([0.1, 0.3, 0.7])]
                    if not sub:
                        continue
                    flag = r.choice(['doc', 'rev', 'unk'])
                    if flag == 'rev':
                        sub = sub[::-1]
                    elif flag == 'unk':
                        r.shuffle(sub)
                        if r.random() < 0.3:
                            sub = sub + sub[:2]
                    ops.append('addlistindoc %s %s' % (flag, ';'.join('%s:%s' % (h, n.path()) for n in sub)))
                    expected.update((h, n.path()) for n in sub)
                else:
                    ops.append('clear')
                    expected = set()
            rp = drv.call(cmd='nodelist', doc=handles[0], ops='\n'.join(ops))
            res.evals += 1
            if 'error' in rp:
                res.inconclusive.append('harness-exception: nodelist: %s' % rp['error'].decode())
                continue
            entries = [tuple(x.split(':', 1)) for x in rp['nodes'].decode().split('\n') if x]
            payload = {'ops': ops, 'documents': [(h, x, xer) for h, d, x, i, xer in docs], 'delivered': entries[:200]}
            bad = check_list(entries, orders, 'insertion history')
            if bad is None and set(entries) != expected:
                missing = sorted(expected - set(entries))[:5]
                extra = sorted(set(entries) - expected)[:5]
                bad = ('content', 'insertion history: list lacks %s / has unexpected %s' % (missing, extra))
            if bad:
                mops = shrink_ops(drv, handles[0], ops, orders, bad[0])
                res.viol('nodelist|%s|docs=%d' % (bad[0], min(len(set(o.split(':')[0].split()[-1] for o in mops if ':' in o)), 3)),
                         '%s after %d operations (minimal: %s)' % (bad[1], len(ops), mops[:6]), dict(payload, minimal_ops=mops))
            res.count('histories')
            res.count('docs_%d' % ndocs)
        # ---- (b) union algebra --------------------------------------------------------------
        h, doc, xml, info, xer = docs[0]
        nodes = allnodes[h]
        variables = c02.make_vars(r, nodes)
        onodes = sorted(nodes, key=lambda n: n.order)
        if len(onodes) >= 6:
            lo, hi = sorted(r.sample(range(len(onodes)), 2))
            if hi - lo >= 3:
                k = min(r.choice([1, 2, 4]), hi - lo - 1)
                variables['ns1'] = [onodes[lo]] + [onodes[i] for i in sorted(r.sample(range(lo + 1, hi), k))] + [onodes[hi]]
                variables['ns2'] = [onodes[lo]] + [onodes[i] for i in sorted(r.sample(range(lo + 1, hi), k))] + [onodes[hi]]
        for j in range(12):
            g = gen_xpath.Gen(r, info, c02.VTYPES, max_depth=2)
            A, B, Cx = g.e_ns(1), g.e_ns(1), g.e_ns(1)
            if j < 3:
                A, B = '$ns1', '$ns2'          # equal length, same first and last node, different interior
            cnode = r.choice(nodes)
            forms = {'A|B': '(%s) | (%s)' % (A, B), 'B|A': '(%s) | (%s)' % (B, A), '(A|B)|C': '((%s) | (%s)) | (%s)' % (A, B, Cx),
                     'A|(B|C)': '(%s) | ((%s) | (%s))' % (A, B, Cx), 'A|A': '(%s) | (%s)' % (A, A), 'A': A}
            out = {}
            err = False
            for name, e in forms.items():
                rp = C.call_xpath(drv, h, e, cnode.path(), [cnode.path()], NS, variables, 'generic')
                res.evals += 1
                if 'nodes' not in rp and rp.get('type') != 'node-set':
                    err = True
                    break
                out[name] = [p for p in rp.get('nodes', '').split('\n') if p]
            if err:
                res.count('union_skipped')
                continue
            payload = {'A': A, 'B': B, 'C': Cx, 'context': cnode.path(), 'document': xml, 'xerces': xer}
            for name, lst in out.items():
                bad = check_list([(h, p) for p in lst], orders, 'result of ' + name)
                if bad:
                    res.viol('union|%s|%s' % (bad[0], name), '%s with A=%s B=%s C=%s' % (bad[1], A, B, Cx), payload)
            for x, y, law in (('A|B', 'B|A', 'commutative'), ('(A|B)|C', 'A|(B|C)', 'associative'), ('A|A', 'A', 'idempotent')):
                if out[x] != out[y]:
                    res.viol('union|%s' % law, 'union is not %s: %s gives %s, %s gives %s (A=%s B=%s C=%s)' % (law, x, out[x][:10], y, out[y][:10], A, B, Cx), payload)
            res.count('union_triples')
    finally:
        for h in handles:
            try:
                drv.call(cmd='xdocdel', doc=h)
            except DriverDied:
                pass
    res.sig = idx
    res.sample = {'documents': ndocs, 'last_ops': ops[:5]}


def shrink_ops(drv, h0, ops, orders, kind):
    cur = list(ops)
    changed = True
    budget = 200
    while changed and budget > 0:
        changed = False
        for i in range(len(cur)):
            cand = cur[:i] + cur[i + 1:]
            if not cand:
                continue
            budget -= 1
            rp = drv.call(cmd='nodelist', doc=h0, ops='\n'.join(cand))
            if 'nodes' not in rp:
                continue
            entries = [tuple(x.split(':', 1)) for x in rp['nodes'].decode().split('\n') if x]
            bad = check_list(entries, orders, '')
            if bad and bad[0] == kind:
                cur = cand
                changed = True
                break
    return cur


def main():
    chk = Check('C12')
    chk.rule = ('(a) random insertion histories (3..200 ops) into MutableNodeRefList via addNodeInDocOrder / addNodesInDocOrder (lists flagged '
                'document / reverse / unknown order, with duplicates) over 1-3 documents (native, Xerces-wrapped with and without index maps); '
                '(b) union algebra on triples of generated node-set expressions. A case is one history or one triple; all are non-trivial; '
                'distinct = distinct case index.')
    chk.assumptions = ['document order is computed by the harness from its own parse (refxml)', 'relative order of namespace nodes and attributes of one element is not checked',
                       'the order of whole documents relative to each other is not prescribed; only contiguity is checked']
    chk.ensure('plain', 'xvdrv')
    n = 400 if chk.tier == 'quick' else 100000
    chk.run_cases('c12', 'case', range(n))
    chk.finish(min_nontrivial=100, required_stats=('histories', 'union_triples'))


if __name__ == '__main__':
    main()
