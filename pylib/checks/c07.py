"""C07 — compiled stylesheets and parsed sources can be shared by concurrent threads.
Oracle: ThreadSanitizer (happens-before race detector) over drivers/xvmt.cpp, which runs N threads,
each with its own XalanTransformer, over SHARED compiled stylesheets and SHARED parsed sources (native
and Xerces-DOM backed in thread-safe mode), plus byte-equality of every concurrent result with the
sequential one.  Reach comes from many short runs: thread counts 2..16 on 16 cores with the machine
oversubscribed by parallel runs, randomized yields, stylesheets that touch every lazily initialised
facility (keys, xsl:number, document(), format-number, sort, id(), EXSLT, variables) and generated ones."""
import os, re, shutil, subprocess, sys
sys.path.insert(0, os.path.join(os.path.dirname(os.path.abspath(__file__)), '..'))
from framework import Check, rng_for
from xvdriver import exe_path, sanitizer_env
import gen_xml, gen_xslt

HEAD = gen_xslt.HEAD
FACILITY = {
    'keys': '<xsl:key name="byname" match="*" use="name()"/><xsl:key name="byattr" match="*[@*]" use="@*"/><xsl:template match="/"><out><xsl:for-each select="//*"><k n="{count(key(\'byname\', name()))}" a="{count(key(\'byattr\', @*[1]))}"/></xsl:for-each></out></xsl:template>',
    'number': '<xsl:template match="/"><out><xsl:for-each select="//*"><n><xsl:number level="any"/>.<xsl:number level="multiple" count="*" format="1.a.i"/>.<xsl:number level="any" count="*[@*]" format="I"/></n></xsl:for-each></out></xsl:template>',
    'document': '<xsl:template match="/"><out self="{count(document(\'\')//xsl:template)}"><xsl:copy-of select="document(\'extra.xml\')/*/*[1]"/><xsl:for-each select="document(\'extra.xml\')//*"><d n="{name()}"/></xsl:for-each><m n="{count(document(\'missing.xml\'))}"/></out></xsl:template>',
    'format-number': '<xsl:decimal-format name="eu" decimal-separator="," grouping-separator="."/><xsl:template match="/"><out><xsl:for-each select="//*"><f a="{format-number(count(preceding::*) * 1234.5678, \'#.##0,00\', \'eu\')}" b="{format-number(position() div 3, \'0.###\')}" c="{format-number(-position(), \'#;(#)\')}"/></xsl:for-each></out></xsl:template>',
    'sort': '<xsl:template match="/"><out><xsl:for-each select="//*"><xsl:sort select="name()" order="descending"/><xsl:sort select="count(ancestor::*)" data-type="number"/><s n="{name()}" p="{position()}"/></xsl:for-each><xsl:apply-templates select="//*" mode="m"><xsl:sort select="string-length(.)" data-type="number"/></xsl:apply-templates></out></xsl:template><xsl:template match="*" mode="m"><m p="{position()}"/></xsl:template>',
    'id': '<xsl:template match="/"><out><xsl:for-each select="//*[@id]"><i same="{generate-id(id(@id)) = generate-id(.)}" n="{count(id(//@id))}"/></xsl:for-each><g><xsl:value-of select="string-length(generate-id(/*)) &gt; 0"/>=<xsl:value-of select="generate-id(/*) = generate-id(//*[1])"/></g></out></xsl:template>',
    'variables': '<xsl:variable name="g" select="//*"/><xsl:variable name="rtf"><a><b>t</b></a></xsl:variable><xsl:param name="p" select="count($g)"/><xsl:template match="/"><out g="{count($g)}" p="{$p}"><xsl:copy-of select="$rtf"/><xsl:call-template name="rec"><xsl:with-param name="n" select="12"/></xsl:call-template></out></xsl:template><xsl:template name="rec"><xsl:param name="n"/><xsl:if test="$n &gt; 0"><r n="{$n}"/><xsl:call-template name="rec"><xsl:with-param name="n" select="$n - 1"/></xsl:call-template></xsl:if></xsl:template>',
    'functions': '<xsl:template match="/"><out v="{system-property(\'xsl:version\')}" e="{element-available(\'xsl:copy\')}" f="{function-available(\'document\')}" u="{unparsed-entity-uri(\'nope\')}" l="{lang(\'en\')}" t="{translate(name(/*), \'abcdefghijklmnopqrstuvwxyz\', \'ABCDEFGHIJKLMNOPQRSTUVWXYZ\')}" s="{substring-after(string(//*[2]), \' \')}" n="{normalize-space(/)}"/></xsl:template>',
    'copy-identity': '<xsl:template match="@*|node()"><xsl:copy><xsl:apply-templates select="@*|node()"/></xsl:copy></xsl:template>',
    'message-strip': '<xsl:strip-space elements="*"/><xsl:template match="/"><out><xsl:message>note</xsl:message><xsl:for-each select="//text()"><t><xsl:value-of select="."/></t></xsl:for-each></out></xsl:template>',
    'html-output': '<xsl:output method="html" indent="yes"/><xsl:template match="/"><html><head><title>t</title></head><body><xsl:for-each select="//*"><p class="{name()}"><xsl:value-of select="name()"/><br/></p></xsl:for-each></body></html></xsl:template>',
    'exslt': '<xsl:template match="/"><out xmlns:exsl="http://exslt.org/common" xmlns:math="http://exslt.org/math" xmlns:set="http://exslt.org/sets" xmlns:str="http://exslt.org/strings"><xsl:variable name="r"><a>1</a><a>5</a><a>3</a></xsl:variable><e n="{count(exsl:node-set($r)/a)}" m="{math:max(exsl:node-set($r)/a)}" d="{count(set:distinct(//*/@*))}" p="{str:padding(3, \'ab\')}"/></out></xsl:template>',
    # state the process (not the stylesheet) builds lazily: numbering tables per script / language, collators, transcoders, message texts
    'number-scripts': '<xsl:template match="/"><out><xsl:for-each select="//*"><n><xsl:number level="any" format="&#x3B1;" letter-value="traditional"/>|<xsl:number level="any" format="&#x3B1;" letter-value="alphabetic"/>|'
                      '<xsl:number level="multiple" count="*" format="&#x3B1;.1.a.A.i.I.01" letter-value="traditional"/>|<xsl:number value="position() * 1234567" grouping-separator="," grouping-size="3"/>|<xsl:number level="any" format="i" lang="el"/>|'
                      '<xsl:number level="any" format="A" lang="en"/>|<xsl:number value="position() * 37" format="&#x3B1;" letter-value="traditional"/></n></xsl:for-each></out></xsl:template>',
    'number-unsupported': '<xsl:template match="/"><out><xsl:for-each select="//*"><n><xsl:number level="any" format="&#x5D0;" letter-value="traditional"/></n></xsl:for-each></out></xsl:template>',
    'sort-lang': '<xsl:template match="/"><out><xsl:for-each select="//*"><xsl:sort select="name()" lang="fr" case-order="upper-first"/><xsl:sort select="@*" lang="en" case-order="lower-first" order="descending"/><s n="{name()}"/></xsl:for-each><xsl:for-each select="//*"><xsl:sort select="." lang="de"/><t p="{position()}"/></xsl:for-each></out></xsl:template>',
    'encoding-latin1': '<xsl:output encoding="ISO-8859-1"/><xsl:template match="/"><out a="&#233;&#8364;"><xsl:copy-of select="/*"/><xsl:text>&#x20AC;&#x1F600;</xsl:text></out></xsl:template>',
    'encoding-utf16': '<xsl:output encoding="UTF-16"/><xsl:template match="/"><out a="&#233;&#8364;"><xsl:copy-of select="/*"/></out></xsl:template>',
    'encoding-1252-text': '<xsl:output method="text" encoding="windows-1252"/><xsl:template match="/">caf&#233; &#8364; <xsl:value-of select="/"/></xsl:template>',
    'fails-terminate': '<xsl:template match="/"><out><xsl:copy-of select="/*/*[1]"/><xsl:message terminate="yes">stop <xsl:value-of select="name(/*)"/></xsl:message></out></xsl:template>',
    'fails-extension': '<xsl:template match="/"><out xmlns:ext="urn:verif-none"><xsl:value-of select="ext:missing(1)"/></out></xsl:template>',
    'warns': '<xsl:template match="/"><out><xsl:element name="1bad">x</xsl:element><xsl:attribute name="late">v</xsl:attribute><xsl:copy-of select="document(\'nowhere.xml\')"/><xsl:value-of select="format-number(1, \'#\', \'nodf\')"/></out></xsl:template>',
}
COLD_FIRST = ['number-scripts', 'number-unsupported', 'sort-lang', 'encoding-latin1', 'encoding-utf16', 'encoding-1252-text', 'fails-terminate', 'fails-extension', 'warns', 'number', 'format-number', 'exslt', 'functions', 'html-output', 'keys', 'id', 'document']
EXTRA = '<extra><x a="1">one</x><y>two<z/></y><x a="2"/></extra>'


def write_case(r, wd, avoid, cold=False):
    if os.path.isdir(wd):
        shutil.rmtree(wd)
    os.makedirs(wd)
    docs = []
    for j in range(r.choice([2, 3])):
        xml, info = gen_xml.gen_doc(r, size=r.choice([10, 20, 40]), ids=(j == 0))
        docs.append((xml, info))
        open(os.path.join(wd, 'doc%d.xml' % j), 'w', encoding='utf-8').write(xml)
    open(os.path.join(wd, 'extra.xml'), 'w').write(EXTRA)
    sheets = []
    if cold:
        # the first thing every thread does is sheet 0 on document 0: one facility per process gets its first use under contention
        fac = [COLD_FIRST[(cold - 1) % len(COLD_FIRST)]] + r.sample(sorted(FACILITY), r.choice([1, 2]))
    else:
        fac = r.sample(sorted(FACILITY), r.choice([4, 6, 8]))
    for name in fac:
        sheets.append((name, (HEAD % '') + FACILITY[name] + '</xsl:stylesheet>'))
    for _ in range(0 if cold else r.choice([1, 2, 3])):
        xml, info = r.choice(docs)
        g = gen_xslt.SGen(r, info, avoid=avoid, max_templates=r.choice([4, 8]), body_depth=2)
        sheets.append(('generated', g.stylesheet()))
    for k, (name, text) in enumerate(sheets):
        open(os.path.join(wd, 'sheet%d.xsl' % k), 'w', encoding='utf-8').write(text)
    with open(os.path.join(wd, 'pairs.txt'), 'w') as f:
        for k in range(len(sheets)):
            for j in range(len(docs)):
                f.write('%d %d\n' % (k, j))
    return sheets, docs


_REPORT = re.compile(r'WARNING: ThreadSanitizer: ([\w \-]+?) \(pid')


def tsan_reports(wd):
    """[(kind, (frame, frame))] for each report block in the log files"""
    out = []
    for fn in sorted(os.listdir(wd)):
        if not fn.startswith('tsan.'):
            continue
        text = open(os.path.join(wd, fn), errors='replace').read()
        for block in text.split('==================')[1:]:
            m = _REPORT.search(block)
            if not m:
                continue
            frames = []
            for line in block.splitlines():
                fm = re.match(r'\s+#\d+ (.+?) (?:/|\.\./|<null>|\()', line)
                if fm:
                    fn_ = re.sub(r'\(.*$', '', fm.group(1)).replace('xalanc_1_12::', '')
                    fn_ = re.sub(r'<.*>', '<>', fn_)
                    if fn_ not in ('operator new', 'operator delete', 'malloc', 'free', 'memcpy', 'memmove', 'memset') and fn_ not in frames:
                        frames.append(fn_)
            out.append((m.group(1).strip(), tuple(frames[:4]), block[:3000]))
    return out


def case(ctx, idx, res):
    r = rng_for(ctx.seed, 'c07', idx)
    wd = os.path.join(ctx.workdir, 'c07', 'case')
    cold = idx % 2 == 1
    sheets, docs = write_case(r, wd, ctx.findings_avoid, 1 + idx // 2 if cold else 0)
    threads = r.choice([2, 3, 4, 8, 8, 12, 16])
    iters = r.choice([10, 20, 40]) if ctx.tier == 'quick' else r.choice([20, 60, 150])
    yield_ = r.choice([0, 1, 1])
    seed = r.randrange(1, 1 << 30)
    if cold:
        threads, iters, yield_ = r.choice([4, 8, 12, 16]), r.choice([2, 3, 5]), 0
        cold = 1 + r.choice([0, 0, 1, 2])        # source form of the common first transformation: shared native, shared Xerces-DOM backed, parsed per call
    env = sanitizer_env('tsan')
    env['TSAN_OPTIONS'] = 'halt_on_error=0:second_deadlock_stack=1:history_size=4:report_signal_unsafe=0:log_path=%s' % os.path.join(wd, 'tsan')
    cmd = [exe_path('tsan', 'xvmt'), wd, str(threads), str(iters), str(seed), str(yield_), str(int(cold))]
    try:
        p = subprocess.run(cmd, capture_output=True, text=True, errors='replace', timeout=420, env=env, cwd=wd)
    except subprocess.TimeoutExpired:
        res.inconclusive.append('timeout')
        return
    out = p.stdout
    payload = {'command': ' '.join(cmd), 'sheets': dict(('sheet%d.xsl' % k, t) for k, (n, t) in enumerate(sheets)), 'docs': dict(('doc%d.xml' % j, d[0]) for j, d in enumerate(docs)),
               'extra.xml': EXTRA, 'stdout_tail': out[-1500:]}
    m = re.search(r'SUMMARY threads=(\d+) done=(\d+) mismatches=(\d+) max_overlap=(\d+) pairs=(\d+)', out)
    if not m:
        if 'HARNESS' in out:
            res.inconclusive.append('harness-exception: ' + out[-300:])
            return
        res.viol('death|rc=%s' % p.returncode, 'xvmt ended with status %s without a summary: %s' % (p.returncode, (p.stderr or out)[-400:]), payload)
        return
    done, mism, overlap, pairs = int(m.group(2)), int(m.group(3)), int(m.group(4)), int(m.group(5))
    res.evals = done
    res.count('runs')
    res.count('cold_runs' if cold else 'warm_runs')
    if cold:
        res.count('cold_first_' + sheets[0][0])
    res.count('concurrent_transformations', done)
    res.count('threads_%d' % threads)
    res.count('max_overlap_seen_%d' % min(overlap, 16))
    res.count('sequential_pairs', pairs)
    names = [n for n, t in sheets]
    for n in set(names):
        res.count('facility_' + n)
    ov = re.search(r'OVERLAP(.*)', out)
    sig = set(('sheet', n) for n in names)
    if ov:
        for tok in ov.group(1).split():
            a, b = tok.split(':')
            sig.add(('overlap', int(a)))
    res.sigs = sig | set([('threads', threads, yield_)]) | (set([('cold', sheets[0][0])]) if cold else set())
    res.sample = {'threads': threads, 'iterations': iters, 'yield': yield_, 'cold': cold, 'max_overlap': overlap, 'sheets': names}
    if 'NONDETERMINISTIC' in out:
        res.viol('sequential-nondeterministic', 'two sequential runs of the same pair differ: %s' % re.findall(r'NONDETERMINISTIC.*', out)[:3], payload)
    if mism:
        lines = re.findall(r'MISMATCH.*', out)
        k = re.search(r'sheet=(\d+)', lines[0])
        which = names[int(k.group(1))] if k else '?'
        res.viol('mismatch|%s' % which, '%d of %d concurrent transformations differ from the sequential result, e.g. %s' % (mism, done, lines[0][:200]), payload)
    for kind, frames, block in tsan_reports(wd):
        res.viol('tsan|%s|%s' % (kind, ';'.join(frames[:2])), 'ThreadSanitizer: %s in %s' % (kind, ' <- '.join(frames[:4])), dict(payload, report=block))
    if overlap < 2:
        res.inconclusive.append('no-overlap')


def main():
    chk = Check('C07')
    chk.rule = ('xvmt runs: 2-16 threads x 10-150 transformations each over 5-11 shared compiled stylesheets (12 hand-written ones reaching keys, xsl:number, document(), '
                'format-number + decimal-format, sort, id(), variables / recursion, core functions, identity copy, strip-space + message, html output, EXSLT; plus generated '
                'ones) x 2-3 shared documents, each supplied as shared native source, shared Xerces-DOM backed source (thread-safe liaison) or parsed per call. A case is '
                'one process run; every second run is cold: nothing is transformed before the threads start, they leave a barrier together and begin with the same stylesheet '
                '(17 facilities in turn, incl. Greek traditional / alphabetic numbering, an unsupported numbering script, sort with lang, three output encodings, failing and warning stylesheets), so that state the process '
                'builds on first use is built under contention, and the sequential results are computed afterwards. evaluations = concurrent transformations; distinct = distinct stylesheets / observed overlap degrees / thread counts.')
    chk.assumptions = ['ThreadSanitizer sees the library and the driver (both built with -fsanitize=thread); Xerces-C and ICU are not instrumented (no report arose from them on the unchanged tree)',
                       'schedules are those the kernel produces on an oversubscribed 16-core machine with randomized yields; no schedule enumeration']
    chk.ensure('tsan', 'xvmt')
    n = 64 if chk.tier == 'quick' else 2000
    chk.run_cases('c07', 'case', range(n))
    chk.finish(min_nontrivial=20, required_stats=('concurrent_transformations', 'cold_runs', 'cold_first_number-scripts', 'cold_first_sort-lang', 'facility_keys', 'facility_number', 'facility_document', 'facility_id', 'facility_sort', 'facility_format-number'))


if __name__ == '__main__':
    main()
