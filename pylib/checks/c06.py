"""C06 — a reused transformer behaves like a fresh one: no state leaks between calls.
Oracle: self-differential over histories.  A generated sequence of API operations (compile, parse,
destroy, set / clear parameters, transformations that succeed or abort part-way at a generated depth of
nesting, output sinks that refuse data) is applied to ONE XalanTransformer; every transformation in it
is repeated on a newly created transformer with the parameters currently in force, and status and
output bytes must be identical.  Compiled stylesheets and parsed sources are reused across the history
and must keep giving the results a fresh compile / parse gives."""
import os, re, sys
sys.path.insert(0, os.path.join(os.path.dirname(os.path.abspath(__file__)), '..'))
from framework import Check, rng_for
from xvdriver import DriverDied
import gen_xml, gen_xslt, xsltcommon as XC

HEAD = gen_xslt.HEAD
FLAVOUR = os.environ.get('VERIF_FLAVOUR', 'plain')

WRAPPERS = [
    ('element', '<xsl:element name="w">%s</xsl:element>'),
    ('lre', '<w2 a="{1+1}">%s</w2>'),
    ('attribute', '<h><xsl:attribute name="a">%s</xsl:attribute></h>'),
    ('comment', '<xsl:comment>%s</xsl:comment>'),
    ('pi', '<xsl:processing-instruction name="pi">%s</xsl:processing-instruction>'),
    ('variable-rtf', '<xsl:variable name="v%(n)d">%s</xsl:variable><xsl:copy-of select="$v%(n)d"/>'),
    ('for-each', '<xsl:for-each select="//*[position() &lt; 6]">%s</xsl:for-each>'),
    ('for-each-sort', '<xsl:for-each select="//*[position() &lt; 6]"><xsl:sort select="name()" order="descending"/>%s</xsl:for-each>'),
    ('call-template', '<xsl:call-template name="wrap%(n)d"><xsl:with-param name="p" select="%(n)d"/></xsl:call-template>'),
    ('apply-templates', '<xsl:apply-templates select="/*" mode="wrapm%(n)d"><xsl:with-param name="p" select="\'x\'"/></xsl:apply-templates>'),
    ('copy', '<xsl:for-each select="/*"><xsl:copy>%s</xsl:copy></xsl:for-each>'),
    ('if', '<xsl:if test="true()">%s</xsl:if>'),
    ('choose', '<xsl:choose><xsl:when test="false()">no</xsl:when><xsl:otherwise>%s</xsl:otherwise></xsl:choose>'),
    ('text-value', '<t><xsl:value-of select="concat(\'a\', name(/*))"/>%s</t>'),
    ('message', '<xsl:message>%s</xsl:message>'),
    ('key', '<xsl:for-each select="key(\'k\', name(/*))">%s</xsl:for-each>'),
]
FAILURES = [
    ('terminate', '<xsl:message terminate="yes">stop here</xsl:message>'),
    ('unknown-function', '<xsl:value-of select="no-such-function(1)"/>'),
    ('unknown-key', '<xsl:value-of select="count(key(\'no-such-key\', 1))"/>'),
    ('conditional-terminate', '<xsl:if test="count(preceding::*) + count(ancestor::*) &gt;= %(k)d"><xsl:message terminate="yes">late</xsl:message></xsl:if><x/>'),
    ('bad-number', '<xsl:number value="1" format="1" grouping-separator="ab" grouping-size="2"/>'),
    ('element-in-attribute', '<z><xsl:attribute name="q"><y/></xsl:attribute></z>'),
    # failures raised in the middle of the engine's own bookkeeping: while xsl:number walks back over the document filling its counters, while a key
    # table is being built, inside a sort key, a match pattern predicate, an attribute value template, a with-param, an attribute set.  ext:missing()
    # is an extension function nobody installed: a run-time error, raised only for the nodes %(c)s lets through
    ('number-any-count', '<xsl:for-each select="//*"><xsl:number level="any" count="*[%(c)s or ext:missing()]"/>,</xsl:for-each>'),
    ('number-any-from', '<xsl:for-each select="//*"><xsl:number level="any" from="*[not(%(c)s) and ext:missing()]"/>,</xsl:for-each>'),
    ('number-multiple-count', '<xsl:for-each select="//*"><xsl:number level="multiple" count="*[%(c)s or ext:missing()]"/>,</xsl:for-each>'),
    ('number-single-count', '<xsl:for-each select="//*"><xsl:number count="*[%(c)s or ext:missing()]"/>,</xsl:for-each>'),
    ('key-use', '<xsl:value-of select="count(key(\'kf\', \'a\'))"/>', '<xsl:key name="kf" match="*" use="concat(name(), self::*[not(%(c)s)][ext:missing()])"/>'),
    ('key-match', '<xsl:value-of select="count(key(\'kf\', \'a\'))"/>', '<xsl:key name="kf" match="*[%(c)s or ext:missing()]" use="name()"/>'),
    ('sort-key', '<xsl:for-each select="//*"><xsl:sort select="self::*[not(%(c)s)][ext:missing()]"/><s/></xsl:for-each>'),
    ('match-predicate', '<xsl:apply-templates select="//*" mode="mf"/>', '<xsl:template match="*[not(%(c)s) and ext:missing()]" mode="mf">m</xsl:template><xsl:template match="*" mode="mf"><f/></xsl:template>'),
    ('avt', '<xsl:for-each select="//*"><e a="{name()}" b="{self::*[not(%(c)s)][ext:missing()]}"/></xsl:for-each>'),
    ('with-param', '<xsl:for-each select="//*"><xsl:call-template name="wf"><xsl:with-param name="p" select="self::*[not(%(c)s)][ext:missing()]"/></xsl:call-template></xsl:for-each>',
     '<xsl:template name="wf"><xsl:param name="p"/><wf><xsl:value-of select="$p"/></wf></xsl:template>'),
    ('attribute-set', '<xsl:for-each select="//*"><e xsl:use-attribute-sets="asf"/></xsl:for-each>', '<xsl:attribute-set name="asf"><xsl:attribute name="q"><xsl:value-of select="self::*[not(%(c)s)][ext:missing()]"/></xsl:attribute></xsl:attribute-set>'),
    ('union-in-predicate', '<xsl:value-of select="count(//*[preceding::*[not(%(c)s)][ext:missing()] | following::*[1]])"/>'),
    ('format-number', '<xsl:for-each select="//*"><xsl:value-of select="format-number(count(preceding::*), \'#0.0\', self::*[not(%(c)s)][ext:missing()])"/></xsl:for-each>'),
]
CONDITIONS = ['count(preceding::*) &gt;= %d', 'count(preceding::*) &lt; %d', 'count(ancestor::*) != %d', 'count(following::*) &gt;= %d', '@*', 'not(*)', 'position() != %d', 'true()']
# a stylesheet that always succeeds and goes through everything the engine builds lazily and keeps: counters of xsl:number, key tables, sort, id, formats
LAZY_OK = ('<xsl:key name="kn" match="*" use="name()"/><xsl:key name="ka" match="*" use="@*"/><xsl:decimal-format name="df" decimal-separator="," grouping-separator="."/>'
           '<xsl:template match="/"><out><xsl:for-each select="//*"><n><xsl:number level="any" count="*"/>/<xsl:number level="any"/>/<xsl:number level="multiple" count="*" format="1.a"/>/<xsl:number/>'
           '/<xsl:number level="any" from="*[@*]" format="i"/></n></xsl:for-each><k><xsl:for-each select="//*"><xsl:value-of select="count(key(\'kn\', name()))"/>,<xsl:value-of select="count(key(\'ka\', string(@*)))"/>;</xsl:for-each></k>'
           '<s><xsl:for-each select="//*"><xsl:sort select="name()"/><xsl:sort select="count(preceding::*)" data-type="number" order="descending"/><xsl:value-of select="name()"/>,</xsl:for-each></s>'
           '<f><xsl:value-of select="format-number(count(//*) * 1234.5, \'#.##0,00\', \'df\')"/></f><g><xsl:for-each select="//*[position() &lt; 4]"><xsl:value-of select="generate-id() = generate-id(.)"/></xsl:for-each></g>'
           '</out></xsl:template>')


def failing_stylesheet(r):
    """a stylesheet that aborts at a generated depth inside generated constructs; returns (xsl, description)"""
    depth = r.choice([0, 1, 2, 3, 5, 8])
    fail = r.choice(FAILURES)
    fname, ftext = fail[0], fail[1]
    cond = r.choice(CONDITIONS)
    cond = cond % r.choice([0, 1, 2, 3, 5, 9]) if '%d' in cond else cond
    inner = ftext % {'k': r.choice([0, 1, 3, 6]), 'c': cond} if '%(' in ftext else ftext
    extra = [fail[2] % {'c': cond}] if len(fail) > 2 else []
    names = []
    for n in range(depth):
        wname, w = r.choice(WRAPPERS)
        names.append(wname)
        if wname == 'call-template':
            extra.append('<xsl:template name="wrap%d"><xsl:param name="p"/><c p="{$p}">%s</c></xsl:template>' % (n, inner))
            inner = w % {'n': n}
        elif wname == 'apply-templates':
            extra.append('<xsl:template match="*" mode="wrapm%d"><xsl:param name="p"/><m p="{$p}">%s</m></xsl:template>' % (n, inner))
            inner = w % {'n': n}
        elif '%(n)d' in w:
            inner = (w.replace('%s', '\0') % {'n': n}).replace('\0', inner)
        else:
            inner = w % inner
    before = r.choice(['', '<pre>text before</pre>', '<xsl:copy-of select="/*/*[1]"/>'])
    # data-dependent: the same compiled stylesheet fails on some documents of the history and succeeds on others
    if r.random() < 0.4:
        inner = '<xsl:if test="count(//*) mod 2 = %d">%s</xsl:if>' % (r.choice([0, 1]), inner)
        fname += ' (only for some documents)'
    glob = ''
    place = r.random()
    if place < 0.3:
        # the failure happens while a top-level variable / parameter is being evaluated (lazily, from a template)
        kind = r.choice(['variable', 'param'])
        glob = '<xsl:%s name="gv"><g>%s</g></xsl:%s><xsl:variable name="gv2" select="count($gv)"/>' % (kind, inner, kind)
        inner = '<xsl:copy-of select="$gv"/><xsl:value-of select="$gv2"/>'
        names.append('top-level ' + kind)
    # the output method decides which formatter holds the output produced so far when the failure unwinds the stack
    method = r.choice(['', '', '<xsl:output method="text"/>', '<xsl:output method="html"/>', '<xsl:output method="xml" encoding="UTF-16"/>', '<xsl:output method="text" encoding="ISO-8859-1"/>'])
    xsl = (HEAD % ' xmlns:ext="urn:verif-no-such-extension"') + method + '<xsl:key name="k" match="*" use="name()"/><xsl:param name="gp" select="\'d\'"/>%s<xsl:template match="/"><out gp="{$gp}">%s%s</out></xsl:template>%s</xsl:stylesheet>' % (glob, before, inner, ''.join(extra))
    return xsl, '%s inside %s' % (fname, '/'.join(names[::-1]) or 'the root template')


def case(ctx, idx, res):
    r = rng_for(ctx.seed, 'c06', idx)
    d = ctx.drv(FLAVOUR)
    wd = os.path.join(ctx.workdir, 'c06')
    os.makedirs(wd, exist_ok=True)
    # material of the history
    docs = []
    for _ in range(r.choice([1, 2, 3])):
        xml, info = gen_xml.gen_doc(r, size=r.choice([6, 12, 25]), ids=False)
        docs.append((xml, info))
    sheets = []
    for _ in range(r.choice([2, 3, 4])):
        xml, info = r.choice(docs)
        g = gen_xslt.SGen(r, info, avoid=ctx.findings_avoid, max_templates=r.choice([3, 6, 10]), body_depth=r.choice([2, 3]))
        sheets.append(('ok', g.stylesheet(), 'generated'))
    for _ in range(r.choice([1, 2, 3])):
        xsl, what = failing_stylesheet(r)
        sheets.append(('fail', xsl, what))
    sheets.append(('ok', (HEAD % '') + LAZY_OK + '</xsl:stylesheet>', 'every lazily built facility'))
    # sorts by language: the transformer keeps one collator per language for its whole life; what one sort sets on it (case-order) must not
    # show in a later sort with the same language, in this or a later transformation.  The keys differ in case only.
    lang = r.choice(['fr', 'en', 'de', 'sv', 'nl', 'en-US', 'it'])
    for co in r.sample([None, 'upper-first', 'lower-first', None], r.choice([2, 3])):
        key = "substring('aAbBcCAa', count(preceding::*) mod 8 + 1, 1)"
        sheets.append(('ok', (HEAD % '') + '<xsl:output method="text"/><xsl:template match="/"><xsl:for-each select="//*"><xsl:sort select="%s" lang="%s"%s/><xsl:value-of select="concat(%s, count(preceding::*), \' \')"/>'
                       '</xsl:for-each></xsl:template></xsl:stylesheet>' % (key, lang, ' case-order="%s"' % co if co else '', key), 'sort lang=%s case-order=%s' % (lang, co)))
    # external functions installed on the transformer: a guarded call (succeeds either way and shows what is installed) and a bare one (fails
    # while nothing is installed)
    sheets.append(('ok', (HEAD % ' xmlns:vx="urn:verif-ext"') + '<xsl:output method="text"/><xsl:template match="/"><xsl:for-each select="//*[position() &lt; 4]"><xsl:choose><xsl:when test="function-available(\'vx:f1\')">'
                   '<xsl:value-of select="vx:f1(name())"/></xsl:when><xsl:otherwise>none</xsl:otherwise></xsl:choose>,<xsl:value-of select="function-available(\'vx:f2\')"/>;</xsl:for-each></xsl:template></xsl:stylesheet>',
                   'guarded call of an installed function'))
    sheets.append(('ok', (HEAD % ' xmlns:vx="urn:verif-ext"') + '<xsl:output method="text"/><xsl:template match="/"><xsl:value-of select="vx:f2(count(//*))"/>|<xsl:value-of select="vx:f1(1)"/></xsl:template></xsl:stylesheet>',
                   'bare call of installed functions'))
    if r.random() < 0.3:
        sheets.append(('fail', (HEAD % '') + '<xsl:output encoding="US-ASCII"/><xsl:template match="/"><out><w/><xsl:comment>caf&#233;</xsl:comment></out></xsl:template></xsl:stylesheet>', 'unserializable character in a comment'))
    if r.random() < 0.3:
        sheets.append(('ok', (HEAD % '') + '<xsl:output encoding="no-such-encoding-x"/><xsl:template match="/"><out><xsl:copy-of select="document(\'missing-%d.xml\')"/><xsl:copy-of select="/*/*[1]"/></out></xsl:template></xsl:stylesheet>' % idx, 'unknown encoding and missing document()'))
    if r.random() < 0.3:
        sheets.append(('fail', '<xsl:stylesheet version="1.0" xmlns:xsl="http://www.w3.org/1999/XSL/Transform"><xsl:template match="/"><xsl:value-of select="1 +"/></xsl:template></xsl:stylesheet>', 'stylesheet that does not compile'))

    T = d.call(cmd='tnew')['t'].decode()
    idle = d.call(cmd='snapshot', t=T).get('sizes')          # hook H2: sizes of the internal stacks of an idle transformer
    params = {}          # name -> (kind, value) currently set on T
    extfns = {}          # name -> tag of the external functions installed on T
    cs = {}              # handle -> sheet index
    ps = {}              # handle -> (doc index, xerces)
    nops = r.choice([6, 10, 16, 25])
    trail = []
    ntrans = 0
    try:
        for step in range(nops):
            k = r.random()
            if k < 0.1:
                i = r.randrange(len(sheets))
                rp = d.call(cmd='compile', t=T, xsl=sheets[i][1].encode('utf-8'))
                trail.append('compile sheet%d -> %s' % (i, rp.get('status', b'?').decode()))
                if 'cs' in rp:
                    cs[rp['cs'].decode()] = i
                # a fresh transformer must agree on whether it compiles
                F = d.call(cmd='tnew')['t'].decode()
                rf = d.call(cmd='compile', t=F, xsl=sheets[i][1].encode('utf-8'))
                d.call(cmd='tdel', t=F)
                if rf.get('status') != rp.get('status'):
                    res.viol('compile-status', 'after %s: compileStylesheet returns %s on the reused transformer, %s on a fresh one' % (trail[-4:-1], rp.get('status'), rf.get('status')), {'history': trail, 'stylesheet': sheets[i][1]})
            elif k < 0.18:
                j = r.randrange(len(docs))
                xer = r.choice(['0', '0', '1'])
                rp = d.call(cmd='parse', t=T, xml=docs[j][0].encode('utf-8'), xerces=xer)
                trail.append('parse doc%d xerces=%s -> %s' % (j, xer, rp.get('status', b'?').decode()))
                if 'ps' in rp:
                    ps[rp['ps'].decode()] = (j, xer)
            elif k < 0.23 and cs:
                h = r.choice(sorted(cs))
                d.call(cmd='csdel', t=T, cs=h)
                del cs[h]
                trail.append('destroy stylesheet %s' % h)
            elif k < 0.28 and ps:
                h = r.choice(sorted(ps))
                d.call(cmd='psdel', t=T, ps=h)
                del ps[h]
                trail.append('destroy parsed source %s' % h)
            elif k < 0.38:
                name = r.choice(['gp', 'p0', 'p1', 'q'])
                kind, val = r.choice([('expr', "'set'"), ('expr', '40 + 2'), ('num', '7'), ('cexpr', "'c'"), ('xstr', 'xs'), ('xbool', '1')])
                d.call(cmd='param', t=T, kind=kind, name=name, value=val)
                params[name] = (kind, val)
                trail.append('set param %s=%s(%s)' % (name, kind, val))
            elif k < 0.43:
                d.call(cmd='param', t=T, kind='clear', name='', value='')
                params = {}
                trail.append('clear params')
            elif k < 0.51:
                name = r.choice(['f1', 'f1', 'f2'])
                if name in extfns and r.random() < 0.5:
                    d.call(cmd='extfn', t=T, kind='uninstall', name=name)
                    del extfns[name]
                    trail.append('uninstall function %s' % name)
                else:
                    tag = r.choice(['A', 'B', 'C'])
                    d.call(cmd='extfn', t=T, kind='install', name=name, tag=tag)       # installing over an installed function replaces it
                    extfns[name] = tag
                    trail.append('install function %s tag=%s' % (name, tag))
            else:
                # a transformation: choose forms
                use_cs = cs and r.random() < 0.4
                use_ps = ps and r.random() < 0.4
                if use_cs:
                    hcs = r.choice(sorted(cs))
                    si = cs[hcs]
                else:
                    si = r.randrange(len(sheets))
                if use_ps:
                    hps = r.choice(sorted(ps))
                    di, xer = ps[hps]
                else:
                    di, xer = r.randrange(len(docs)), '0'
                tgt = r.choice(['stream', 'stream', 'stream', 'callback', 'file'])
                f = dict(cmd='transform', src='ps' if use_ps else r.choice(['stream', 'stream', 'parsed', 'builder']), sty='cs' if use_cs else r.choice(['stream', 'compiled']), tgt=tgt,
                         xml=docs[di][0].encode('utf-8'), xsl=sheets[si][1].encode('utf-8'), outpath=os.path.join(wd, 'o.bin'))
                if tgt == 'callback':
                    if f['src'] not in ('stream',) and f['sty'] == 'stream':
                        f['sty'] = 'compiled'
                    if f['src'] == 'stream' and f['sty'] in ('cs', 'compiled'):
                        f['src'] = 'parsed'
                    if r.random() < 0.4:
                        f['cbfail'] = str(r.choice([0, 1, 10, 40, 200, 600]))
                fT = dict(f, t=T)
                if use_cs:
                    fT['cs'] = hcs
                if use_ps:
                    fT['ps'] = hps
                rT = d.call(**fT)
                ntrans += 1
                # the same on a fresh transformer, with the parameters in force
                F = d.call(cmd='tnew')['t'].decode()
                try:
                    for name, (kind, val) in params.items():
                        d.call(cmd='param', t=F, kind=kind, name=name, value=val)
                    for name, tag in extfns.items():
                        d.call(cmd='extfn', t=F, kind='install', name=name, tag=tag)
                    fF = dict(f, t=F)
                    if use_cs:
                        fF['sty'] = 'compiled'
                    if use_ps:
                        fF['src'] = 'parsedx' if xer == '1' else 'parsed'
                    rF = d.call(**fF)
                finally:
                    d.call(cmd='tdel', t=F)
                desc = 'transform doc%d with sheet%d (%s) src=%s sty=%s tgt=%s%s' % (di, si, sheets[si][2], fT['src'], fT['sty'], tgt, ' cbfail=' + f['cbfail'] if 'cbfail' in f else '')
                trail.append(desc + ' -> %s' % rT.get('status', b'?').decode())
                res.count('transformations_compared')
                res.count('status_%s' % ('ok' if rT.get('status') == b'0' else 'fail'))
                payload = {'history': list(trail), 'stylesheet': sheets[si][1], 'document': docs[di][0], 'params': params}
                prev_fail = [t for t in trail[:-1] if '-> ' in t and not t.endswith('-> 0') and t.startswith('transform')]
                after = 'after-failure' if prev_fail else 'after-success-only'
                if rT.get('status') != rF.get('status'):
                    res.viol('status|%s' % after, 'step %d (%s): status %s on the reused transformer, %s on a fresh one (%s / %s); last steps: %s' % (
                        step, desc, rT.get('status'), rF.get('status'), rT.get('err', b'')[:120], rF.get('err', b'')[:120], trail[-5:-1]), payload)
                    break
                if rT.get('status') == b'0' and rT.get('out') != rF.get('out'):
                    a, b = rT.get('out', b''), rF.get('out', b'')
                    i = next((j for j in range(min(len(a), len(b))) if a[j] != b[j]), min(len(a), len(b)))
                    res.viol('output|%s' % after, 'step %d (%s): output on the reused transformer differs from a fresh one at byte %d: %r instead of %r; last steps: %s' % (
                        step, desc, i, a[max(0, i - 30):i + 40], b[max(0, i - 30):i + 40], trail[-5:-1]), payload)
                    break
                # hook H2: between two calls every internal stack is back at its idle size (a leak is seen at the call that causes it)
                if idle is not None:
                    now = d.call(cmd='snapshot', t=T).get('sizes')
                    res.count('snapshots_compared')
                    if now != idle:
                        a, b = now.decode().split(','), idle.decode().split(',')
                        where = [i for i in range(min(len(a), len(b))) if a[i] != b[i]]
                        res.viol('stack-leak|slot%s' % ('+'.join(str(i) for i in where[:3])), 'step %d (%s -> %s): the execution context is not idle afterwards: stack sizes %s, idle %s (differing slots %s)' % (
                            step, desc, rT.get('status'), now.decode(), idle.decode(), where), payload)
                        break
                if rT.get('status') != b'0':
                    res.count('failures_followed' if step < nops - 1 else 'failures_last')
                    # a failing transformation through a byte target may have delivered a prefix; it must be a prefix of ... nothing to compare
                else:
                    res.count('identical_outputs')
    except DriverDied as e:
        e.request = dict(e.request or {}, history=' || '.join(trail), sheets=' ||| '.join('%d: %s' % (i, sh[1]) for i, sh in enumerate(sheets)))
        raise
    finally:
        try:
            d.call(cmd='tdel', t=T)
        except DriverDied:
            pass
    res.sig = tuple(sorted(set(re.sub(r'\d+', '', t.split(' -> ')[0])[:40] for t in trail)))[:12]
    res.sample = {'history': trail[:8]}
    res.count('histories')


def main():
    chk = Check('C06')
    chk.rule = ('histories of 6-25 operations on one XalanTransformer: compileStylesheet, parseSource (native / Xerces), destroyStylesheet, destroyParsedSource, '
                'setStylesheetParam in 6 flavours, clearStylesheetParams, and transformations through stream / compiled / parsed / builder sources and stream / file / '
                'callback targets, with stylesheets that succeed or abort (terminate, unknown function, unknown key, conditional terminate after partial output, '
                'grouping-separator error, element inside attribute, unserializable character, compile error) at a generated depth inside 16 kinds of enclosing '
                'constructs, and callbacks that refuse data after N bytes. A case is one history; distinct = distinct multiset of operation kinds.')
    chk.assumptions = ['a newly created XalanTransformer in the same process is the reference', 'hook H2 (XalanTransformer::verifSnapshot, 32 stack sizes) is compared with its idle value after every transformation', 'install / uninstall of external functions is not driven (the driver has no such command)']
    chk.ensure(FLAVOUR, 'xvdrv')
    n = 3000 if chk.tier == 'quick' else 200000
    chk.run_cases('c06', 'case', range(n))
    chk.finish(min_nontrivial=100, required_stats=('identical_outputs', 'failures_followed', 'status_fail', 'status_ok', 'snapshots_compared'))


if __name__ == '__main__':
    main()
