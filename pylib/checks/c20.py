"""C20 — Xalan's containers and string class behave like their standard models.
Oracle: lock-step std:: models inside drivers/xvcont.cpp, run under ASan+UBSan+LSan; the counting
MemoryManager checks balance and foreign frees at the destruction of every sequence."""
import os, re, subprocess, sys, time
sys.path.insert(0, os.path.join(os.path.dirname(os.path.abspath(__file__)), '..'))
from framework import Check
from xvdriver import exe_path, sanitizer_env, report_key

KINDS = 11


def case(ctx, idx, res):
    """one case = a block of sequences run by one xvcont process"""
    flavour, start, count, maxops = ctx_block(ctx, idx)
    env = sanitizer_env(flavour)
    env['ASAN_OPTIONS'] = env.get('ASAN_OPTIONS', '').replace('detect_leaks=0', 'detect_leaks=1')
    cmd = [exe_path(flavour, 'xvcont'), str(ctx.seed), str(start), str(count), str(maxops)]
    # a block takes seconds; one that does not end is run a second time with four times the budget (the rule of the framework for time-outs)
    # and then counts: a comparison that failed before the stall names the container, otherwise the block is reported as a hang
    for budget in ((120, 480) if ctx.tier == 'quick' else (300, 1200)):
        try:
            p = subprocess.run(cmd, env=env, stdout=subprocess.PIPE, stderr=subprocess.PIPE, timeout=budget)
            break
        except subprocess.TimeoutExpired as e:
            partial = (e.stdout or b'').decode('utf-8', 'replace')
            p = None
            if 'FAILING seq=' in partial:
                break           # the failed comparison is the verdict; no need to wait for the stall a second time
    if p is None:
        res.evals = 1
        m = re.findall(r'FAILING seq=(\d+) kind=(\S+) op=(\d+) : (.*)', partial)
        if m:
            seq, kind, op, what = m[-1]
            norm = re.sub(r'\d+', 'N', re.sub(r"'[^']*'", "'..'", what))
            res.viol('mismatch|%s|%s' % (kind, norm), '%s: %s (seq %s op %s), and the sequence never ends afterwards' % (kind, what, seq, op),
                     {'flavour': flavour, 'cmd': ' '.join(cmd[:2] + [seq, '1', str(maxops)]), 'seq': int(seq), 'kind': kind})
        else:
            res.viol('hang|block', 'a block of sequences does not end within %d s, twice (it takes seconds)' % budget, {'flavour': flavour, 'cmd': ' '.join(cmd)})
        return
    out = p.stdout.decode('utf-8', 'replace')
    err = p.stderr.decode('utf-8', 'replace')
    res.evals = 0
    sigs = set()
    done = re.search(r'DONE seqs=(\d+) ops=(\d+) mismatches=(\d+) vector_capacity_changes=(\d+) imbalance=(\d+)', out)
    for m in re.finditer(r'MISMATCH seq=(\d+) kind=(\S+) op=(\d+) nops=(\d+) : (.*)', out):
        seq, kind, op, nops, what = m.groups()
        norm = re.sub(r"'[^']*'", "'..'", what)
        norm = re.sub(r'\d+', 'N', norm)
        res.viol('mismatch|%s|%s' % (kind, norm), '%s: %s (seq %s op %s)' % (kind, what, seq, op),
                 {'flavour': flavour, 'cmd': ' '.join(cmd[:2] + [seq, '1', str(maxops)]), 'seq': int(seq), 'kind': kind})
    if done:
        res.evals = int(done.group(1))
        res.count('operations', int(done.group(2)))
        res.count('vector_capacity_changes', int(done.group(4)))
        res.count('sequences_' + flavour, int(done.group(1)))
        for s in range(start, start + count):
            sigs.add(s)
        res.sample = {'cmd': ' '.join(cmd), 'result': done.group(0)}
    else:
        m = re.search(r'SEQ (-?\d+) kind=(\S+) op=(-?\d+)', out)
        kind, frames = report_key(err)
        where = m.group(2) if m else '?'
        key = 'crash|%s|%s|%s' % (where, kind or ('rc=%s' % p.returncode), ';'.join(frames[:2]))
        res.viol(key, '%s died in sequence %s (%s): %s' % (where, m.group(1) if m else '?', kind, ' <- '.join(frames[:3])),
                 {'flavour': flavour, 'cmd': ' '.join(cmd), 'stderr_head': '\n'.join(err.splitlines()[:50])})
        res.evals = 1
    if 'LeakSanitizer' in err and done:
        kind, frames = report_key(err)
        res.viol('leak|' + ';'.join(frames[:2]), 'LeakSanitizer report: ' + ' <- '.join(frames[:3]),
                 {'flavour': flavour, 'cmd': ' '.join(cmd), 'stderr_head': '\n'.join(err.splitlines()[:50])})
    res.sigs = sigs


def ctx_block(ctx, idx):
    tier = ctx.tier
    if tier == 'quick':
        blocks, per, maxops = 64, 320, 3000          # 20480 sequences, asan
        return 'asan', idx * per, per, maxops
    # thorough: 2M sequences on plain (fast) + 200k on asan
    if idx < 400:
        return 'plain', idx * 5000, 5000, 5000
    j = idx - 400
    return 'asan', 2000000 + j * 1000, 1000, 5000


def main():
    chk = Check('C20')
    chk.rule = ('sequence i picks one of 11 container kinds (map<int,int> with a 7-bucket weak hash and random loadFactor/minBuckets/'
                'eraseThreshold, map<string,string>, set<int>, vector<int|string>, list<int|string>, deque<int|string> with random block '
                'size, XalanDOMString, string pool + bitmap) and a phase-biased (grow/churn/shrink) op mix of 10..maxops operations '
                'from hash(seed,i); every op is applied to the Xalan container and its std:: model and all observable results compared. '
                'A case is one sequence; all are non-trivial (>=10 ops); distinct = distinct sequence index.')
    chk.assumptions = ['std:: containers of libstdc++ are the reference', 'iteration order of XalanMap/XalanSet is compared as a set',
                       'XalanDOMString operator< is a documented shortlex order and is not compared with std::u16string',
                       'iterator validity is checked only where the standard model guarantees it']
    if chk.tier == 'quick':
        chk.ensure('asan', 'xvcont')
        n = 64
    else:
        chk.ensure('plain', 'xvcont')
        chk.ensure('asan', 'xvcont')
        n = 400 + 200
    chk.run_cases('c20', 'case', range(n), chunksize=1)
    chk.finish(min_nontrivial=1000, required_stats=('operations', 'vector_capacity_changes'))


if __name__ == '__main__':
    main()
