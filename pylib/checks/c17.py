"""C17 — xsl:number counts per the Recommendation, independent of evaluation history.
Oracles: (a) in-run defining count() expressions for level=single / any without `from`; (b) the
reference interpreter (7.7 implemented directly) for all levels, count/from patterns and formats;
(c) metamorphic: the same numbering instruction evaluated for every node while the nodes are visited
in document order, reverse order and a seeded shuffle must give the same string per node (the
counters table must not depend on history); (d) a decoder for 1 01 a A i I formats."""
import os, re, sys
sys.path.insert(0, os.path.join(os.path.dirname(os.path.abspath(__file__)), '..'))
from framework import Check, rng_for
import refxml, refxpath as X, refxslt, gen_xml, gen_xslt, xsltcommon as XC

HEAD = gen_xslt.HEAD


def gen_number(r, names, avoid):
    """attributes of one xsl:number instruction + its defining expression (or None)"""
    level = r.choice(['single', 'multiple', 'any', None])
    a = ''
    if level:
        a += ' level="%s"' % level
    count = None
    if r.random() < 0.6:
        k = r.random()
        n = r.choice(names)
        if k < 0.5:
            count = n
        elif k < 0.65:
            count = '*'
        elif k < 0.8:
            count = n + ' | ' + r.choice(names)
        elif k < 0.9:
            count = '*[@x]'
        else:
            count = n + '[' + r.choice(['@n', 'not(@x)', '*']) + ']'
        a += ' count="%s"' % count
    frm = None
    if r.random() < 0.3:
        frm = r.choice(names + ['*[@x]', r.choice(names) + '/' + r.choice(names), r.choice(names) + ' | ' + r.choice(names)])
        a += ' from="%s"' % frm
    fmt = r.choice(['1', '1', '1.1', 'a', 'A', 'i', 'I', '01', '001', '1-1', 'A.1.a', '(1)', '1. '])
    a += ' format="%s"' % fmt
    defining = None
    lv = level or 'single'
    if frm is None and count is not None and '|' not in count:
        if lv == 'single':
            defining = 'count(ancestor-or-self::%s[1]/preceding-sibling::%s) + count(ancestor-or-self::%s[1])' % (count, count, count)
        elif lv == 'any':
            defining = 'count(preceding::%s | ancestor-or-self::%s)' % (count, count)
    return a, fmt, lv, defining


def decode(s, fmt, lv):
    """numbers encoded in a formatted string with a simple (single token kind) format, else None"""
    if fmt in ('1', '01', '001', '(1)', '1. '):
        m = re.findall(r'\d+', s)
        return [int(x) for x in m]
    if fmt in ('a', 'A'):
        out = []
        for w in re.findall(r'[A-Za-z]+', s):
            n = 0
            for ch in w.lower():
                n = n * 26 + (ord(ch) - 96)
            out.append(n)
        return out
    if fmt in ('i', 'I'):
        vals = {'i': 1, 'v': 5, 'x': 10, 'l': 50, 'c': 100, 'd': 500, 'm': 1000}
        out = []
        for w in re.findall(r'[A-Za-z]+', s):
            t = 0
            w = w.lower()
            for i, ch in enumerate(w):
                v = vals.get(ch)
                if v is None:
                    return None
                if i + 1 < len(w) and vals.get(w[i + 1], 0) > v:
                    t -= v
                else:
                    t += v
            out.append(t)
        return out
    return None


def case(ctx, idx, res):
    r = rng_for(ctx.seed, 'c17', idx)
    runner = ctx.cache.get('runner')
    if runner is None:
        runner = ctx.cache['runner'] = XC.Runner(ctx, 'plain')
    xml, info = gen_xml.gen_doc(r, size=r.choice([10, 20, 35, 50]), ns=r.random() < 0.3, ids=False, max_depth=r.choice([3, 5, 7]))
    names = [n for n in sorted(info.elem_names) if ':' not in n] or ['a']
    instrs = [gen_number(r, names, ctx.findings_avoid) for _ in range(r.choice([1, 2, 3]))]
    nums = ''.join('<n%d v="{$d%d}"><xsl:number%s/></n%d>' % (i, i, a, i) if d else '<n%d><xsl:number%s/></n%d>' % (i, a, i) for i, (a, f, lv, d) in enumerate(instrs))
    vars_ = ''.join('<xsl:variable name="d%d" select="%s"/>' % (i, gen_xslt.aesc(d)) for i, (a, f, lv, d) in enumerate(instrs) if d)
    body = '<e id="{generate-id()}">%s%s</e>' % (vars_.replace('<xsl:variable', '<xsl:variable'), nums)
    # variables must precede their use inside the element: move them before <e>
    body = vars_ + '<e id="{generate-id()}">%s</e>' % nums
    sel = r.choice(['//*', '//*', '//node()', '//*|//@*', '//text()|//*'])
    rnd = '<xsl:sort select="string-length(concat(generate-id(), name())) * %d mod 7" data-type="number"/><xsl:sort select="count(preceding::*) * %d mod 5" data-type="number"/>' % (r.choice([3, 5, 11]), r.choice([2, 3, 7]))
    xsl = (HEAD % '') + ('<xsl:template match="/"><out>'
                           '<fwd><xsl:for-each select="%s">%s</xsl:for-each></fwd>'
                           '<rev><xsl:for-each select="%s"><xsl:sort select="position()" data-type="number" order="descending"/>%s</xsl:for-each></rev>'
                           '<shuf><xsl:for-each select="%s">%s%s</xsl:for-each></shuf>'
                           '</out></xsl:template></xsl:stylesheet>') % (sel, body, sel, body, sel, rnd, body)
    rx = runner.transform(xsl, xml)
    payload = {'stylesheet': xsl, 'document': xml, 'instructions': [a for a, f, lv, d in instrs]}
    res.count('cases')
    res.sig = tuple(a for a, f, lv, d in instrs)
    res.sample = {'instructions': [a for a, f, lv, d in instrs], 'select': sel}
    if rx.status != 0:
        res.viol('fails', 'number stylesheet fails: %s' % rx.err[:200], payload)
        return
    try:
        tree = refxml.parse(XC._DECL.sub('', rx.out.decode('utf-8')))
    except (refxml.ParseError, UnicodeDecodeError) as e:
        res.viol('not-well-formed', str(e), payload)
        return
    out = [c for c in tree.children if c.kind == refxml.ELEM][0]
    passes = {}
    for sec in out.children:
        if sec.kind != refxml.ELEM:
            continue
        m = {}
        for e in sec.children:
            if e.kind != refxml.ELEM:
                continue
            eid = e.attrs[0].value
            m[eid] = [(dict((a.local, a.value) for a in n.attrs).get('v'), n.string_value()) for n in e.children if n.kind == refxml.ELEM]
        passes[sec.local] = m
    fwd = passes.get('fwd', {})
    res.count('nodes_numbered', len(fwd) * len(instrs))
    # (c) history independence
    for other in ('rev', 'shuf'):
        om = passes.get(other, {})
        if set(om) != set(fwd):
            res.viol('pass-mismatch|%s' % other, 'the %s pass visited different nodes' % other, payload)
            return
        for eid, vals in fwd.items():
            for i, ((v1, s1), (v2, s2)) in enumerate(zip(vals, om[eid])):
                if s1 != s2:
                    res.viol('history|%s|%s' % (instrs[i][2], other), 'xsl:number%s gives %r for a node when nodes are numbered in document order but %r in %s order'
                             % (instrs[i][0], s1, s2, 'reverse' if other == 'rev' else 'shuffled'), payload)
                    return
    res.count('history_independent_nodes', len(fwd))
    # (a) defining expression and (d) decoding
    for eid, vals in fwd.items():
        for i, (v, s) in enumerate(vals):
            a, fmt, lv, d = instrs[i]
            nums = decode(s, fmt, lv)
            if v is not None and nums is not None:
                exp = int(float(v))
                got = nums[0] if nums else 0
                if lv in ('single', 'any') and got != exp and not (exp == 0 and not nums):
                    res.viol('count|%s' % lv, 'xsl:number%s formats %r (= %s) where the defining expression counts %d' % (a, s, nums, exp), payload)
                    return
                res.count('checked_against_defining_expression')
    # (b) reference interpreter on the forward pass
    try:
        refout, p = refxslt.transform(xsl, xml, number_alternatives=True)
    except (refxslt.XsltError, X.XPathError, X.XPathSyntaxError):
        res.count('reference_error')
        return
    rsec = [c for c in [c for c in refout.children if c.kind == refxml.ELEM][0].children if c.kind == refxml.ELEM]
    xsec = [c for c in out.children if c.kind == refxml.ELEM]
    for name, rs, xs in zip(('fwd', 'rev'), rsec[:2], xsec[:2]):
        re_ = [e for e in rs.children if e.kind == refxml.ELEM]
        xe = [e for e in xs.children if e.kind == refxml.ELEM]
        if len(re_) != len(xe):
            res.viol('reference|structure', 'different number of numbered nodes than the reference', payload)
            return
        for a_, b_ in zip(xe, re_):
            sa = [n.string_value() for n in a_.children if n.kind == refxml.ELEM]
            sb = [n.string_value() for n in b_.children if n.kind == refxml.ELEM]
            for i, (x, y) in enumerate(zip(sa, sb)):
                if x not in y.split(refxslt.ALT_SEP):
                    y = ' or '.join(repr(t) for t in y.split(refxslt.ALT_SEP))
                    res.viol('reference|%s|%s' % (instrs[i][2], 'from' if 'from=' in instrs[i][0] else 'count' if 'count=' in instrs[i][0] else 'default'),
                             'xsl:number%s gives %r, section 7.7 (reference interpreter) gives %s' % (instrs[i][0], x, y), payload)
                    return
    res.count('agree_with_reference')


# ---- formatting of value= numbers: decode(format(n)) == n ------------------------------------------------
FMT_TOKENS = ['1', '01', '001', '0001', 'a', 'A', 'i', 'I']
AFFIX = ['', '', '(', ')', '.', ' ', '-', '[', ']', ': ', '#']
ROMAN = {'i': 1, 'v': 5, 'x': 10, 'l': 50, 'c': 100, 'd': 500, 'm': 1000}


def pick_int(r):
    k = r.random()
    if k < 0.25:
        return r.randint(1, 60)
    if k < 0.4:
        return r.choice([26, 27, 52, 53, 676, 677, 702, 703, 18278, 18279, 475254, 475255, 3999, 3998, 1000, 999, 1001, 499, 500, 900, 9, 10, 99, 100, 4, 40, 400, 90, 49, 1666, 1994, 2888, 3888])
    if k < 0.55:
        return r.choice([10 ** e + d for e in range(1, 18) for d in (-1, 0, 1)])
    if k < 0.7:
        return r.choice([2 ** e + d for e in (8, 15, 16, 31, 32, 52, 53, 62) for d in (-1, 0, 1)])
    if k < 0.76:
        # at and beyond what a 64-bit counter holds: 7.7 still asks for the number, and no format can make it 0
        return r.choice([2 ** 63, 2 ** 64 - 2048, 2 ** 64, 2 ** 64 + 4096, 2 ** 65, 10 ** 19, 10 ** 20, 10 ** 25, 10 ** 30, 2 ** 100])
    return int(10 ** r.uniform(0, 18))


def decode_one(s, tok, gsep, gsize):
    """the integer a formatted token stands for, or a ('bad', reason) tuple"""
    if tok in ('a', 'A'):
        if not s or not (s.islower() if tok == 'a' else s.isupper()) or not s.isalpha() or not s.isascii():
            return ('bad', 'not an %s-case ASCII letter string' % ('lower' if tok == 'a' else 'upper'))
        n = 0
        for ch in s.lower():
            n = n * 26 + (ord(ch) - 96)
        return n
    if tok in ('i', 'I'):
        if not s or not s.isalpha() or not (s.islower() if tok == 'i' else s.isupper()):
            return ('bad', 'not a %s-case roman numeral' % ('lower' if tok == 'i' else 'upper'))
        w = s.lower()
        t = 0
        for i, ch in enumerate(w):
            v = ROMAN.get(ch)
            if v is None:
                return ('bad', 'not a roman numeral')
            if i + 1 < len(w) and ROMAN.get(w[i + 1], 0) > v:
                t -= v
            else:
                t += v
        return t
    digits = s
    if gsep and gsize:
        groups = s.split(gsep)
        if any(len(g) != gsize for g in groups[1:]) or not (1 <= len(groups[0]) <= gsize):
            return ('bad', 'groups %s are not groups of %d digits counted from the right' % (groups, gsize))
        digits = ''.join(groups)
    if not digits.isdigit() or not digits.isascii():
        return ('bad', 'not a digit string')
    if len(digits) < len(tok):
        return ('bad', 'shorter than the format token %r' % tok)
    if len(digits) > len(tok) and digits[0] == '0':
        return ('bad', 'padded beyond the width of the format token %r' % tok)
    return int(digits)


def fmt_case(ctx, idx, res):
    r = rng_for(ctx.seed, 'c17fmt', idx)
    runner = ctx.cache.get('runner')
    if runner is None:
        runner = ctx.cache['runner'] = XC.Runner(ctx, 'plain')
    items = []
    body = []
    for j in range(60):
        n = pick_int(r)
        tok = r.choice(FMT_TOKENS)
        if n >= 2 ** 53:
            n = int(float((n >> 11) << 11))        # keep the value exactly representable as a double
        if tok in ('i', 'I') and n > 3998:
            n = n % 3998 + 1                       # roman numerals are only defined up to 3999
        pre, suf = r.choice(AFFIX), r.choice(AFFIX)
        gsep, gsize = None, None
        if r.random() < 0.5 and tok not in ('01', '001', '0001'):      # whether padding zeros are grouped is not specified
            gsep, gsize = r.choice([',', '.', ' ', "'", '_']), r.choice([1, 2, 3, 3, 4])
        frac = r.choice(['', '', '', '.4', '.5', '.49999', '.0']) if n < 2 ** 36 else ''
        shown = n if frac in ('', '.4', '.49999', '.0') else n + 1           # round(): .5 rounds up
        val = '%d%s' % (n, frac)
        how = r.choice(['literal', 'avt'])
        a = ' value="%s"' % val
        if how == 'avt':
            a += ' format="{$p%d}{$t%d}{$s%d}"' % (j, j, j)
            body.append('<xsl:variable name="p%d" select="\'%s\'"/><xsl:variable name="t%d" select="\'%s\'"/><xsl:variable name="s%d" select="\'%s\'"/>' % (j, pre, j, tok, j, suf))
        else:
            a += ' format="%s%s%s"' % (pre, tok, suf)
        if gsep:
            a += ' grouping-separator="%s" grouping-size="%d"' % (gsep.replace("'", '&apos;'), gsize)
        body.append('<n><xsl:number%s/></n>' % a)
        items.append((shown, tok, pre, suf, gsep, gsize, a))
    xsl = (HEAD % '') + '<xsl:template match="/"><out>%s</out></xsl:template></xsl:stylesheet>' % ''.join(body)
    rx = runner.transform(xsl, '<doc/>')
    payload = {'stylesheet': xsl, 'document': '<doc/>'}
    res.count('format_batches')
    res.sig = ('fmt', idx)
    res.sample = {'instructions': [it[6] for it in items[:3]]}
    if rx.status != 0:
        res.viol('format|fails', 'formatting stylesheet fails: %s' % rx.err[:200], payload)
        return
    try:
        tree = refxml.parse(XC._DECL.sub('', rx.out.decode('utf-8')))
    except (refxml.ParseError, UnicodeDecodeError) as e:
        res.viol('format|not-well-formed', str(e), payload)
        return
    outs = [e.string_value() for e in [c for c in tree.children if c.kind == refxml.ELEM][0].children if e.kind == refxml.ELEM]
    if len(outs) != len(items):
        res.viol('format|structure', '%d results for %d instructions' % (len(outs), len(items)), payload)
        return
    for got, (n, tok, pre, suf, gsep, gsize, a) in zip(outs, items):
        kind = 'decimal' if tok[-1] == '1' else 'alpha' if tok in 'aA' else 'roman'
        big = 'large' if n >= 2 ** 32 else 'small'
        if n >= 2 ** 64:
            # beyond the counter type the library falls back to the plain decimal numeral (no affixes, no grouping); whatever the shape,
            # the digits must still be the value
            digits = re.sub(r'[^0-9]', '', got)
            if not digits or float(int(digits)) != float(n):
                res.viol('format|value|huge', 'xsl:number%s gives %r for the value %d' % (a, got, n), dict(payload, instruction=a))
                return
            res.count('huge_values_formatted')
            continue
        if not (got.startswith(pre) and got.endswith(suf) and len(got) >= len(pre) + len(suf)):
            res.viol('format|affix|%s' % kind, 'xsl:number%s gives %r: prefix %r / suffix %r of the format are not reproduced' % (a, got, pre, suf), dict(payload, instruction=a))
            return
        core = got[len(pre):len(got) - len(suf)]
        d = decode_one(core, tok, gsep if kind == 'decimal' else None, gsize)
        if isinstance(d, tuple):
            res.viol('format|shape|%s|%s' % (kind, big), 'xsl:number%s gives %r: %s' % (a, got, d[1]), dict(payload, instruction=a))
            return
        if d != n:
            res.viol('format|value|%s|%s' % (kind, big), 'xsl:number%s gives %r which decodes to %d, not %d' % (a, got, d, n), dict(payload, instruction=a))
            return
        want = refxslt.format_number_list([n], pre + tok + suf, gsep, gsize)
        if want != got:
            res.viol('format|reference|%s|%s' % (kind, big), 'xsl:number%s gives %r, the reference formatter %r' % (a, got, want), dict(payload, instruction=a))
            return
        res.count('formatted_' + kind)
        res.count('formatted_and_decoded')


def main():
    chk = Check('C17')
    chk.rule = ('1-3 xsl:number instructions (level single/multiple/any/default, count patterns incl. unions and predicates, from, formats 1 01 001 a A i I and '
                'composite) applied to every node of deep/wide generated documents in document, reverse and pseudo-random visiting order in ONE transformation. '
                'A case is one (instruction set, document); all non-trivial; distinct = distinct instruction attribute sets. Formatting: batches of 60 value= '
                'instructions over positive integers up to 10^18 (boundaries of the alphabetic, roman, decimal and binary scales, halves for rounding) x tokens '
                '1 01 001 0001 a A i I x prefix/suffix x grouping, literal and AVT formats; each result is decoded back and compared with the integer.')
    chk.assumptions = ['roman numerals only up to 3999; integers below 2^63 that a double holds exactly', 'grouping is only combined with the unpadded token 1 (whether padding zeros are grouped is unspecified)', 'an empty number list is formatted as the empty string', 'with a from pattern three readings are accepted per node: XSLT 1.0 read literally with no-from-match meaning either no restriction or an empty list, and the XSLT 2.0 rules',
                       'the defining count() expressions are evaluated by the library in the same run']
    chk.ensure('plain', 'xvdrv')
    n = 2000 if chk.tier == 'quick' else 60000
    chk.run_cases('c17', 'case', range(n))
    chk.run_cases('c17', 'fmt_case', range(n // 5))
    chk.finish(min_nontrivial=100, required_stats=('history_independent_nodes', 'agree_with_reference', 'checked_against_defining_expression', 'formatted_and_decoded',
                                                   'formatted_decimal', 'formatted_alpha', 'formatted_roman'))


if __name__ == '__main__':
    main()
