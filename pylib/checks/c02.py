"""C02 — XPath 1.0 expressions evaluate to the value the Recommendation defines.
Oracle: refxpath (own model written from the Recommendation) evaluated in lock-step with the
library's XPath engine (xvdrv `xpath` command) on native and Xerces-wrapped trees; plus the
grammar recogniser for accept/reject.  Node-set results are also checked for order/uniqueness."""
import math, os, sys
sys.path.insert(0, os.path.join(os.path.dirname(os.path.abspath(__file__)), '..'))
from framework import Check, rng_for, crash_violation
from xvdriver import DriverDied
import refxml, refxpath as X, gen_xml, gen_xpath, xpcommon as C

FLAVOUR = os.environ.get('VERIF_C02_FLAVOUR', 'plain')
EXPRS_PER_DOC = 60
NS = gen_xml.expr_namespaces()
EXT_NS = {'set': X.EXSLT_SETS, 'math': X.EXSLT_MATH, 'str': X.EXSLT_STR, 'exsl': X.EXSLT_COMMON, 'xalan': X.XALAN_NS, 'dyn': X.EXSLT_DYN}


def all_nodes(doc):
    out = [doc]
    def walk(n):
        for c in n.children:
            out.append(c)
            if c.kind == refxml.ELEM:
                out.extend(c.attrs)
                walk(c)
    walk(doc)
    return out


def make_vars(r, nodes):
    sub = [n for n in nodes if r.random() < 0.15][:12]
    sub = X.sort_unique(sub)
    return {'n1': float(r.choice([0, 1, 2, 3, -1, 0.5, 2.5])), 'n2': r.choice([math.nan, math.inf, -0.0, 1e21, 1e-7, 4.0]),
            's1': r.choice(['', 'a', ' 12 ', 'abc', '2', 'i1']), 's2': r.choice(['x y', '10', 'NaN', 'b']),
            'b1': r.random() < 0.5, 'ns1': sub, 'ns2': []}


VTYPES = {'n1': 'num', 'n2': 'num', 's1': 'str', 's2': 'str', 'b1': 'bool', 'ns1': 'ns', 'ns2': 'ns'}


def case(ctx, idx, res):
    r = rng_for(ctx.seed, 'c02', idx)
    drv = ctx.drv(FLAVOUR)
    thorough = ctx.tier == 'thorough'
    xml, info = gen_xml.gen_doc(r, size=r.choice([8, 15, 25, 40] + ([80, 150] if thorough else [])), ns=r.random() < 0.7, comments=True)
    try:
        doc = refxml.parse(xml)
    except refxml.ParseError as e:
        res.inconclusive.append('harness-exception: generated document not well-formed: %s\n%s' % (e, xml[:300]))
        return
    nodes = all_nodes(doc)
    use_xerces = r.random() < 0.3
    if use_xerces and 'xerces-doctype' in ctx.findings_avoid:
        xml = xml[xml.index(']>') + 2:] if xml.startswith('<!DOCTYPE') else xml     # open finding: DOCTYPE node visible on Xerces-wrapped trees
        doc = refxml.parse(xml)
        nodes = all_nodes(doc)
    rep = drv.call(cmd='xdoc', xml=xml, xerces=1 if use_xerces else 0)
    if 'doc' not in rep:
        res.inconclusive.append('harness-exception: xdoc failed %r' % rep)
        return
    h = rep['doc'].decode()
    ns = dict(NS)
    ext = r.random() < 0.25
    if ext:
        ns.update(EXT_NS)
    variables = make_vars(r, nodes)
    sigs = set()
    res.evals = 0
    try:
        for j in range(EXPRS_PER_DOC):
            g = gen_xpath.Gen(r, info, VTYPES, avoid=ctx.cache.get('avoid', ()), ext=ext, max_depth=r.choice([2, 3, 4]))
            typ = r.choice(['ns', 'ns', 'num', 'str', 'bool', 'any'])
            expr = g.expr(typ, 0)
            cnode = r.choice(nodes)
            ctxlist = [cnode]      # a context always has a position and a size
            if r.random() < 0.35 and cnode.parent is not None and cnode.kind not in (refxml.ATTR, refxml.NS):
                sibs = [s for s in cnode.parent.children if r.random() < 0.7 or s is cnode]
                ctxlist = sibs
            invalid = r.random() < 0.12
            if invalid:
                expr = gen_xpath.mutate_invalid(r, expr)
            check_one(ctx, res, drv, h, doc, expr, cnode, ctxlist, ns, variables, use_xerces, xml, sigs, g.features)
            res.evals += 1
    finally:
        try:
            drv.call(cmd='xdocdel', doc=h)
        except DriverDied:
            pass
    res.sigs = sigs
    if res.sample is None:
        res.sample = {'document': xml[:300], 'expression': expr, 'context': cnode.path()}


def ref_eval(doc, expr, cnode, ctxlist, ns, variables):
    ast = X.parse(expr)
    env = X.Env(variables={('', k): v for k, v in variables.items()}, namespaces=ns)
    pos, size = 1, 1
    if ctxlist is not None:
        lst = X.sort_unique(ctxlist)
        pos, size = lst.index(cnode) + 1, len(lst)
    return X.evaluate(ast, X.Context(cnode, pos, size, env))


def run(drv, h, expr, cnode, ctxlist, ns, variables):
    return C.call_xpath(drv, h, expr, cnode.path(), [n.path() for n in X.sort_unique(ctxlist)] if ctxlist is not None else None, ns, variables, 'generic')


def check_one(ctx, res, drv, h, doc, expr, cnode, ctxlist, ns, variables, use_xerces, xml, sigs, features):
    payload = {'expression': expr, 'context': cnode.path(), 'ctxlist': [n.path() for n in ctxlist] if ctxlist is not None else None,
               'document': xml, 'xerces': use_xerces, 'variables': {k: (C.describe(v) if isinstance(v, list) else repr(v)) for k, v in variables.items()}}
    try:
        serr = X.static_errors(X.parse(expr), xslt=False, namespaces=ns)
        if serr:
            raise X.XPathError(serr)
        ref = ref_eval(doc, expr, cnode, ctxlist, ns, variables)
        status = 'value'
    except X.XPathSyntaxError as e:
        ref, status = None, 'syntax'
    except X.XPathError as e:
        ref, status = None, 'dynamic'
    except RecursionError:
        return
    rep = run(drv, h, expr, cnode, ctxlist, ns, variables)
    if rep.get('error'):
        res.inconclusive.append('harness-exception: driver: ' + rep['error'])
        return
    # an unbound variable yields an 'unknown' object through the bare XPath API (an error in XSLT): counts as rejected
    rejected = 'compile_error' in rep or 'generic_error' in rep or rep.get('type') == 'other'
    if status == 'syntax':
        res.count('invalid_strings')
        if not rejected:
            m = shrink_syntax(drv, h, expr, cnode, ns, variables, want_reject=True)
            res.viol('accepts-non-xpath|' + syntax_class(m), 'the string %r is not an XPath expression but is compiled and evaluated (to %s %r)'
                     % (m, rep.get('type'), rep.get('g_str', '')[:60]), dict(payload, minimal=m))
        else:
            res.count('invalid_rejected')
        return
    if status == 'dynamic':
        res.count('reference_dynamic_error')
        return
    if rejected:
        err = rep.get('compile_error') or rep.get('generic_error')
        m = shrink_syntax(drv, h, expr, cnode, ns, variables, want_reject=False)
        res.viol('rejects-valid|' + syntax_class(m), 'the valid expression %r is rejected: %s' % (m, err[:160]), dict(payload, minimal=m, error=err))
        return
    res.count('valid_evaluated')
    res.count('type_' + X.type_name(ref))
    d = C.compare_generic(rep, ref)
    if len(expr) > 12 or '[' in expr or '(' in expr:
        sigs.add(C.skeleton(expr))
    if d is None:
        return
    # shrink while the same kind of disagreement persists
    kind = d[0]

    def still(s):
        try:
            rv = ref_eval(doc, s, cnode, ctxlist, ns, variables)
        except (X.XPathError, X.XPathSyntaxError, RecursionError):
            return False
        rp = run(drv, h, s, cnode, ctxlist, ns, variables)
        if 'type' not in rp:
            return False
        dd = C.compare_generic(rp, rv)
        return dd is not None and dd[0] == kind
    m = C.shrink(expr, still)
    try:
        mref = ref_eval(doc, m, cnode, ctxlist, ns, variables)
        mrep = run(drv, h, m, cnode, ctxlist, ns, variables)
        md = C.compare_generic(mrep, mref) or d
    except Exception:
        m, md = expr, d
    res.viol('value|%s|%s' % (kind, C.skeleton(m)), '%s evaluates to %s [context %s%s, %s tree]' % (m, md[1], cnode.path(), ' in a %d-node list' % len(ctxlist) if ctxlist else '',
                                                                                           'Xerces-wrapped' if use_xerces else 'native'), dict(payload, minimal=m))


_CLS_TOK = None


def syntax_class(m):
    """coarse root-cause class of a syntax disagreement (used as the violation key): looks at the
    token sequence of the minimised string with a tolerant tokenizer"""
    import re
    global _CLS_TOK
    if _CLS_TOK is None:
        _CLS_TOK = re.compile(r"""\s+|'[^']*'|"[^"]*"|[0-9.]*[0-9][0-9.]*|\.\.|//|::|!=|<=|>=|[A-Za-z_][\w\-.]*(?::[A-Za-z_*][\w\-.]*)?|.""", re.S)
    raw = re.sub(r"'[^']*'|\"[^\"]*\"", "'S'", m)
    if re.search(r'!\s+=', raw):
        return 'bang-space-equals'
    if re.search(r'[<>]\s+=|/\s+/|:\s+:|\.\s+\.', raw):
        return 'split-operator'
    if re.search(r'\.\.-', raw):
        return 'dotdot-minus'
    toks = [t for t in _CLS_TOK.findall(m) if not t.isspace()]
    kinds = []
    for t in toks:
        if t[0] in '\'"':
            kinds.append('lit')
        elif re.fullmatch(r'[0-9.]*[0-9][0-9.]*', t):
            kinds.append('num')
        elif re.match(r'[A-Za-z_]', t):
            kinds.append('name')
        else:
            kinds.append('op')
    binops = ('=', '!=', '<', '<=', '>', '>=', '+', '-', '|', '*', 'and', 'or', 'div', 'mod')

    def operand_end(i):
        if i < 0:
            return False
        if kinds[i] in ('lit', 'num'):
            return True
        if kinds[i] == 'name':
            # an operator name in operator position is not an operand end
            return not (toks[i] in ('and', 'or', 'div', 'mod') and operand_end(i - 1))
        return toks[i] in (')', ']', '.', '..') or (toks[i] == '*' and not operand_end(i - 1))
    for i, t in enumerate(toks):
        if kinds[i] == 'num' and t.count('.') > 1:
            return 'malformed-number'
    for i, t in enumerate(toks):
        if kinds[i] == 'op' and t not in ('(', ')', '[', ']', '.', '..', '@', ',', '::', '/', '//', '|', '+', '-', '=', '!=', '<', '<=', '>', '>=', '*', '$', ':', '!'):
            return 'stray-character'
        if kinds[i] == 'name' and re.search(r'[^\w\-.:*]', t):
            return 'stray-character'
    for i, t in enumerate(toks):
        if t == '$' and (i + 1 >= len(toks) or kinds[i + 1] != 'name'):
            return 'dollar-without-name'
    for i, t in enumerate(toks):
        if t == '(' and i + 1 < len(toks) and toks[i + 1] == ')':
            prev_is_function = i > 0 and kinds[i - 1] == 'name' and not (toks[i - 1] in ('and', 'or', 'div', 'mod') and operand_end(i - 2))
            if not prev_is_function:
                return 'empty-parentheses'
    for i, t in enumerate(toks):
        is_binop = (t in binops and kinds[i] == 'op' and (t != '*' or operand_end(i - 1)) and (t != '-' or True)) or \
                   (kinds[i] == 'name' and t in ('and', 'or', 'div', 'mod') and operand_end(i - 1))
        if is_binop and operand_end(i - 1):
            nxt = toks[i + 1] if i + 1 < len(toks) else None
            if nxt is None or nxt in (')', ']', ','):
                return 'trailing-union' if t == '|' else 'missing-operand'
    if re.search(r'(^|[(\[,|=<>+\-*!]|\b(?:and|or|div|mod)\s)\s*/\s*([-=<>|+!]|(and|or|div|mod)\b)', raw):
        return 'root-then-operator'
    for i, t in enumerate(toks):
        if t in ('/', '//') and (i > 0 and operand_end(i - 1) or t == '//'):
            nxt = toks[i + 1] if i + 1 < len(toks) else None
            if nxt is None or nxt in (')', ']', ',', '=', '!=', '<', '<=', '>', '>=', '+', '|'):
                return 'trailing-slash'
    return C.skeleton(m)


def shrink_syntax(drv, h, expr, cnode, ns, variables, want_reject):
    """ddmin-ish token removal keeping (reference says invalid/valid) and (library accepts/rejects)"""
    cur = expr
    import re
    toks = re.findall(r"\s+|'[^']*'|\"[^\"]*\"|[\w\-.:]+|.", cur)
    changed = True
    budget = 3000
    while changed and budget > 0:
        changed = False
        for i in range(len(toks)):
            cand = ''.join(toks[:i] + toks[i + 1:])
            if not cand.strip():
                continue
            budget -= 1
            if budget <= 0:
                break
            valid = X.is_xpath(cand)
            if valid == want_reject:
                continue
            if not want_reject:
                try:
                    if X.static_errors(X.parse(cand), xslt=False, namespaces=ns):
                        continue
                    ref_eval(refxml.parse('<doc/>'), cand, refxml.parse('<doc/>'), None, ns, variables)
                except Exception:
                    continue
            rp = C.call_xpath(drv, h, cand, cnode.path(), None, ns, variables, 'generic')
            rej = 'compile_error' in rp or 'generic_error' in rp or rp.get('type') == 'other'
            if (want_reject and not rej) or (not want_reject and rej):
                toks = toks[:i] + toks[i + 1:]
                changed = True
                break
    return ''.join(toks).strip()


ASTRAL = ["string-length('\U0001f600')", "string-length('a\U0001f600b')", "substring('a\U0001f600bc', 2, 1)", "substring('a\U0001f600bc', 3)", "substring-before('x\U0001f600y', 'y')",
          "translate('a\U0001f600b', '\U0001f600', 'z')", "translate('abc', 'b', '\U00010000')", "string-length(substring('\U0001f600\U0001f600', 1, 1))",
          "contains('\U0001f600', substring('\U0001f600', 1, 1))", "string-length(concat('\U00010000', '\U0010ffff'))", "substring('\U00010000x', 2)", "string-length(normalize-space(' \U0001f600 '))"]


def astral_probe(ctx, idx, res):
    """XPath 1.0 counts characters (XML Char = code point); a supplementary character is one character"""
    drv = ctx.drv(FLAVOUR)
    expr = ASTRAL[idx % len(ASTRAL)]
    h = drv.call(cmd='xdoc', xml='<d/>', xerces=0)['doc'].decode()
    try:
        doc = refxml.parse('<d/>')
        cnode = doc
        ref = ref_eval(doc, expr, cnode, [cnode], {}, {})
        rep = C.call_xpath(drv, h, expr, '/', ['/'], {}, {}, 'generic')
        res.evals = 1
        res.count('astral_probes')
        bad = C.compare_generic(rep, ref)
        if bad:
            fn = expr.split('(')[0]
            res.viol('astral|%s' % fn, '%s: %s; XPath counts characters (code points), a supplementary character is one' % (expr, bad[1]), {'expression': expr})
        else:
            res.count('astral_agree')
    finally:
        drv.call(cmd='xdocdel', doc=h)
    res.sig = ('astral', expr)


# every ordered pair of tokens, glued and separated by a space, in five frames: the grammar recogniser of the reference says which strings
# are expressions, the library must agree (and the values of those that are must agree as for every other case)
PAIR_TOKENS = ['a', 'q:a', 'q:*', '*', '@a', '@*', '.', '..', '/', '//', '|', '+', '-', '=', '!=', '<', '<=', 'and', 'or', 'div', 'mod', '(', ')', '[', ']', ',', '1', '1.5', '.5', "'s'", '$v',
               'text()', 'node()', 'count(', 'child::', 'self::', '::', ':', '$', '!', 'position()', 'last()', 'true()', 'q:f(', '@', 'comment()', "processing-instruction('p')", '(a)', '(1)', '[1]', 'a)', 'a]']
# the last two frames never evaluate the pair: what is wrong with it must be noticed when the expression is compiled
PAIR_FRAMES = ['%s', 'a %s', '%s a', '(%s)', 'a[%s]', 'true() or %s', 'false() and (%s)']
PAIR_BLOCK = 64


def pair_sweep_case(ctx, idx, res):
    drv = ctx.drv(FLAVOUR)
    xml = '<doc xmlns:q="urn:q"><a>1</a><q:a>2</q:a>t<!--c--><?p d?></doc>'
    doc = refxml.parse(xml)
    cnode = [c for c in doc.children if c.kind == refxml.ELEM][0]
    h = drv.call(cmd='xdoc', xml=xml, xerces=0)['doc'].decode()
    n = len(PAIR_TOKENS)
    sigs = set()
    res.evals = 0
    try:
        for k in range(idx * PAIR_BLOCK, min((idx + 1) * PAIR_BLOCK, n * n)):
            t1, t2 = PAIR_TOKENS[k // n], PAIR_TOKENS[k % n]
            for sep in ('', ' '):
                for fr in PAIR_FRAMES:
                    check_one(ctx, res, drv, h, doc, fr % (t1 + sep + t2), cnode, [cnode], {'q': 'urn:q'}, {'v': 1.0}, False, xml, sigs, set())
                    res.evals += 1
                    res.count('token_pair_strings')
    finally:
        try:
            drv.call(cmd='xdocdel', doc=h)
        except DriverDied:
            pass
    res.sig = ('pair-sweep', idx)


def main():
    chk = Check('C02')
    chk.rule = ('typed random XPath expressions (13 axes, node tests, positional and boolean predicates, unions, filters, core functions, '
                'comparisons of all type pairs, arithmetic, variables of 4 types, optional EXSLT/xalan functions) x generated documents x '
                'random context nodes / context lists; 12% are mutated into probably-invalid strings. A case is one (expression, document, '
                'context); non-trivial = expression longer than 12 chars or with a predicate/function; distinct = distinct skeleton '
                '(literals, numbers and variable names abstracted).')
    chk.assumptions = ['refxpath is the reference; dynamic errors of the reference are skipped', 'namespace-axis results are compared by size only',
                       'generated text is BMP only; supplementary characters in the string functions are looked at by a separate probe (listed finding)']
    chk.ensure(FLAVOUR, 'xvdrv')
    n = 1500 if chk.tier == 'quick' else 50000
    chk.run_cases('c02', 'case', range(n))
    chk.run_cases('c02', 'astral_probe', range(len(ASTRAL)))
    chk.run_cases('c02', 'pair_sweep_case', range((len(PAIR_TOKENS) ** 2 + PAIR_BLOCK - 1) // PAIR_BLOCK))
    chk.finish(min_nontrivial=200, required_stats=('valid_evaluated', 'invalid_rejected'))


if __name__ == '__main__':
    main()
