"""C09 — a node matches a pattern exactly when the pattern, as an expression, selects it.
Oracle: the defining expression of XSLT 5.2 evaluated by refxpath from every ancestor-or-self;
on a disagreement the library's own forward evaluator is consulted too (if it disagrees with
refxpath the case is a C02 matter and is counted inconclusive here)."""
import os, sys
sys.path.insert(0, os.path.join(os.path.dirname(os.path.abspath(__file__)), '..'))
from framework import Check, rng_for
from xvdriver import DriverDied
import refxml, refxpath as X, gen_xml, gen_xpath, xpcommon as C
import c02

NS = gen_xml.expr_namespaces()


def matched_by_ref(alts, nodes, env):
    out = set()
    for n in nodes:
        try:
            if X.pattern_matches(alts, n, env):
                out.add(n.path())
        except X.XPathError:
            return None
    return out


def forward_xalan(drv, h, pattern, node):
    """the library's own forward evaluation of the defining expression for one node"""
    a = node
    while a is not None:
        rp = C.call_xpath(drv, h, pattern, a.path(), [a.path()], NS, {}, 'generic')
        if 'nodes' in rp and node.path() in rp['nodes'].split('\n'):
            return True
        if 'type' not in rp:
            return None
        a = a.parent
    return False


def case(ctx, idx, res):
    r = rng_for(ctx.seed, 'c09', idx)
    drv = ctx.drv('plain')
    thorough = ctx.tier == 'thorough'
    xml, info = gen_xml.gen_doc(r, size=r.choice([10, 20, 35] + ([70] if thorough else [])), ns=r.random() < 0.6)
    use_xerces = r.random() < 0.25
    if use_xerces and xml.startswith('<!DOCTYPE') and 'xerces-doctype' in ctx.findings_avoid:
        xml = xml[xml.index(']>') + 2:]
    doc = refxml.parse(xml)
    nodes = c02.all_nodes(doc)
    h = drv.call(cmd='xdoc', xml=xml, xerces=1 if use_xerces else 0)['doc'].decode()
    env = X.Env(namespaces=NS)
    sigs = set()
    res.evals = 0
    try:
        for j in range(40):
            g = gen_xpath.Gen(r, info, {}, max_depth=2)
            pat = gen_xpath.gen_pattern(g)
            try:
                alts = X.parse_pattern(pat)
            except X.XPathSyntaxError as e:
                res.inconclusive.append('harness-exception: generated pattern does not parse: %s: %s' % (pat, e))
                continue
            if any(X.static_errors(a, xslt=False, namespaces=NS) for a in alts):
                continue
            # half of the patterns are matched while an unrelated context node list is current (as inside apply-templates / for-each)
            amb = {'ambient': str(r.choice([1, 2, 3]))} if r.random() < 0.5 else {}
            rp = drv.call(cmd='match', doc=h, pattern=pat, ns='\n'.join('%s=%s' % kv for kv in NS.items()), **amb)
            res.evals += 1
            if amb:
                res.count('matched_under_ambient_context_list')
            if 'compile_error' in rp:
                res.viol('pattern-rejected|' + C.skeleton(pat), 'the valid pattern %r is rejected: %s' % (pat, rp['compile_error'].decode()[:150]), {'pattern': pat})
                continue
            if 'match_error' in rp:
                res.count('match_error')
                continue
            got = set()
            for line in rp['scores'].decode().split('\n'):
                if not line or '/ns:' in line.split(' ')[0]:
                    continue
                p, sc = line.rsplit(' ', 1)
                if sc != 'none':
                    got.add(p)
            exp = matched_by_ref(alts, nodes, env)
            if exp is None:
                res.count('reference_dynamic_error')
                continue
            res.count('node_tests', len(nodes))
            res.count('patterns')
            if exp:
                sigs.add(C.skeleton(pat))
                res.count('patterns_matching_something')
            if got == exp:
                continue
            diff = sorted(got ^ exp)
            witness = diff[0]
            wnode = [n for n in nodes if n.path() == witness][0]
            fw = forward_xalan(drv, h, pat, wnode)
            payload = {'pattern': pat, 'document': xml, 'xerces': use_xerces, 'node': witness, 'matched_by_library': witness in got,
                       'selected_by_reference': witness in exp, 'selected_by_library_forward_evaluation': fw}
            if fw is not None and fw != (witness in exp):
                res.inconclusive.append('forward evaluators disagree (C02 matter): %s' % pat)
                res.count('oracle_disagreement')
                continue
            # shrink the pattern: drop alternatives / predicates / steps while the same node stays a witness
            def still(pp):
                try:
                    al = X.parse_pattern(pp)
                except X.XPathSyntaxError:
                    return False
                r2 = drv.call(cmd='match', doc=h, pattern=pp, ns='\n'.join('%s=%s' % kv for kv in NS.items()), **amb)
                if 'scores' not in r2:
                    return False
                g2 = set(l.rsplit(' ', 1)[0] for l in r2['scores'].decode().split('\n') if l and not l.endswith(' none'))
                try:
                    e2 = X.pattern_matches(al, wnode, env)
                except X.XPathError:
                    return False
                return (witness in g2) != e2
            m = shrink_pattern(pat, still)
            res.viol('match|%s|%s' % ('false-positive' if witness in got else 'false-negative', pattern_class(m, witness)),
                     'pattern %r: node %s is %s by the library but %s by the pattern evaluated as an expression from its ancestors-or-self'
                     % (m, witness, 'matched' if witness in got else 'not matched', 'selected' if witness in exp else 'not selected'), dict(payload, minimal=m))
    finally:
        try:
            drv.call(cmd='xdocdel', doc=h)
        except DriverDied:
            pass
    res.sigs = sigs
    res.sample = {'document': xml[:200], 'pattern': pat}


# ---- the places that use patterns ----------------------------------------------------------------------------------------------
NODE_KEY = "concat(count(ancestor::node() | preceding::node()), '/', name(self::node()[not(self::*)][count(. | ../@*) = count(../@*)]), '/', count(self::text()), count(self::comment()), count(self::processing-instruction()))"


def usesite_case(ctx, idx, res):
    """template match, xsl:key match and xsl:number count must agree with getMatchScore on every node (what getMatchScore is measured against is
    the other family's matter).  Every node of the document goes through apply-templates in a mode whose only rule of high priority has the
    pattern; key() lists the nodes the key table was built from; xsl:number level="single" count=P is predicted from the matching set."""
    import gen_xslt
    import xsltcommon as XC
    r = rng_for(ctx.seed, 'c09u', idx)
    drv = ctx.drv('plain')
    runner = ctx.cache.get('runner')
    if runner is None:
        runner = ctx.cache['runner'] = XC.Runner(ctx, 'plain')
    xml, info = gen_xml.gen_doc(r, size=r.choice([10, 20, 35]), ns=r.random() < 0.6)
    doc = refxml.parse(xml)
    nodes = [n for n in c02.all_nodes(doc) if n.kind != refxml.NS]
    env = X.Env(namespaces=NS)
    keyexpr = X.parse(NODE_KEY)
    ident = {}
    for n in nodes:
        ident[X.to_string(X.evaluate(keyexpr, X.Context(n, 1, 1, env)))] = n
    if len(ident) != len(nodes):
        res.inconclusive.append('harness-exception: node keys are not unique')
        return
    h = drv.call(cmd='xdoc', xml=xml, xerces=0)['doc'].decode()
    res.evals = 0
    sigs = set()
    try:
        for j in range(12):
            g = gen_xpath.Gen(r, info, {}, max_depth=2)
            keyed = r.random() < 0.3
            if keyed:
                # a key() pattern: nodes of every kind are keyed (key 'uk' below); what the pattern must match is what it selects as an expression
                # (key() does not depend on the context), computed in the same transformation
                pat = "key('uk', %s)" % r.choice(["'0'", "'1'", "'2'", "'a'", "'b'", "''", "'doc'"])
                if r.random() < 0.5:
                    pat += r.choice(['/', '//']) + r.choice(['*', 'node()', 'text()', '@*', 'comment()', r.choice(g.names), '*[1]', 'node()[last()]'])
                direct = None
            else:
                pat = gen_xpath.gen_pattern(g, allow_id=False)
                try:
                    alts = X.parse_pattern(pat)
                except X.XPathSyntaxError:
                    continue
                if any(X.static_errors(a, xslt=False, namespaces=NS) for a in alts):
                    continue
                rp = drv.call(cmd='match', doc=h, pattern=pat, ns='\n'.join('%s=%s' % kv for kv in NS.items()))
                if 'scores' not in rp:
                    continue
                direct = set()
                for line in rp['scores'].decode().split('\n'):
                    if line and '/ns:' not in line.split(' ')[0]:
                        p_, sc = line.rsplit(' ', 1)
                        if sc != 'none':
                            direct.add(p_)
            e = gen_xslt.aesc(pat)
            ukey = '<xsl:key name="uk" match="node()|@*|/" use="%s"/>' % r.choice(['name()', 'count(preceding-sibling::node()) mod 3', 'string-length(.) mod 2', 'count(*)', 'local-name()'])
            xsl = ((gen_xslt.HEAD % '') + ukey + ('<xsl:key name="kp" match="*" use="\'no\'"/>' if keyed else '<xsl:key name="kp" match="%s" use="\'k\'"/>' % e) +
                   '<xsl:template match="/"><out><t><xsl:apply-templates select="//node()|//@*|/" mode="m"/></t><k><xsl:for-each select="key(\'kp\',\'k\')"><h p="{%s}"/></xsl:for-each></k>'
                   '<c><xsl:for-each select="//node()|//@*"><n p="{%s}"><xsl:number count="%s"/></n></xsl:for-each></c><d>%s</d></out></xsl:template>'
                   '<xsl:template match="%s" mode="m" priority="5"><h p="{%s}"/></xsl:template><xsl:template match="node()|@*|/" mode="m" priority="-5"/></xsl:stylesheet>'
                   % (NODE_KEY, NODE_KEY, e, ('<xsl:for-each select="%s"><h p="{%s}"/></xsl:for-each>' % (e, NODE_KEY)) if keyed else '', e, NODE_KEY))
            rx = runner.transform(xsl, xml)
            res.evals += 1
            payload = {'pattern': pat, 'document': xml, 'stylesheet': xsl}
            if rx.status != 0:
                res.viol('usesite|fails|' + C.skeleton(pat), 'the pattern %r is accepted by the pattern compiler but the stylesheet using it fails: %s' % (pat, rx.err[:200]), payload)
                continue
            t = refxml.parse(XC._DECL.sub('', rx.out.decode('utf-8')))
            out = [c for c in t.children if c.kind == refxml.ELEM][0]
            parts = dict((c.local, c) for c in out.children if c.kind == refxml.ELEM)

            def paths(el):
                got = set()
                for c in el.children:
                    if c.kind == refxml.ELEM:
                        k = dict((a.local, a.value) for a in c.attrs)['p']
                        got.add(ident[k].path() if k in ident else '?' + k)
                return got
            if keyed:
                direct = paths(parts['d'])
                res.count('usesite_key_patterns')
            for site, el in (('template', parts['t']),) + ((('key', parts['k']),) if not keyed else ()):
                got = paths(el)
                if got != direct:
                    diff = sorted(got ^ direct)
                    res.viol('usesite|%s|%s' % (site, 'extra' if diff[0] in got else 'missing'), 'pattern %r as %s: node %s is %s, getMatchScore says %s' % (
                        pat, 'template match' if site == 'template' else 'xsl:key match', diff[0], 'matched' if diff[0] in got else 'not matched', 'match' if diff[0] in direct else 'no match'), payload)
                    break
                res.count('usesite_%s_agrees' % site)
            # xsl:number level="single" count=P, predicted from the matching set
            bad = None
            for c in parts['c'].children:
                if c.kind != refxml.ELEM:
                    continue
                k = dict((a.local, a.value) for a in c.attrs)['p']
                n = ident.get(k)
                if n is None:
                    continue
                a = n
                while a is not None and a.path() not in direct:
                    a = a.parent
                want = ''
                if a is not None and a.kind != refxml.ROOT:
                    sibs = a.parent.children if a.kind not in (refxml.ATTR,) else []
                    before = 0
                    for s_ in sibs:
                        if s_ is a:
                            break
                        if s_.path() in direct:
                            before += 1
                    want = str(before + 1)
                elif a is not None:
                    want = '1'
                if c.string_value() != want:
                    bad = (n.path(), c.string_value(), want)
                    break
            if bad:
                res.viol('usesite|number-count', 'xsl:number count=%r at node %s gives %r; from the nodes getMatchScore matches it is %r' % (pat, bad[0], bad[1], bad[2]), payload)
            else:
                res.count('usesite_number_agrees')
            sigs.add(C.skeleton(pat))
    finally:
        try:
            drv.call(cmd='xdocdel', doc=h)
        except DriverDied:
            pass
    res.sigs = sigs
    res.sample = {'kind': 'usesite'}


def _mentions_position(a):
    if not isinstance(a, tuple):
        return False
    if a[0] == 'num':
        return True
    if a[0] == 'func' and a[1] in ('position', 'last'):
        return True
    if a[0] in ('+', '-', '*', 'div', 'mod', 'neg'):
        return True
    if a[0] == 'func':
        return any(_mentions_position(x) for x in a[2])
    if a[0] in ('path', 'filter', 'lit', 'var'):
        return False
    return any(_mentions_position(x) for x in a[1:] if isinstance(x, tuple))


def pattern_class(m, witness=None):
    """root-cause class of a matching disagreement from the shape of the minimised pattern"""
    try:
        alts = X.parse_pattern(m)
    except X.XPathSyntaxError:
        return C.skeleton(m)
    depth = None
    if witness is not None:
        depth = 0 if witness == '/' else witness.count('/')
    for a in alts:
        start, steps = a[1], a[2]
        # the root itself matched by a final child::node() step
        if depth == 0 and steps and steps[-1][0] == 'child' and steps[-1][1] == ('type', 'node', None):
            return 'node()-step-matches-root'
        # a leading child::node() step followed by '//': any depth lines it up with the root
        if len(steps) >= 2 and start is None and steps[0][0] == 'child' and steps[0][1] == ('type', 'node', None) and steps[1][0] == 'descendant-or-self':
            return 'node()-step-matches-root'
        # a child::node() step lined up with the document root (only decidable without '//')
        if depth is not None and not any(ax == 'descendant-or-self' for ax, nt, pr in steps):
            for i, (ax, nt, preds) in enumerate(steps):
                if ax == 'child' and nt == ('type', 'node', None) and len(steps) - 1 - i == depth:
                    return 'node()-step-matches-root'
        # position of every '//' (a descendant-or-self::node() step) and the number of steps to its left
        real = 0
        for i, (ax, nt, preds) in enumerate(steps):
            if ax == 'descendant-or-self' and nt == ('type', 'node', None) and not preds:
                left = real + (1 if start is not None and not (start == 'root' and real == 0 and i == 0) else 0)
                if i > 0 and (real >= 2 or (real >= 1 and start is not None)):
                    return 'dslash-after-longer-prefix'
            else:
                real += 1
        if steps:
            ax, nt, preds = steps[-1]
            if ax == 'attribute' and any(_mentions_position(p) for p in preds):
                return 'attribute-positional'
    return C.skeleton(m)


def shrink_pattern(pat, still):
    cur = pat
    # candidates are written back from the parse tree (abbreviations expanded), so start from that form too: otherwise every candidate is
    # longer than the generated text and nothing is ever tried
    try:
        norm = ' | '.join(unparse_pattern(a) for a in X.parse_pattern(pat))
        if still(norm):
            cur = norm
    except Exception:
        pass
    progress = True
    budget = 200
    while progress and budget > 0:
        progress = False
        try:
            alts = X.parse_pattern(cur)
        except X.XPathSyntaxError:
            return cur
        cands = []
        if len(alts) > 1:
            for i in range(len(alts)):
                cands.append(alts[:i] + alts[i + 1:])
        for i, a in enumerate(alts):
            for v in C.variants(a):
                if v[0] == 'path':
                    cands.append(alts[:i] + [v] + alts[i + 1:])
        for c in cands:
            try:
                s = ' | '.join(unparse_pattern(a) for a in c)
            except Exception:
                continue
            if len(s) >= len(cur):
                continue
            budget -= 1
            if budget <= 0:
                break
            if still(s):
                cur = s
                progress = True
                break
    return cur


def unparse_pattern(a):
    start, steps = a[1], a[2]
    out = ''
    if start == 'root':
        out = '/'
    elif start is not None:
        out = C.unparse(start) + ('/' if steps else '')
    parts = []
    i = 0
    while i < len(steps):
        ax, nt, preds = steps[i]
        if ax == 'descendant-or-self' and nt == ('type', 'node', None) and not preds and i + 1 < len(steps):
            ax2, nt2, p2 = steps[i + 1]
            parts.append('/' + stepstr(ax2, nt2, p2))
            i += 2
            continue
        parts.append(stepstr(ax, nt, preds))
        i += 1
    body = ''
    for k, p in enumerate(parts):
        if k == 0:
            body = p if not (out.endswith('/') and p.startswith('/')) else p[1:] if out != '/' else '/' + p[1:]
            if out == '/' and p.startswith('/'):
                out = ''
                body = '/' + p
        else:
            body += '/' + p if not p.startswith('/') else '/' + p
    return out + body


def stepstr(ax, nt, preds):
    a = '@' if ax == 'attribute' else ''
    return a + C._nt(nt) + ''.join('[' + C.unparse(p) + ']' for p in preds)


def main():
    chk = Check('C09')
    chk.rule = ('generated patterns over the Pattern grammar (/, //, child/attribute axes abbreviated and explicit, all node tests, p:*, '
                'positional/last()/boolean/nested-path predicates, several predicates, id() patterns, unions) x generated documents; every '
                'node of every document (root, elements, attributes, text, comments, PIs) is tested through XPath::getMatchScore. A case is one '
                '(pattern, document); non-trivial = the pattern matches at least one node; distinct = distinct pattern skeleton.')
    chk.assumptions = ['refxpath evaluates the defining expression; on disagreement the library forward evaluator arbitrates (disagreeing oracles -> inconclusive)',
                       'key() patterns are exercised at stylesheet level by C15/C10']
    chk.ensure('plain', 'xvdrv')
    n = 400 if chk.tier == 'quick' else 20000
    chk.run_cases('c09', 'case', range(n))
    chk.run_cases('c09', 'usesite_case', range(n // 2))
    chk.finish(min_nontrivial=200, required_stats=('node_tests', 'patterns_matching_something', 'usesite_template_agrees', 'usesite_key_agrees', 'usesite_number_agrees', 'usesite_key_patterns'))


if __name__ == '__main__':
    main()
