"""Shared helpers of the XPath-level checks (C02, C09, C11, C12): calling the driver's xpath
command, decoding results, comparing with refxpath values, unparsing and shrinking expressions."""
import math, struct
import refxml, refxpath as X, refnum, gen_xml


def hexbits(x):
    return '%016x' % struct.unpack('<Q', struct.pack('<d', x))[0]


def from_hex(h):
    return struct.unpack('<d', struct.pack('<Q', int(h, 16)))[0]


def encode_vars(variables, ns):
    """variables: {qname: python value (float/str/bool/list of nodes)} -> wire format"""
    recs = []
    for name, v in variables.items():
        p, l = refxml.split_qname(name)
        key = '{%s}%s' % (ns.get(p, '') if p else '', l)
        if isinstance(v, bool):
            recs.append('%s\x1fbool\x1f%s' % (key, '1' if v else '0'))
        elif isinstance(v, float):
            recs.append('%s\x1fnum\x1f%s' % (key, hexbits(v)))
        elif isinstance(v, str):
            recs.append('%s\x1fstr\x1f%s' % (key, v))
        else:
            recs.append('%s\x1fnodes\x1f%s' % (key, ';'.join(n.path() for n in v)))
    return '\x1e'.join(recs)


def call_xpath(drv, doc, expr, ctx='/', ctxlist=None, ns=None, variables=None, entry='generic', strprefix=None, strip=0):
    ns = ns or {}
    fields = dict(cmd='xpath', doc=doc, expr=expr, ctx=ctx, entry=entry,
                  ns='\n'.join('%s=%s' % kv for kv in ns.items()), vars=encode_vars(variables or {}, ns))
    if ctxlist is not None:
        fields['ctxlist'] = ';'.join(ctxlist)
    if strprefix:
        fields['strprefix'] = strprefix
    if strip:
        fields['strip'] = str(strip)
    rep = drv.call(**fields)
    out = {}
    for k, v in rep.items():
        out[k] = v.decode('utf-8', 'surrogateescape')
    return out


def has_ns_node(nodes):
    return any(n.kind == refxml.NS for n in nodes)


def same_number(a, b):
    if a != a and b != b:
        return True
    return hexbits(a) == hexbits(b)


def describe(v):
    if isinstance(v, list):
        return 'node-set[' + ' '.join(n.path() for n in v[:12]) + (' ...' if len(v) > 12 else '') + ']'
    if isinstance(v, float):
        return 'number ' + repr(v)
    if isinstance(v, bool):
        return 'boolean ' + str(v).lower()
    return 'string %r' % (v,)


_NUMCH = set('0123456789.')


def _sig_digits(numeral):
    d = numeral.replace('.', '').lstrip('0')
    return d


def same_modulo_numeral_form(lib, ref):
    """True when the two strings differ only in numerals of which both forms are legitimate readings of XPath 4.2 ("as many, but only as many,
    more digits as are needed to uniquely distinguish the number"): the reference writes the shortest digit string that reads back as the number
    (5.684341886080802e-14 for 2^-44), the library the shortest CORRECTLY ROUNDED decimal that does (5.6843418860808015e-14: the 16-digit
    rounding ...801 does not read back).  A numeral of the library is accepted only if it reads back as the same double as the reference's, is
    the correctly rounded decimal of that double at its own length (at most 17 digits), and no shorter correctly rounded decimal reads back as it.
    The strings are walked together; at a difference the numeral around it is delimited on the left by trying every start inside the run of
    numeral characters (digits of a neighbouring string may be glued to it) and on the right by the few digits in which the two forms can differ."""
    if lib == ref:
        return True
    i = j = 0
    while i < len(lib) or j < len(ref):
        if i < len(lib) and j < len(ref) and lib[i] == ref[j]:
            i += 1
            j += 1
            continue
        lo = i
        while lo > 0 and lib[lo - 1] in _NUMCH:
            lo -= 1
        done = False
        for s0 in range(lo, i + 1):
            for da in (1, 2, 3):
                for db in (0, 1, 2):
                    if _numeral_forms_agree(lib[s0:i + da], ref[s0 - i + j:j + db]) and i + da <= len(lib) and j + db <= len(ref):
                        i, j, done = i + da, j + db, True
                        break
                if done:
                    break
            if done:
                break
        if not done:
            return False
    return True


def _numeral_forms_agree(na, nb):
    if not na or not nb or not set(na) <= _NUMCH or not set(nb) <= _NUMCH or na.count('.') > 1 or nb.count('.') > 1:
        return False
    try:
        x = float(nb)
        if float(na) != x or x == 0.0:
            return False
    except ValueError:
        return False
    n = len(_sig_digits(na))
    if n > 17 or n <= len(_sig_digits(nb)):
        return False
    if _sig_digits(na) != ('%.*e' % (n - 1, x)).split('e')[0].replace('.', ''):
        return False
    return all(float('%.*e' % (m - 1, x)) != x for m in range(1, n))


def compare_generic(rep, ref):
    """rep: decoded reply of entry generic/all; ref: refxpath value.  Returns None or (kind, detail)."""
    t = rep.get('type')
    rt = X.type_name(ref)
    if t != rt:
        return ('type', 'type %s, expected %s (%s)' % (t, rt, describe(ref)))
    if rt == 'boolean':
        got = rep['g_bool'] == '1'
        if got != ref:
            return ('boolean', 'boolean %s, expected %s' % (got, ref))
    elif rt == 'number':
        got = from_hex(rep['g_num'])
        if not same_number(got, ref):
            kind = 'number-zero-sign' if got == ref else 'number'
            return (kind, 'number %r, expected %r' % (got, ref))
    elif rt == 'string':
        if rep['g_str'] != ref and not same_modulo_numeral_form(rep['g_str'], ref):
            return ('string', 'string %r, expected %r' % (rep['g_str'][:200], ref[:200]))
    elif rt == 'node-set':
        got = [p for p in rep.get('nodes', '').split('\n') if p]
        if has_ns_node(ref) or any('/ns:' in p for p in got):
            exp_n = len(ref)
            if len(got) != exp_n:
                return ('nodeset-ns-count', '%d nodes, expected %d (namespace nodes involved)' % (len(got), exp_n))
            return None
        exp = [n.path() for n in ref]
        if got != exp:
            if sorted(got) == sorted(exp):
                return ('nodeset-order', 'nodes %s, expected order %s' % (got[:12], exp[:12]))
            if len(set(got)) != len(got):
                return ('nodeset-duplicates', 'nodes %s contain duplicates, expected %s' % (got[:12], exp[:12]))
            return ('nodeset', 'nodes %s, expected %s' % (got[:12], exp[:12]))
    return None


# -- unparse / shrink --------------------------------------------------------------------------
def _nt(nt):
    if nt[0] == 'wild':
        return '*'
    if nt[0] == 'nswild':
        return nt[1] + ':*'
    if nt[0] == 'name':
        return (nt[1] + ':' if nt[1] else '') + nt[2]
    if nt[1] == 'processing-instruction' and nt[2] is not None:
        return "processing-instruction('%s')" % nt[2]
    return nt[1] + '()'


def _lit(s):
    return "'%s'" % s if "'" not in s else '"%s"' % s


def _num(x):
    s = X.num_to_string(abs(x))
    return s


def unparse(a, prec=0):
    t = a[0]
    P = {'or': 1, 'and': 2, '=': 3, '!=': 3, '<': 4, '<=': 4, '>': 4, '>=': 4, '+': 5, '-': 5, '*': 6, 'div': 6, 'mod': 6, 'neg': 7, 'union': 8}
    if t in P and t != 'neg':
        p = P[t]
        op = '|' if t == 'union' else t
        s = '%s %s %s' % (unparse(a[1], p), op, unparse(a[2], p + 1))
        return '(%s)' % s if p < prec else s
    if t == 'neg':
        s = '-' + unparse(a[1], 7)
        return '(%s)' % s if 7 < prec else s
    if t == 'lit':
        return _lit(a[1])
    if t == 'num':
        return _num(a[1])
    if t == 'var':
        return '$' + a[1]
    if t == 'group':
        return '(' + unparse(a[1]) + ')'
    if t == 'func':
        return a[1] + '(' + ', '.join(unparse(x) for x in a[2]) + ')'
    if t == 'filter':
        return unparse(a[1], 9) + ''.join('[' + unparse(p) + ']' for p in a[2])
    if t == 'path':
        start, steps = a[1], a[2]
        parts = []
        for (axis, nt, preds) in steps:
            parts.append(axis + '::' + _nt(nt) + ''.join('[' + unparse(p) + ']' for p in preds))
        body = '/'.join(parts)
        if start is None:
            return body
        if start == 'root':
            return '/' + body
        return unparse(start, 9) + ('/' + body if body else '')
    raise ValueError(t)


def sub_asts(a):
    """yields (replacement candidates) for shrinking: smaller asts of plausible same type"""
    t = a[0]
    if t in ('or', 'and', '=', '!=', '<', '<=', '>', '>=', '+', '-', '*', 'div', 'mod', 'union'):
        yield a[1]
        yield a[2]
    elif t in ('neg', 'group'):
        yield a[1]
    elif t == 'func':
        for x in a[2]:
            yield x
    elif t == 'filter':
        yield a[1]
        for p in a[2]:
            yield p
    elif t == 'path':
        if a[1] not in (None, 'root'):
            yield a[1]
        for (axis, nt, preds) in a[2]:
            for p in preds:
                yield p


def rebuild(a, f):
    """applies f to every direct child ast"""
    t = a[0]
    if t in ('or', 'and', '=', '!=', '<', '<=', '>', '>=', '+', '-', '*', 'div', 'mod', 'union'):
        return (t, f(a[1]), f(a[2]))
    if t in ('neg', 'group'):
        return (t, f(a[1]))
    if t == 'func':
        return (t, a[1], [f(x) for x in a[2]])
    if t == 'filter':
        return (t, f(a[1]), [f(p) for p in a[2]])
    if t == 'path':
        st = a[1] if a[1] in (None, 'root') else f(a[1])
        return (t, st, [(ax, nt, [f(p) for p in preds]) for (ax, nt, preds) in a[2]])
    return a


def variants(a):
    """one-step simplifications of the ast (whole-tree)"""
    # replace the root by a sub-ast
    for s in sub_asts(a):
        yield s
    t = a[0]
    if t == 'path':
        start, steps = a[1], a[2]
        for i in range(len(steps)):
            if len(steps) > 1:
                yield ('path', start, steps[:i] + steps[i + 1:])
            ax, nt, preds = steps[i]
            for j in range(len(preds)):
                yield ('path', start, steps[:i] + [(ax, nt, preds[:j] + preds[j + 1:])] + steps[i + 1:])
        if start not in (None, 'root'):
            yield ('path', None, steps)
    if t == 'filter':
        for j in range(len(a[2])):
            rest = a[2][:j] + a[2][j + 1:]
            yield ('filter', a[1], rest) if rest else a[1]
    if t == 'func' and len(a[2]) > 1 and a[1] == 'concat':
        for j in range(len(a[2])):
            rest = a[2][:j] + a[2][j + 1:]
            if len(rest) >= 2:
                yield ('func', a[1], rest)
    # recurse: simplify one child
    kids = list(_children_positions(a))
    for idx, child in kids:
        for v in variants(child):
            yield _replace_child(a, idx, v)


def _children_positions(a):
    t = a[0]
    if t in ('or', 'and', '=', '!=', '<', '<=', '>', '>=', '+', '-', '*', 'div', 'mod', 'union'):
        yield (1,), a[1]
        yield (2,), a[2]
    elif t in ('neg', 'group'):
        yield (1,), a[1]
    elif t == 'func':
        for i, x in enumerate(a[2]):
            yield (2, i), x
    elif t == 'filter':
        yield (1,), a[1]
        for i, p in enumerate(a[2]):
            yield (2, i), p
    elif t == 'path':
        if a[1] not in (None, 'root'):
            yield (1,), a[1]
        for i, (ax, nt, preds) in enumerate(a[2]):
            for j, p in enumerate(preds):
                yield (2, i, j), p


def _replace_child(a, idx, v):
    t = a[0]
    if len(idx) == 1:
        l = list(a)
        l[idx[0]] = v
        return tuple(l)
    if t in ('func', 'filter'):
        lst = list(a[2])
        lst[idx[1]] = v
        return (t, a[1], lst)
    if t == 'path':
        steps = list(a[2])
        ax, nt, preds = steps[idx[1]]
        preds = list(preds)
        preds[idx[2]] = v
        steps[idx[1]] = (ax, nt, preds)
        return ('path', a[1], steps)
    return a


def shrink(expr, still_fails, budget=150):
    """greedy AST-level shrinking while still_fails(expr_string) is true"""
    try:
        cur = X.parse(expr)
    except X.XPathSyntaxError:
        return expr
    cur_s = expr
    tried = set()
    progress = True
    while progress and budget > 0:
        progress = False
        for v in variants(cur):
            try:
                s = unparse(v)
            except Exception:
                continue
            if s in tried or len(s) >= len(cur_s):
                continue
            tried.add(s)
            budget -= 1
            if budget <= 0:
                break
            try:
                ok = still_fails(s)
            except Exception:
                ok = False
            if ok:
                cur, cur_s = X.parse(s), s
                progress = True
                break
    return cur_s


def skeleton(expr):
    """expression with literals, numbers and names abstracted: used in violation keys"""
    import re
    s = re.sub(r"'[^']*'|\"[^\"]*\"", 'S', expr)
    s = re.sub(r'(?<![\w\-:$.])(\d+\.?\d*|\.\d+)', 'N', s)
    s = re.sub(r'\$[\w\-.:]+', '$V', s)
    return s
