"""Common run loop of the /verif checks: parallel case execution, verdicts, known findings,
replay files and evidence.  Verdict discipline (DESIGN 2.6): exit 0 held (maybe KNOWN-FINDING
lines), exit 1 with VIOLATION lines, exit 2 harness failure / nothing observed."""
import hashlib, json, multiprocessing, os, random, re, subprocess, sys, time, traceback

from xvdriver import Driver, DriverDied, report_key, VERIF, WORK, BUILD

NPROC = int(os.environ.get('VERIF_JOBS', '0') or 0) or (os.cpu_count() or 4)


def stable_hash(*parts):
    h = hashlib.sha256(repr(parts).encode()).hexdigest()
    return int(h[:16], 16)


def rng_for(seed, *parts):
    return random.Random(stable_hash(seed, *parts))


def ensure(flavour, *drivers):
    """(Re)builds the flavour from /repo's working tree.  Exit 2 on failure."""
    t = time.time()
    rc = subprocess.call([os.path.join(VERIF, 'build', 'ensure.sh'), flavour] + list(drivers))
    if rc != 0:
        print('HARNESS-FAILURE: build of flavour %s failed' % flavour)
        sys.exit(2)
    return time.time() - t


# ---------------------------------------------------------------------------------------------
class Findings(object):
    def __init__(self):
        self.entries = []
        p = os.path.join(VERIF, 'known_findings.json')
        if os.path.exists(p):
            self.entries = json.load(open(p)).get('findings', [])

    def match(self, prop, key):
        for e in self.entries:
            if e.get('property') != prop or e.get('status') != 'open':
                continue
            if e.get('key') == key:
                return e
            rx = e.get('key_regex')
            if rx and re.search(rx, key):
                return e
        return None

    def avoid_tags(self, prop):
        """tags that generators of OTHER properties honour (open findings only)"""
        tags = set()
        for e in self.entries:
            if e.get('status') == 'open' and e.get('property') != prop:
                tags.update(e.get('avoid', []))
        return tags


# ---------------------------------------------------------------------------------------------
class CaseResult(object):
    """What one case observed."""
    __slots__ = ('sig', 'sigs', 'violations', 'inconclusive', 'sample', 'stats', 'evals')

    def __init__(self):
        self.sig = None            # feature signature when the case was non-trivial
        self.sigs = None           # or: a set of signatures (batched cases)
        self.violations = []       # (key, what, replay_payload)
        self.inconclusive = []     # reasons
        self.sample = None
        self.stats = {}            # counter name -> int
        self.evals = 1             # executions of the library this case made

    def viol(self, key, what, payload=None):
        self.violations.append((key, what, payload))

    def count(self, name, n=1):
        self.stats[name] = self.stats.get(name, 0) + n


class Ctx(object):
    """Per worker-process context."""

    def __init__(self, prop, tier, seed, wid):
        self.prop, self.tier, self.seed, self.wid = prop, tier, seed, wid
        self.drivers = {}
        self.workdir = os.path.join(WORK, prop, 'w%d' % wid)
        os.makedirs(self.workdir, exist_ok=True)
        self.cache = {}
        self.findings_avoid = Findings().avoid_tags(None)

    def drv(self, flavour='plain', name='xvdrv', **kw):
        k = (flavour, name)
        d = self.drivers.get(k)
        if d is None:
            d = Driver(flavour, name, tag='%s.w%d' % (self.prop, self.wid), **kw)
            self.drivers[k] = d
        return d

    def close(self):
        for d in self.drivers.values():
            d.stop()
        self.drivers = {}


def crash_violation(res, e, prop, payload):
    """Turns a DriverDied into a violation (or inconclusive for a timeout)."""
    if e.timeout:
        res.inconclusive.append('timeout')
        res.sample = res.sample or None
        try:
            # kept for diagnosis only (a time-out is inconclusive, never a verdict)
            tdir = os.path.join(WORK, 'timeouts')
            os.makedirs(tdir, exist_ok=True)
            with open(os.path.join(tdir, '%s.%s.json' % (prop, (payload or {}).get('case'))), 'w') as f:
                json.dump(payload, f, indent=1, default=str)
        except Exception:
            pass
        return 'timeout'
    kind, frames = report_key(e.stderr)
    if kind is None:
        kind = 'died rc=%s' % e.rc
    key = 'crash|' + kind + '|' + ';'.join(frames[:2])
    tail = '\n'.join(e.stderr.splitlines()[:60])
    pl = dict(payload or {})
    pl['stderr_head'] = tail
    res.viol(key, '%s in %s' % (kind, ' <- '.join(frames[:3]) or '?'), pl)
    return key


_G = {}
STATELESS_CMDS = ('ser', 'num')


def _worker_init(prop, tier, seed, case_fn_name, module_name, counter):
    with counter.get_lock():
        wid = counter.value
        counter.value += 1
    mod = sys.modules.get(module_name) or __import__(module_name)
    _G['ctx'] = Ctx(prop, tier, seed, wid)
    _G['fn'] = getattr(mod, case_fn_name)
    import atexit
    atexit.register(_G['ctx'].close)


def _worker_run(idx):
    ctx = _G['ctx']
    res = CaseResult()
    try:
        _G['fn'](ctx, idx, res)
    except DriverDied as e:
        if e.timeout and (e.request or {}).get('cmd') in STATELESS_CMDS:
            # a time-out is inconclusive; the same stateless request is re-run once in a fresh process with four
            # times the budget, and only a second time-out is reported (as a hang, through the usual key matching)
            try:
                flavour = getattr(e, 'flavour', None) or 'plain'
                d = ctx.drv(flavour)
                d.call(_timeout=4 * d.timeout, **e.request)
                res.inconclusive.append('timeout-not-reproduced')
            except DriverDied as e2:
                if e2.timeout:
                    rq = _brief(e.request)
                    res.viol('hang|%s|%s' % (rq.get('cmd'), '|'.join(str(rq.get(k)) for k in ('which', 'enc', 'ver') if k in rq)),
                             'the request does not return within %d s, twice (fresh process the second time)' % int(4 * d.timeout), {'case': idx, 'request': rq})
                else:
                    crash_violation(res, e2, ctx.prop, {'case': idx, 'request': _brief(e2.request)})
        else:
            crash_violation(res, e, ctx.prop, {'case': idx, 'request': _brief(e.request)})
    except Exception:
        res.inconclusive.append('harness-exception: ' + traceback.format_exc()[-1500:])
    sig = res.sigs if res.sigs is not None else res.sig
    return (idx, sig, res.violations, res.inconclusive, res.sample, res.stats, res.evals)


def _worker_close(_):
    _G['ctx'].close()
    return True


def _brief(req):
    out = {}
    for k, v in (req or {}).items():
        if isinstance(v, bytes):
            v = v.decode('utf-8', 'replace')
        v = str(v)
        out[k] = v if len(v) < 20000 else v[:20000] + '...'
    return out


# ---------------------------------------------------------------------------------------------
class Check(object):
    def __init__(self, prop, level='exploration'):
        self.prop = prop
        self.level = level
        self.tier = os.environ.get('VERIF_TIER') or (sys.argv[1] if len(sys.argv) > 1 and sys.argv[1] in ('quick', 'thorough') else 'quick')
        try:
            self.seed = int(os.environ.get('VERIF_SEED', '1'))
        except ValueError:
            self.seed = 1
        self.t0 = time.time()
        self.findings = Findings()
        self.evaluations = 0
        self.sigs = set()
        self.samples = []
        self.stats = {}
        self.violations = {}      # key -> (what, replay path)
        self.known = {}           # key -> entry
        self.inconclusive = {}
        self.rule = ''
        self.assumptions = []
        self.extra = {}
        self.harness_errors = 0
        self.build_s = 0.0
        os.makedirs(os.path.join(VERIF, 'evidence'), exist_ok=True)
        os.makedirs(os.path.join(VERIF, 'replays', prop), exist_ok=True)

    # -- build ------------------------------------------------------------------------------
    def ensure(self, flavour, *drivers):
        self.build_s += ensure(flavour, *drivers)

    # -- recording ---------------------------------------------------------------------------
    def record_violation(self, key, what, payload=None):
        e = self.findings.match(self.prop, key)
        if e is not None:
            if key not in self.known:
                self.known[key] = e
            return False
        if key in self.violations:
            return True
        h = hashlib.sha256(key.encode()).hexdigest()[:12]
        path = os.path.join(VERIF, 'replays', self.prop, h + '.json')
        try:
            json.dump({'property': self.prop, 'tier': self.tier, 'seed': self.seed, 'key': key, 'what': what,
                       'payload': payload}, open(path, 'w'), indent=1, default=repr)
        except Exception as ex:
            print('HARNESS: cannot write replay: %s' % ex)
        self.violations[key] = (what, path)
        return True

    def absorb(self, r):
        idx, sig, viols, inconcl, sample, stats, evals = r
        self.evaluations += evals
        if isinstance(sig, (set, frozenset)):
            self.sigs.update(sig)
        elif sig is not None:
            self.sigs.add(sig)
        for (key, what, payload) in viols:
            if payload is None:
                payload = {}
            if isinstance(payload, dict) and 'case' not in payload:
                payload['case'] = idx
            self.record_violation(key, what, payload)
        for reason in inconcl:
            k = reason.split(':')[0][:60]
            self.inconclusive[k] = self.inconclusive.get(k, 0) + 1
            if reason.startswith('harness-exception'):
                self.harness_errors += 1
                if self.harness_errors <= 3:
                    print('HARNESS-EXCEPTION in case %s:\n%s' % (idx, reason))
        if sample is not None and len(self.samples) < 6:
            self.samples.append(sample)
        for k, v in stats.items():
            self.stats[k] = self.stats.get(k, 0) + v

    def run_cases(self, module_name, case_fn_name, indices, workers=None, chunksize=None):
        """Runs case_fn(ctx, idx, res) for every idx in worker processes."""
        indices = list(indices)
        if not indices:
            return
        workers = min(workers or NPROC, len(indices))
        only = os.environ.get('VERIF_ONLY_CASE')
        if only:
            indices = [int(x) for x in only.split(',')]
            workers = 1
        counter = multiprocessing.Value('i', 0)
        if workers == 1:
            _worker_init(self.prop, self.tier, self.seed, case_fn_name, module_name, counter)
            for i in indices:
                self.absorb(_worker_run(i))
            _G['ctx'].close()
            return
        pool = multiprocessing.Pool(workers, _worker_init,
                                    (self.prop, self.tier, self.seed, case_fn_name, module_name, counter))
        try:
            cs = chunksize or max(1, min(64, len(indices) // (workers * 8) or 1))
            for r in pool.imap_unordered(_worker_run, indices, cs):
                self.absorb(r)
            pool.map(_worker_close, range(workers * 2), 1)
        finally:
            pool.close()
            pool.join()

    # -- finish ------------------------------------------------------------------------------
    def finish(self, min_nontrivial=2, required_stats=()):
        wall = time.time() - self.t0
        missing = [s for s in required_stats if not self.stats.get(s)]
        cov = {
            'evaluations': int(self.evaluations),
            'distinct_nontrivial': len(self.sigs),
            'rule': self.rule,
            'samples': self.samples[:6] or ['(no sample recorded)'],
            'observed': dict(sorted(self.stats.items())),
            'inconclusive': self.inconclusive,
            'known_findings_seen': sorted(self.known.keys()),
            'violation_keys': sorted(self.violations.keys()),
            'required_observations_missing': missing,
            'build_s': round(self.build_s, 1),
        }
        cov.update(self.extra)
        ev = {
            'property_id': self.prop, 'tier': self.tier, 'seed': self.seed, 'level': self.level,
            'coverage': cov,
            'assumptions': self.assumptions + ['avoid-tags in force: %s' % sorted(self.findings.avoid_tags(self.prop))],
            'wall_s': round(wall, 2),
            'violations': len(self.violations),
        }
        path = os.path.join(VERIF, 'evidence', self.prop + '.json')
        try:
            tmp = path + '.tmp'
            json.dump(ev, open(tmp, 'w'), indent=1, default=repr)
            os.replace(tmp, path)
        except Exception as ex:
            print('HARNESS-FAILURE: cannot write evidence: %s' % ex)
            sys.exit(2)
        printed = {}
        for key, e in sorted(self.known.items()):
            printed.setdefault(id(e), [e, []])[1].append(key)
        for e, keys in printed.values():
            more = ' [%d violation keys match this entry, e.g. %s]' % (len(keys), keys[0]) if len(keys) > 1 else ''
            print('KNOWN-FINDING: property=%s %s%s' % (self.prop, e.get('what', keys[0]), more))
        for key, (what, rp) in sorted(self.violations.items()):
            print('VIOLATION property=%s replay=%s' % (self.prop, rp))
            print('  what: %s' % what[:600])
        print('%s %s seed=%d: evaluations=%d distinct_nontrivial=%d violations=%d known=%d inconclusive=%s wall=%.1fs'
              % (self.prop, self.tier, self.seed, self.evaluations, len(self.sigs), len(self.violations),
                 len(self.known), sum(self.inconclusive.values()), wall))
        if self.violations:
            sys.exit(1)
        if self.harness_errors:
            print('HARNESS-FAILURE: %d harness exceptions' % self.harness_errors)
            sys.exit(2)
        if len(self.sigs) < min_nontrivial or missing:
            print('INCONCLUSIVE: too little observed (nontrivial=%d, missing=%s)' % (len(self.sigs), missing))
            sys.exit(2)
        sys.exit(0)
