"""./vcheck replay <path>: re-executes the case recorded in a replay file (same seed, tier and
case index through the owning check) and prints the recorded witness."""
import json, os, subprocess, sys
d = json.load(open(sys.argv[1]))
print('property=%s key=%s\nwhat: %s' % (d['property'], d['key'], d['what']))
pl = d.get('payload') or {}
for k, v in pl.items():
    if k != 'stderr_head':
        print('  %s: %s' % (k, str(v)[:2000]))
if 'stderr_head' in pl:
    print('--- recorded report head ---\n' + pl['stderr_head'])
env = dict(os.environ)
env['VERIF_SEED'] = str(d.get('seed', 1))
env['VERIF_TIER'] = d.get('tier', 'quick')
if 'case' in pl:
    env['VERIF_ONLY_CASE'] = str(pl['case'])
here = os.path.dirname(os.path.abspath(__file__))
sys.exit(subprocess.call([os.path.join(here, '..', 'vcheck'), d['property'], env['VERIF_TIER']], env=env))
