"""Typed, seeded generator of XPath 1.0 expressions (most are dynamically valid) and of invalid
strings derived from valid ones."""
import re
import gen_xml

AXES_FWD = ['child', 'descendant', 'descendant-or-self', 'following', 'following-sibling', 'attribute', 'self']
AXES_REV = ['parent', 'ancestor', 'ancestor-or-self', 'preceding', 'preceding-sibling']
NUM_LITS = ['0', '1', '2', '3', '10', '0.5', '1.5', '2.5', '-1', '100', '.5', '5.', '007', '1000000', '9007199254740993',
            '0.1', '0.000001', '12345678901234567890', '4', '7',
            # integers around the limits of the integer types a conversion shortcut may go through
            '9223372036854775807', '9223372036854775808', '9999999999999999999', '18446744073709551615', '4294967296', '2147483648']
STR_LITS = ["''", "'a'", "'b'", "'ab'", "'abc'", "' 12 '", "'1'", "'2'", "'10'", "'x y'", "'NaN'", "'-1'", '"q\'s"', "'0'", "'true'",
            "'3.5'", "'alpha'", "'i1'", "'i2 i3'", "'1e3'", "'A'", "'  a  b '", "'-0'", "'é'",
            "'9999999999999999999'", "'9223372036854775808'", "' 999999999999999999'", "'-9223372036854775809'", "'18446744073709551616'"]


class Gen(object):
    def __init__(self, r, info=None, variables=None, avoid=(), ext=False, xslt=False, keys=(), max_depth=4):
        self.r = r
        self.info = info
        self.vars = variables or {}       # name -> type ('num','str','bool','ns')
        self.avoid = set(avoid)
        self.ext = ext
        self.xslt = xslt
        self.keys = list(keys)
        self.max_depth = max_depth
        self.features = set()
        names = sorted(info.elem_names) if info else ['a', 'b', 'c']
        self.names = [n for n in names if not n.startswith('dflt:')] or ['a']
        self.dflt_names = [n for n in names if n.startswith('dflt:')]
        self.attrs = sorted(info.attr_names) if info and info.attr_names else ['x', 'id']
        self.pis = sorted(info.pis) if info and info.pis else ['pi']

    def f(self, name):
        self.features.add(name)

    # -- helpers ---------------------------------------------------------------------------
    def sp(self):
        return self.r.choice(['', '', '', ' ', '  ', '\n'])

    def var(self, typ):
        # a result tree fragment ('rtf') is usable wherever a string is
        c = [n for n, t in self.vars.items() if t == typ or (typ == 'str' and t == 'rtf')]
        return '$' + self.r.choice(c) if c else None

    def e_rtf(self, depth):
        return self.var('rtf') or self.e_str(depth)

    def nametest(self, attr=False):
        r = self.r
        k = r.random()
        if attr:
            if k < 0.7:
                return r.choice(self.attrs)
            if k < 0.87:
                return '*'
            if k < 0.94:
                # node type tests on the attribute axis: node() is every attribute (no namespace declaration), the others select nothing
                self.f('attribute-axis-node-type-test')
                return r.choice(['node()', 'node()', 'node()', 'text()', 'comment()', 'processing-instruction()'])
            return r.choice(['p:*', 'q:*'])
        if k < 0.55:
            return r.choice(self.names + ['a', 'b', 'c', 'doc'])
        if k < 0.7:
            return '*'
        if k < 0.76:
            return r.choice(['p:*', 'q:*'])
        if k < 0.8 and self.dflt_names:
            return r.choice(self.dflt_names)
        if k < 0.88:
            return 'node()'
        if k < 0.94:
            return 'text()'
        if k < 0.97:
            return 'comment()'
        return r.choice(['processing-instruction()', "processing-instruction('%s')" % r.choice(self.pis)])

    def predicate(self, depth):
        r = self.r
        k = r.random()
        self.f('pred')
        if k < 0.25:
            return r.choice(['1', '2', '3', 'last()', 'last()-1', 'last() - 1', '0', '1.5', 'position()']) if r.random() < 0.8 else self.expr('num', depth + 1)
        if k < 0.45:
            return 'position()%s%s%s%s' % (self.sp(), r.choice(['=', '!=', '<', '<=', '>', '>=']), self.sp(), r.choice(['1', '2', 'last()', 'last() - 1', '3']))
        if k < 0.55:
            return 'position() mod 2 = %s' % r.choice(['0', '1'])
        if k < 0.7:
            return '@%s' % self.nametest(True) if r.random() < 0.6 else '@%s%s%s' % (r.choice(self.attrs), r.choice([' = ', '!=', ' < ', '>=']), r.choice(NUM_LITS[:8] + STR_LITS[:8]))
        if k < 0.8:
            return self.relpath(depth + 1, short=True)
        if k < 0.9:
            return '. %s %s' % (r.choice(['=', '!=', '<', '>']), r.choice(NUM_LITS[:8] + STR_LITS[:10]))
        return self.expr(r.choice(['bool', 'num', 'ns', 'str']), depth + 1)

    def step(self, depth, pattern=False):
        r = self.r
        k = r.random()
        if k < 0.05 and not pattern:
            return '.'
        if k < 0.1 and not pattern:
            return '..'
        if k < 0.55:
            axis = ''
            nt = self.nametest()
        elif k < 0.7:
            axis = '@'
            nt = self.nametest(True)
            self.f('axis:attribute')
        else:
            ax = r.choice(AXES_FWD + AXES_REV + AXES_REV) if 'no-reverse' not in self.avoid else r.choice(AXES_FWD)
            if ax == 'attribute':
                nt = self.nametest(True)
            else:
                nt = self.nametest()
            axis = ax + self.sp() + '::' + self.sp()
            self.f('axis:' + ax)
        preds = ''
        for _ in range(r.choice([0, 0, 0, 1, 1, 2])):
            preds += '[' + self.sp() + self.predicate(depth) + self.sp() + ']'
        return axis + nt + preds

    def relpath(self, depth, short=False):
        r = self.r
        n = r.choice([1, 1, 2]) if short else r.choice([1, 1, 2, 2, 3])
        parts = [self.step(depth)]
        for _ in range(n - 1):
            parts.append(r.choice(['/', '/', '/', '//']))
            parts.append(self.step(depth))
        return ''.join(parts)

    # -- typed productions -------------------------------------------------------------------
    def expr(self, typ, depth=0):
        if typ == 'any':
            typ = self.r.choice(['ns', 'num', 'str', 'bool'])
        return getattr(self, 'e_' + typ)(depth)

    def e_ns(self, depth):
        r = self.r
        k = r.random()
        deep = depth >= self.max_depth
        if k < 0.45 or deep:
            lead = r.choice(['', '', '', '/', '//', '/doc/', '/*/'])
            self.f('path')
            return lead + self.relpath(depth)
        if k < 0.55:
            self.f('union')
            return self.e_ns(depth + 1) + self.sp() + '|' + self.sp() + self.e_ns(depth + 1)
        if k < 0.68:
            self.f('filter')
            base = '(' + self.e_ns(depth + 1) + ')'
            s = base + '[' + self.predicate(depth) + ']'
            if r.random() < 0.4:
                s += r.choice(['/', '//']) + self.step(depth)
            return s
        if k < 0.76:
            v = self.var('ns')
            if v:
                self.f('var-ns')
                s = v
                if r.random() < 0.3:
                    s += '[' + self.predicate(depth) + ']'
                if r.random() < 0.3:
                    s += '/' + self.step(depth)
                return s
        if k < 0.84:
            self.f('id')
            arg = r.choice(["'i1'", "'i2 i1'", "'i3  i9'", "'nope'", '@id', '//@id', "concat('i', 1)", '.'])
            s = 'id(' + arg + ')'
            if r.random() < 0.3:
                s += '/' + self.step(depth)
            return s
        if k < 0.9 and self.xslt:
            self.f('current')
            return r.choice(['current()', 'current()/' + self.step(depth), 'current()/..'])
        if k < 0.95 and self.xslt and self.keys:
            self.f('key')
            kn = r.choice(self.keys)
            return "key('%s', %s)" % (kn, r.choice(STR_LITS[:12] + ['@x', '.', '//@n']))
        if self.ext and k < 0.99:
            self.f('ext-set')
            fn = r.choice(['set:difference', 'set:intersection', 'set:distinct', 'set:leading', 'set:trailing', 'math:highest', 'math:lowest',
                           'xalan:difference', 'xalan:intersection', 'xalan:distinct'])
            if fn.endswith('distinct') or fn.startswith('math:'):
                return '%s(%s)' % (fn, self.e_ns(depth + 1))
            return '%s(%s, %s)' % (fn, self.e_ns(depth + 1), self.e_ns(depth + 1))
        return self.relpath(depth)

    def e_num(self, depth):
        r = self.r
        k = r.random()
        deep = depth >= self.max_depth
        if k < 0.22 or deep:
            return r.choice(NUM_LITS)
        if k < 0.42:
            op = r.choice(['+', '-', '*', 'div', 'mod', '+', '-'])
            self.f('arith:' + op)
            a, b = self.e_num(depth + 1), self.e_num(depth + 1)
            if r.random() < 0.06:
                # '.' and '..' are complete tokens: an operator (or an operator name) may follow them directly
                self.f('operator-after-dot-without-space')
                return '%s%s%s%s' % (r.choice(['.', '..', './..', '*/.']), op, ' ' if op in ('div', 'mod') or r.random() < 0.5 else '', b)
            if op in ('div', 'mod') and (a[-1] in ')]' or re.match(r'^[0-9]*\.?[0-9]+$|^[0-9]+\.$', a)) and r.random() < 0.2:
                # no white space is needed between a number (or a bracket) and an operator name
                self.f('operator-name-without-space')
                return '%s%s %s' % (a, op, b)
            return '%s %s %s' % (a, op, b) if r.random() < 0.7 else '(%s) %s (%s)' % (a, op, b)
        if k < 0.47:
            self.f('neg')
            return '-' + self.sp() + self.e_num(depth + 1)
        if k < 0.58:
            self.f('count')
            return 'count(' + self.e_ns(depth + 1) + ')'
        if k < 0.64:
            self.f('sum')
            return 'sum(' + self.e_ns(depth + 1) + ')'
        if k < 0.7:
            self.f('string-length')
            return 'string-length(' + (self.e_str(depth + 1) if r.random() < 0.8 else '') + ')'
        if k < 0.76:
            return r.choice(['position()', 'last()'])
        if k < 0.85:
            self.f('number()')
            return 'number(' + (self.expr('any', depth + 1) if r.random() < 0.9 else '') + ')'
        if k < 0.93:
            fn = r.choice(['floor', 'ceiling', 'round'])
            self.f(fn)
            return fn + '(' + self.e_num(depth + 1) + ')'
        v = self.var('num')
        if v:
            self.f('var-num')
            return v
        if self.ext:
            self.f('ext-math')
            return r.choice(['math:max', 'math:min', 'math:abs']) .replace('math:abs', 'math:abs') + '(' + (self.e_ns(depth + 1)) + ')' if r.random() < 0.7 else 'math:abs(' + self.e_num(depth + 1) + ')'
        return r.choice(NUM_LITS)

    def e_str(self, depth):
        r = self.r
        k = r.random()
        deep = depth >= self.max_depth
        if k < 0.25 or deep:
            return r.choice(STR_LITS)
        if k < 0.35:
            self.f('concat')
            return 'concat(' + ', '.join(self.expr(r.choice(['str', 'str', 'num', 'ns', 'bool']), depth + 1) for _ in range(r.choice([2, 2, 3]))) + ')'
        if k < 0.47:
            self.f('substring')
            args = [self.e_str(depth + 1), self.e_num(depth + 1) if r.random() < 0.5 else r.choice(['1', '2', '0', '-1', '1.5', '0 div 0', '1 div 0', '-1 div 0'])]
            if r.random() < 0.6:
                args.append(self.e_num(depth + 1) if r.random() < 0.4 else r.choice(['1', '2', '3', '2.6', '1 div 0', '0 div 0', '-1']))
            return 'substring(' + ', '.join(args) + ')'
        if k < 0.55:
            fn = r.choice(['substring-before', 'substring-after'])
            self.f(fn)
            return '%s(%s, %s)' % (fn, self.e_str(depth + 1), r.choice(STR_LITS[:8]))
        if k < 0.6:
            self.f('translate')
            return 'translate(%s, %s, %s)' % (self.e_str(depth + 1), r.choice(["'abc'", "'ab'", "'a'", "'ba1'", "''", "'aa'"]), r.choice(["'xyz'", "'x'", "''", "'XY'", "'ab'"]))
        if k < 0.66:
            self.f('normalize-space')
            return 'normalize-space(' + (self.e_str(depth + 1) if r.random() < 0.8 else '') + ')'
        if k < 0.8:
            self.f('string()')
            return 'string(' + (self.expr('any', depth + 1) if r.random() < 0.9 else '') + ')'
        if k < 0.9:
            fn = r.choice(['name', 'local-name', 'namespace-uri'])
            self.f(fn)
            return fn + '(' + (self.e_ns(depth + 1) if r.random() < 0.8 else '') + ')'
        v = self.var('str')
        if v:
            self.f('var-str')
            return v
        if self.xslt and r.random() < 0.5:
            self.f('format-number')
            return "format-number(%s, %s)" % (self.e_num(depth + 1), r.choice(["'0'", "'0.00'", "'#,##0.0'", "'0.0#'", "'000'", "'#0.#'"]))
        if self.ext:
            self.f('ext-str')
            return r.choice(["str:padding(%s, 'ab')" % r.choice(['0', '3', '5', '-1']), "str:concat(%s)" % self.e_ns(depth + 1),
                             "str:align(%s, '-----', %s)" % (self.e_str(depth + 1), r.choice(["'left'", "'right'", "'center'"])),
                             "exsl:object-type(%s)" % self.expr('any', depth + 1)])
        return r.choice(STR_LITS)

    def reuse(self, depth):
        """the same variable / path consumed through two different conversions in one expression"""
        r = self.r
        v = self.var(r.choice(['ns', 'ns', 'str', 'num'])) or self.relpath(depth, short=True)
        self.f('reuse')
        as_str = r.choice(["contains(%s, 'a')", "starts-with(%s, '1')", "string-length(%s) > 1", "translate(%s, 'a', 'b') = 'b'", "substring-before(%s, '.') = '1'", "concat(%s, 'x') != 'x'"]) % v
        as_num = r.choice(["%s * 2 > 3", "number(%s) = 1", "%s + 1 < 5", "floor(%s) = 2", "%s mod 2 = 1", "sum(%s) > 1" if v.startswith('$ns') or not v.startswith('$') else "%s - 1 = 0"]) % v
        as_bool = r.choice(["boolean(%s)", "not(%s)", "%s = true()"]) % v
        parts = [as_str, as_num, as_bool]
        r.shuffle(parts)
        return (' %s ' % r.choice(['and', 'or'])).join(parts[:r.choice([2, 3])])

    def e_bool(self, depth):
        r = self.r
        k = r.random()
        deep = depth >= self.max_depth
        if k > 0.96 and not deep:
            return self.reuse(depth)
        if k < 0.08 or deep:
            return r.choice(['true()', 'false()'])
        if k < 0.55:
            op = r.choice(['=', '!=', '<', '<=', '>', '>='])
            ta = r.choice(['ns', 'ns', 'num', 'str', 'bool'])
            tb = r.choice(['ns', 'num', 'num', 'str', 'bool'])
            if 'rtf' in self.vars.values() and r.random() < 0.25:
                # a result tree fragment compares like a node-set with one node: against each of the other types, on either side
                if r.random() < 0.5:
                    ta = 'rtf'
                else:
                    tb = 'rtf'
            self.f('cmp:%s:%s:%s' % (op if op in ('=', '!=') else 'rel', ta, tb))
            a, b = self.expr(ta, depth + 1), self.expr(tb, depth + 1)
            if 'identity-compare' in self.avoid and a == b:
                b = '(' + b + ')'
            return '%s%s%s%s%s' % (a, self.sp() or ' ', op, self.sp() or ' ', b)
        if k < 0.68:
            op = r.choice(['and', 'or'])
            self.f(op)
            if r.random() < 0.06:
                self.f('operator-after-dot-without-space')
                return '%s%s %s' % (r.choice(['.', '..', './..', '*/.']), op, self.e_bool(depth + 1))
            return '%s %s %s' % (self.e_bool(depth + 1), op, self.e_bool(depth + 1))
        if k < 0.75:
            self.f('not')
            if 'rtf' in self.vars.values() and r.random() < 0.3:
                return 'not(' + self.var('rtf') + ')'
            return 'not(' + self.expr('any', depth + 1) + ')'
        if k < 0.83:
            self.f('boolean()')
            if 'rtf' in self.vars.values() and r.random() < 0.3:
                return 'boolean(' + self.var('rtf') + ')'
            return 'boolean(' + self.expr('any', depth + 1) + ')'
        if k < 0.92:
            fn = r.choice(['contains', 'starts-with'])
            self.f(fn)
            return '%s(%s, %s)' % (fn, self.e_str(depth + 1), r.choice(STR_LITS[:10]))
        if k < 0.95:
            self.f('lang')
            return "lang(%s)" % r.choice(["'en'", "'EN'", "'en-US'", "'fr'"])
        v = self.var('bool')
        if v:
            self.f('var-bool')
            return v
        if self.ext:
            self.f('ext-bool')
            return 'set:has-same-node(%s, %s)' % (self.e_ns(depth + 1), self.e_ns(depth + 1))
        return 'true()'


def gen_pattern(g, alts=None, allow_id=True):
    """XSLT match pattern over the Pattern grammar using the vocabulary of Gen g"""
    r = g.r

    def pstep(first):
        k = r.random()
        if k < 0.6:
            axis = ''
            nt = g.nametest()
        elif k < 0.75:
            axis = r.choice(['@', 'attribute::'])
            nt = g.nametest(True)
        else:
            axis = 'child::'
            nt = g.nametest()
        preds = ''
        for _ in range(r.choice([0, 0, 0, 1, 1, 2])):
            preds += '[' + ppred() + ']'
        return axis + nt + preds

    def ppred():
        k = r.random()
        g.f('pattern-pred')
        if k < 0.3:
            return r.choice(['1', '2', '3', 'last()', 'last()-1', 'position()=1', 'position()>1', 'position()=last()', 'position() mod 2 = 1', 'position() < last()', '0',
                             'last() = 2', 'last() > 1', 'not(last() = 1)', 'last() mod 2 = 0', 'last() = count(../*)', 'last() >= 3 or @x', 'string(last()) = \'2\'', 'position() + 1 = last()'])
        if k < 0.5:
            return '@' + g.nametest(True)
        if k < 0.6:
            return '@%s=%s' % (r.choice(g.attrs), r.choice(STR_LITS[:10] + NUM_LITS[:6]))
        if k < 0.75:
            return g.relpath(2, short=True)
        if k < 0.85:
            return '.=%s' % r.choice(STR_LITS[:10])
        if k < 0.93:
            return 'count(%s) %s %s' % (r.choice(['*', 'node()', '@*', '../*', 'preceding-sibling::*', 'following-sibling::*']), r.choice(['=', '>', '<']), r.choice(['0', '1', '2']))
        return g.e_bool(3)

    def alt():
        k = r.random()
        if k < 0.06:
            return '/'
        lead = ''
        if allow_id and k < 0.14:
            lead = "id(%s)" % r.choice(["'i1'", "'i2 i3'", "'i1 i4 nope'"])
            if r.random() < 0.3:
                return lead
            lead += r.choice(['/', '//'])
        elif k < 0.3:
            lead = '/'
        elif k < 0.42:
            lead = '//'
        n = r.choice([1, 1, 1, 2, 2, 3, 4])
        parts = [pstep(True)]
        for _ in range(n - 1):
            parts.append(r.choice(['/', '/', '//']))
            parts.append(pstep(False))
        return lead + ''.join(parts)
    n = alts or r.choice([1, 1, 1, 2, 3])
    return ' | '.join(alt() for _ in range(n))


def mutate_invalid(r, s):
    """derives a string that is (very probably) not an XPath expression; the caller checks it
    with the reference recogniser"""
    k = r.randrange(8)
    if k == 0 and len(s) > 1:
        i = r.randrange(len(s))
        return s[:i] + s[i + 1:]
    if k == 1:
        i = r.randrange(len(s) + 1)
        return s[:i] + r.choice([')', '(', ']', '[', '|', '/', '//', '::', '@', '$', ',', '!', '=', '<', '"', "'", '..', '*', '#', '{', ';', '^', '%', '&', '?']) + s[i:]
    if k == 2:
        return s + r.choice([' |', ' /', ' and', ' or', ' +', ' div', '[', '(', ' =', ' <', ',', '::', ' $', ' @', ' mod'])
    if k == 3:
        return r.choice(['| ', 'and ', 'or ', '= ', ') ', '] ', ', ', 'div ', '* * ']) + s
    if k == 4:
        for a, b in (('!=', '! ='), ('<=', '< ='), ('>=', '> ='), ('//', '/ /'), ('::', ': :'), ('..', '. .')):
            if a in s:
                return s.replace(a, b, 1)
        return s + ' ! = 1'
    if k == 5:
        return s.replace('(', '', 1) if '(' in s else s + ')'
    if k == 6:
        return s.replace(']', '', 1) if ']' in s else s + ']'
    return s + ' ' + s
