"""Exact reference for XPath number <-> string conversions (C18).  Standard library only."""
import math, re, struct
from fractions import Fraction

XP_WS = ' \t\r\n'
NUM_RE = re.compile(r'^[ \t\r\n]*(-?)([0-9]+(?:\.[0-9]*)?|\.[0-9]+)[ \t\r\n]*$')
LEX_RE = re.compile(r'^-?(0|[1-9][0-9]*)(\.[0-9]*[1-9])?$')


def bits(d):
    return struct.unpack('<Q', struct.pack('<d', d))[0]


def from_bits(b):
    return struct.unpack('<d', struct.pack('<Q', b & 0xFFFFFFFFFFFFFFFF))[0]


def hexbits(d):
    return '%016x' % bits(d)


def same(a, b):
    """bitwise same, all NaNs equal"""
    if a != a and b != b:
        return True
    return bits(a) == bits(b)


def next_up(d):
    return math.nextafter(d, math.inf)


def next_down(d):
    return math.nextafter(d, -math.inf)


def check_string_of(x, s):
    """Returns None when s is an acceptable string(x) per the statement, else a reason."""
    if x != x:
        return None if s == 'NaN' else 'NaN must print as NaN'
    if x == math.inf:
        return None if s == 'Infinity' else '+inf must print as Infinity'
    if x == -math.inf:
        return None if s == '-Infinity' else '-inf must print as -Infinity'
    if x == 0:
        return None if s == '0' else 'zero must print as 0'
    if not LEX_RE.match(s):
        return 'lexical form'
    if (s[0] == '-') != (x < 0):
        return 'sign'
    try:
        back = float(s)
    except ValueError:
        return 'unparsable'
    if back != x:
        return 'round-trip: number(string(x)) = %r' % back
    return None


def number_of(s):
    """XPath number(s) for a python str: nearest double or NaN."""
    m = NUM_RE.match(s)
    if not m:
        return math.nan
    t = s.strip(XP_WS)
    if t.startswith('-.') or t.startswith('.'):
        t = t.replace('.', '0.', 1)
    try:
        v = float(t)
    except (ValueError, OverflowError):
        return math.nan
    # the nearest double to the mathematical value 0 (also of "-0") is positive zero
    return v if v != 0 else 0.0


def xp_round(x):
    if x != x or x in (math.inf, -math.inf):
        return x
    if x == 0:
        return x
    f = math.floor(x)
    diff = Fraction(x) - Fraction(f)
    r = float(f + 1) if diff >= Fraction(1, 2) else float(f)
    if r == 0 and x < 0:
        return -0.0
    return r


def xp_floor(x):
    if x != x or x in (math.inf, -math.inf) or x == 0:
        return x
    return float(math.floor(x)) if abs(x) < 2.0 ** 53 else x


def xp_ceil(x):
    if x != x or x in (math.inf, -math.inf) or x == 0:
        return x
    if abs(x) >= 2.0 ** 53:
        return x
    r = float(math.ceil(x))
    if r == 0 and x < 0:
        return -0.0
    return r


def positional(x, digits=17):
    """decimal numeral without exponent for a finite double using 'digits' significant digits"""
    if x == 0:
        return '0'
    s = '%.*e' % (digits - 1, abs(x))
    mant, exp = s.split('e')
    exp = int(exp)
    ds = mant.replace('.', '')
    if exp >= 0:
        if len(ds) <= exp + 1:
            out = ds + '0' * (exp + 1 - len(ds))
        else:
            out = ds[:exp + 1] + '.' + ds[exp + 1:]
    else:
        out = '0.' + '0' * (-exp - 1) + ds
    if '.' in out:
        out = out.rstrip('0').rstrip('.')
    return ('-' if x < 0 else '') + out


def exact_decimal(fr):
    """finite decimal expansion of a dyadic Fraction"""
    sign = '-' if fr < 0 else ''
    fr = abs(fr)
    ip = fr.numerator // fr.denominator
    rem = fr - ip
    out = str(ip)
    if rem:
        # denominator is a power of two: k digits suffice
        k = rem.denominator.bit_length() - 1
        num = rem.numerator * (10 ** k) // rem.denominator
        out += '.' + str(num).rjust(k, '0').rstrip('0')
    return sign + out
