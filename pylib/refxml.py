"""XPath data model tree built from expat events (independent parser for every round-trip /
well-formedness oracle), plus readers for the driver's canonical event dump, tree comparison
and a small serializer.  Standard library only."""
import re
import xml.parsers.expat as expat

XML_NS = 'http://www.w3.org/XML/1998/namespace'
XMLNS_NS = 'http://www.w3.org/2000/xmlns/'

ROOT, ELEM, ATTR, NS, TEXT, COMMENT, PI = 'root', 'element', 'attribute', 'namespace', 'text', 'comment', 'pi'


class Node(object):
    __slots__ = ('kind', 'parent', 'children', 'attrs', 'nss', 'name', 'uri', 'local', 'prefix', 'value',
                 'order', 'doc', 'is_id', 'nsdecls', 'end_order')

    def __init__(self, kind, parent=None):
        self.kind = kind
        self.parent = parent
        self.children = []
        self.attrs = []       # Attr nodes (no xmlns declarations)
        self.nss = []         # namespace nodes (in scope), built lazily by finish()
        self.nsdecls = []     # [(prefix, uri)] declared on this element ('' = default)
        self.name = None      # qname for elements/attrs, target for PI, prefix for namespace nodes
        self.uri = ''
        self.local = None
        self.prefix = ''
        self.value = None
        self.order = -1
        self.end_order = -1
        self.doc = None
        self.is_id = False

    # -- XPath views -------------------------------------------------------------------------
    def string_value(self):
        if self.kind in (ROOT, ELEM):
            out = []
            stack = [self]
            # iterative pre-order over text descendants
            def walk(n):
                for c in n.children:
                    if c.kind == TEXT:
                        out.append(c.value)
                    elif c.kind == ELEM:
                        walk(c)
            walk(self)
            return ''.join(out)
        return self.value if self.value is not None else ''

    def expanded(self):
        return (self.uri, self.local)

    def path(self):
        """stable textual identity: child indexes from the root ('/1/3/@2', '/1/ns:p')"""
        if self.kind == ROOT:
            return '/'
        if self.kind == ATTR:
            return self.parent.path() + '/@' + self.name
        if self.kind == NS:
            return self.parent.path() + '/ns:' + (self.name or '')
        p = self.parent.path()
        return (p if p != '/' else '') + '/' + str(self.parent.children.index(self))

    def __repr__(self):
        return '<%s %s %r>' % (self.kind, self.name, (self.value or '')[:20])


class Document(Node):
    __slots__ = ('ids', 'count', 'uri_', 'unparsed', 'xmlversion', 'encoding', 'standalone', 'doctype', 'seq')
    _seq = [0]

    def __init__(self):
        Node.__init__(self, ROOT)
        self.doc = self
        self.ids = {}
        self.count = 0
        self.uri_ = None
        self.unparsed = {}
        self.xmlversion = None
        self.encoding = None
        self.standalone = None
        self.doctype = None
        Document._seq[0] += 1
        self.seq = Document._seq[0]


class ParseError(Exception):
    pass


def split_qname(q):
    i = q.find(':')
    if i < 0:
        return '', q
    return q[:i], q[i + 1:]


class _Builder(object):
    """Builds the tree from (qname-level) events; resolves namespaces itself."""

    def __init__(self, id_attrs=None):
        self.doc = Document()
        self.cur = self.doc
        self.scope = [{'xml': XML_NS, '': ''}]
        self.id_attrs = id_attrs or {}   # element qname -> set of attribute qnames of type ID

    def text(self, s):
        if not s:
            return
        ch = self.cur.children
        if ch and ch[-1].kind == TEXT:
            ch[-1].value += s
        else:
            n = Node(TEXT, self.cur)
            n.value = s
            ch.append(n)

    def comment(self, s):
        n = Node(COMMENT, self.cur)
        n.value = s
        self.cur.children.append(n)

    def pi(self, target, data):
        n = Node(PI, self.cur)
        n.name = target
        n.local = target
        n.value = data
        self.cur.children.append(n)

    def start(self, qname, attrs):
        """attrs: list of (qname, value) incl. xmlns declarations, in document order"""
        e = Node(ELEM, self.cur)
        e.name = qname
        sc = dict(self.scope[-1])
        seen_decl = set()
        for (k, v) in attrs:
            if k == 'xmlns':
                if '' in seen_decl:
                    raise ParseError('duplicate default namespace declaration')
                seen_decl.add('')
                sc[''] = v
                e.nsdecls.append(('', v))
            elif k.startswith('xmlns:'):
                p = k[6:]
                if p in seen_decl:
                    raise ParseError('duplicate namespace declaration ' + p)
                seen_decl.add(p)
                if v == '':
                    raise ParseError('prefix undeclared with empty URI (XML Namespaces 1.0): ' + p)
                if p == 'xmlns' or (p == 'xml') != (v == XML_NS):
                    raise ParseError('illegal binding of prefix ' + p)
                sc[p] = v
                e.nsdecls.append((p, v))
        self.scope.append(sc)
        p, l = split_qname(qname)
        if p not in sc:
            raise ParseError('unbound prefix in element name ' + qname)
        if ':' in l or not l or (p == '' and qname.startswith(':')):
            raise ParseError('bad qname ' + qname)
        e.prefix, e.local, e.uri = p, l, sc[p]
        seen = set()
        ids = self.id_attrs.get(qname, ())
        for (k, v) in attrs:
            if k == 'xmlns' or k.startswith('xmlns:'):
                continue
            a = Node(ATTR, e)
            a.name = k
            ap, al = split_qname(k)
            if ap:
                if ap not in sc:
                    raise ParseError('unbound prefix in attribute name ' + k)
                a.uri = sc[ap]
            a.prefix, a.local = ap, al
            if (a.uri, a.local) in seen:
                raise ParseError('duplicate attribute {%s}%s' % (a.uri, a.local))
            seen.add((a.uri, a.local))
            a.value = v
            if k in ids:
                a.is_id = True
            e.attrs.append(a)
        self.cur.children.append(e)
        self.cur = e

    def end(self, qname=None):
        if self.cur.kind != ELEM:
            raise ParseError('unbalanced end')
        if qname is not None and qname != self.cur.name:
            raise ParseError('end tag mismatch %s vs %s' % (qname, self.cur.name))
        self.cur = self.cur.parent
        self.scope.pop()

    def finish(self):
        if self.cur is not self.doc:
            raise ParseError('unclosed element')
        number(self.doc)
        return self.doc


def number(doc):
    """assigns document order (root, element, namespace nodes, attributes, children) and builds
    namespace nodes and the ID table"""
    counter = [0]
    doc.ids = {}

    def visit(n, scope):
        n.doc = doc
        n.order = counter[0]
        counter[0] += 1
        if n.kind == ELEM:
            sc = scope
            if n.nsdecls:
                sc = dict(scope)
                for p, u in n.nsdecls:
                    sc[p] = u
            n.nss = []
            for p in sorted(sc):
                u = sc[p]
                if p == '' and u == '':
                    continue
                ns = Node(NS, n)
                ns.name = p
                ns.local = p
                ns.value = u
                ns.doc = doc
                ns.order = counter[0]
                counter[0] += 1
                n.nss.append(ns)
            for a in n.attrs:
                a.doc = doc
                a.order = counter[0]
                counter[0] += 1
                if a.is_id:
                    for tok in a.value.split():
                        doc.ids.setdefault(tok, n)
                        break
            for c in n.children:
                visit(c, sc)
        elif n.kind == ROOT:
            for c in n.children:
                visit(c, scope)
        n.end_order = counter[0]
    visit(doc, {'xml': XML_NS})
    doc.count = counter[0]


# ---------------------------------------------------------------------------------------------
_ATTLIST = re.compile(r'<!ATTLIST\s+([^\s>]+)\s+([^>]*)>', re.S)


def parse(data, keep_cdata_merge=True, base=None):
    """bytes/str -> Document.  Namespace processing is done here (expat runs without it), so the
    result also tells whether the document is namespace-well-formed."""
    if isinstance(data, str):
        data = data.encode('utf-8')
    b = _Builder()
    p = expat.ParserCreate()
    p.buffer_text = True
    p.ordered_attributes = True
    p.specified_attributes = False
    idmap = b.id_attrs

    def attlist(elname, attname, type_, default, required):
        if type_ == 'ID':
            idmap.setdefault(elname, set()).add(attname)

    def xmldecl(version, encoding, standalone):
        b.doc.xmlversion, b.doc.encoding, b.doc.standalone = version, encoding, standalone

    def doctype(name, sysid, pubid, has_internal):
        b.doc.doctype = (name, sysid, pubid)

    def start(name, attrs):
        b.start(name, [(attrs[i], attrs[i + 1]) for i in range(0, len(attrs), 2)])

    p.AttlistDeclHandler = attlist
    p.XmlDeclHandler = xmldecl
    p.StartDoctypeDeclHandler = doctype
    p.StartElementHandler = start
    p.EndElementHandler = lambda name: b.end(name)
    p.CharacterDataHandler = b.text
    p.CommentHandler = b.comment
    p.ProcessingInstructionHandler = b.pi
    # external entities are not loaded
    p.SetParamEntityParsing(expat.XML_PARAM_ENTITY_PARSING_NEVER)
    try:
        p.Parse(data, True)
    except expat.ExpatError as e:
        raise ParseError('not well-formed: %s' % e)
    doc = b.finish()
    doc.uri_ = base
    return doc


def unesc(s):
    out = []
    i = 0
    n = len(s)
    while i < n:
        c = s[i]
        if c == '\\' and i + 1 < n:
            d = s[i + 1]
            out.append({'n': '\n', 'r': '\r', 't': '\t', '\\': '\\'}.get(d, d))
            i += 2
        else:
            out.append(c)
            i += 1
    return ''.join(out)


def from_dump(dump):
    """canonical event dump of drivers/xvcommon.hpp -> Document"""
    if isinstance(dump, bytes):
        dump = dump.decode('utf-8', 'surrogatepass')
    b = _Builder()
    lines = dump.split('\n')
    i = 0
    n = len(lines)
    while i < n:
        ln = lines[i]
        i += 1
        if not ln:
            continue
        if ln.startswith('E '):
            name = unesc(ln[2:])
            attrs = []
            while i < n and lines[i].startswith('A '):
                k, _, v = lines[i][2:].partition(' ')
                attrs.append((unesc(k), unesc(v)))
                i += 1
            b.start(name, attrs)
        elif ln == '/E':
            b.end()
        elif ln.startswith('T '):
            b.text(unesc(ln[2:]))
        elif ln.startswith('C '):
            b.comment(unesc(ln[2:]))
        elif ln.startswith('P '):
            t, _, d = ln[2:].partition(' ')
            b.pi(unesc(t), unesc(d))
        else:
            raise ParseError('bad dump line %r' % ln)
    return b.finish()


# ---------------------------------------------------------------------------------------------
def canon(node, ws_only_dropped=False, with_ns_decls=False):
    """hashable canonical form of a subtree: expanded names, attribute sets, text, comments, PIs.
    Prefixes and redundant declarations are not part of it."""
    k = node.kind
    if k in (ROOT, ELEM):
        kids = []
        for c in node.children:
            if ws_only_dropped and c.kind == TEXT and c.value.strip(' \t\r\n') == '':
                continue
            kids.append(canon(c, ws_only_dropped, with_ns_decls))
        if k == ROOT:
            return ('root', tuple(kids))
        attrs = tuple(sorted(((a.uri, a.local), a.value) for a in node.attrs))
        if with_ns_decls:
            nss = tuple(sorted((x.name, x.value) for x in node.nss))
            return ('e', (node.uri, node.local), attrs, nss, tuple(kids))
        return ('e', (node.uri, node.local), attrs, tuple(kids))
    if k == TEXT:
        return ('t', node.value)
    if k == COMMENT:
        return ('c', node.value)
    if k == PI:
        return ('p', node.name, node.value)
    if k == ATTR:
        return ('a', (node.uri, node.local), node.value)
    if k == NS:
        return ('n', node.name, node.value)
    raise ValueError(k)


def first_diff(a, b, path='/'):
    """human-readable first difference of two canon() forms, or None"""
    if a == b:
        return None
    if type(a) != type(b) or not isinstance(a, tuple):
        return '%s: %r != %r' % (path, a, b)
    if a[0] != b[0]:
        return '%s: kind %r != %r' % (path, a, b)
    if a[0] in ('root', 'e'):
        ka, kb = a[-1], b[-1]
        if a[0] == 'e':
            if a[1] != b[1]:
                return '%s: element name %r != %r' % (path, a[1], b[1])
            if a[2] != b[2]:
                return '%s%s: attributes %r != %r' % (path, a[1][1], a[2], b[2])
            if len(a) == 5 and a[3] != b[3]:
                return '%s%s: namespaces %r != %r' % (path, a[1][1], a[3], b[3])
            path = path + a[1][1] + '/'
        for i in range(min(len(ka), len(kb))):
            d = first_diff(ka[i], kb[i], path + '[%d]' % i)
            if d:
                return d
        if len(ka) != len(kb):
            longer, which = (ka, 'first') if len(ka) > len(kb) else (kb, 'second')
            return '%s: %s has extra child %r' % (path, which, longer[min(len(ka), len(kb))])
    return '%s: %r != %r' % (path, a, b)


# ---------------------------------------------------------------------------------------------
def esc_text(s):
    return s.replace('&', '&amp;').replace('<', '&lt;').replace('>', '&gt;').replace('\r', '&#13;')


def esc_attr(s):
    return (s.replace('&', '&amp;').replace('<', '&lt;').replace('"', '&quot;').replace('\r', '&#13;')
            .replace('\n', '&#10;').replace('\t', '&#9;'))


def serialize(node, out=None):
    """plain serializer for trees built by the generators (uses recorded qnames / nsdecls)"""
    top = out is None
    if top:
        out = []
    k = node.kind
    if k == ROOT:
        for c in node.children:
            serialize(c, out)
    elif k == ELEM:
        out.append('<' + node.name)
        for p, u in node.nsdecls:
            out.append(' xmlns%s="%s"' % (':' + p if p else '', esc_attr(u)))
        for a in node.attrs:
            out.append(' %s="%s"' % (a.name, esc_attr(a.value)))
        if node.children:
            out.append('>')
            for c in node.children:
                serialize(c, out)
            out.append('</' + node.name + '>')
        else:
            out.append('/>')
    elif k == TEXT:
        out.append(esc_text(node.value))
    elif k == COMMENT:
        out.append('<!--' + node.value + '-->')
    elif k == PI:
        out.append('<?' + node.name + (' ' + node.value if node.value else '') + '?>')
    if top:
        return ''.join(out)
