"""XSLT 1.0 reference interpreter (result TREE, not bytes) written from the Recommendation, for
the instruction set named in property C01.  Built on refxml / refxpath.  Standard library only."""
import math, re
import refxml, refxpath as X, refnum
from refxml import Node, Document, ROOT, ELEM, ATTR, NS, TEXT, COMMENT, PI

XSL = X.XSLT_NS


class XsltError(Exception):
    pass


class Terminate(Exception):
    pass


def is_ws(s):
    return s.strip(' \t\r\n') == ''


# =============================================================================================
# output builder
class Builder(object):
    def __init__(self):
        self.doc = Document()
        self.stack = [self.doc]
        self.errors = []

    def cur(self):
        return self.stack[-1]

    def start(self, uri, local, prefix=''):
        e = Node(ELEM, self.cur())
        e.uri, e.local, e.prefix = uri, local, prefix
        e.name = (prefix + ':' if prefix else '') + local
        self.cur().children.append(e)
        self.stack.append(e)
        return e

    def end(self):
        self.stack.pop()

    def attribute(self, uri, local, value, prefix=''):
        c = self.cur()
        if c.kind != ELEM:
            self.errors.append('attribute outside element')
            return
        if c.children:
            self.errors.append('attribute after children')
            return
        for a in c.attrs:
            if a.uri == uri and a.local == local:
                a.value = value
                return
        a = Node(ATTR, c)
        a.uri, a.local, a.prefix, a.value = uri, local, prefix, value
        a.name = (prefix + ':' if prefix else '') + local
        c.attrs.append(a)

    def text(self, s):
        if s == '':
            return
        ch = self.cur().children
        if ch and ch[-1].kind == TEXT:
            ch[-1].value += s
        else:
            n = Node(TEXT, self.cur())
            n.value = s
            ch.append(n)

    def comment(self, s):
        n = Node(COMMENT, self.cur())
        n.value = s
        self.cur().children.append(n)

    def pi(self, target, data):
        n = Node(PI, self.cur())
        n.name = n.local = target
        n.value = data
        self.cur().children.append(n)

    def nsdecl(self, prefix, uri):
        c = self.cur()
        if c.kind == ELEM and not c.children:
            for i, (p, u) in enumerate(c.nsdecls):
                if p == prefix:
                    c.nsdecls[i] = (prefix, uri)
                    return
            c.nsdecls.append((prefix, uri))

    def copy(self, n, deep=True):
        """copy a source / RTF node into the result"""
        k = n.kind
        if k == ROOT:
            for c in n.children:
                self.copy(c)
        elif k == ELEM:
            self.start(n.uri, n.local, n.prefix)
            for ns in n.nss:
                if ns.name != 'xml':
                    self.nsdecl(ns.name, ns.value)
            if deep:
                for a in n.attrs:
                    self.attribute(a.uri, a.local, a.value, a.prefix)
                for c in n.children:
                    self.copy(c)
                self.end()
        elif k == TEXT:
            self.text(n.value)
        elif k == ATTR:
            self.attribute(n.uri, n.local, n.value, n.prefix)
        elif k == COMMENT:
            self.comment(n.value)
        elif k == PI:
            self.pi(n.name, n.value)
        elif k == NS:
            self.nsdecl(n.name, n.value)

    def finish(self):
        refxml.number(self.doc)
        return self.doc


# =============================================================================================
# stylesheet model
class Template(object):
    __slots__ = ('alts', 'mode', 'priority', 'precedence', 'position', 'elem', 'name', 'module', 'env')


class Module(object):
    def __init__(self, href):
        self.href = href
        self.imports = []       # Modules
        self.precedence = 0
        self.elem = None

    def subtree(self):
        out = []
        for m in self.imports:
            out.append(m)
            out.extend(m.subtree())
        return out


def strip_stylesheet_ws(n, preserve=False):
    keep = []
    for c in n.children:
        if c.kind == TEXT:
            if is_ws(c.value) and not preserve and not (n.uri == XSL and n.local == 'text'):
                continue
            keep.append(c)
        else:
            if c.kind == ELEM:
                p = preserve
                for a in c.attrs:
                    if a.uri == refxml.XML_NS and a.local == 'space':
                        p = a.value == 'preserve'
                strip_stylesheet_ws(c, p)
            keep.append(c)
    n.children = keep


def attr(e, name, default=None):
    for a in e.attrs:
        if a.uri == '' and a.local == name:
            return a.value
    return default


def ns_env_of(e):
    return dict((ns.name, ns.value) for ns in e.nss if ns.name != '')


def parse_avt(s):
    """-> list of ('lit', str) / ('expr', str)"""
    parts = []
    buf = ''
    i = 0
    n = len(s)
    while i < n:
        c = s[i]
        if c == '{':
            if i + 1 < n and s[i + 1] == '{':
                buf += '{'
                i += 2
                continue
            if buf:
                parts.append(('lit', buf))
                buf = ''
            j = i + 1
            e = ''
            while j < n and s[j] != '}':
                if s[j] in '"\'':
                    q = s[j]
                    k = s.find(q, j + 1)
                    if k < 0:
                        raise XsltError('unterminated literal in AVT')
                    e += s[j:k + 1]
                    j = k + 1
                else:
                    e += s[j]
                    j += 1
            if j >= n:
                raise XsltError('unterminated AVT')
            parts.append(('expr', e))
            i = j + 1
        elif c == '}':
            if i + 1 < n and s[i + 1] == '}':
                buf += '}'
                i += 2
            else:
                raise XsltError('unmatched } in AVT')
        else:
            buf += c
            i += 1
    if buf:
        parts.append(('lit', buf))
    return parts


class Stylesheet(object):
    def __init__(self, text, loader=None, href='main.xsl'):
        self.loader = loader or (lambda h: None)
        self.templates = []
        self.named = {}
        self.keys = {}
        self.globals = []          # (precedence, order, name, elem, env, is_param)
        self.attribute_sets = {}
        self.space = []            # (precedence, priority, order, kind, uri|None, local|None)
        self.output = {}
        self.aliases = {}          # stylesheet uri -> (result uri, prefix)
        self.decimal_formats = {}
        self.counter = 0
        self.order = 0
        self.main = self.load_module(text, href)
        self.assign_precedence(self.main)
        self.collect(self.main)

    # -- loading ------------------------------------------------------------------------------
    def load_module(self, text, href):
        doc = refxml.parse(text)
        root = [c for c in doc.children if c.kind == ELEM][0]
        m = Module(href)
        if not (root.uri == XSL and root.local in ('stylesheet', 'transform')):
            raise XsltError('literal result element as stylesheet not supported')
        strip_stylesheet_ws(root)
        m.elem = root
        m.includes = []
        self.expand_includes(m, root)
        return m

    def expand_includes(self, m, root):
        kids = []
        for c in root.children:
            if c.kind == ELEM and c.uri == XSL and c.local == 'import':
                t = self.loader(attr(c, 'href'))
                if t is None:
                    raise XsltError('cannot load import')
                m.imports.append(self.load_module(t, attr(c, 'href')))
            elif c.kind == ELEM and c.uri == XSL and c.local == 'include':
                t = self.loader(attr(c, 'href'))
                if t is None:
                    raise XsltError('cannot load include')
                inc = self.load_module(t, attr(c, 'href'))
                # an included module's imports move up to the including module (XSLT 2.6.2)
                m.imports.extend(inc.imports)
                kids.extend(inc.top)
            else:
                kids.append(c)
        m.top = kids

    def assign_precedence(self, m):
        for i in m.imports:
            self.assign_precedence(i)
        self.counter += 1
        m.precedence = self.counter

    def collect(self, m):
        for i in m.imports:
            self.collect(i)
        for c in m.top:
            if c.kind != ELEM:
                continue
            self.order += 1
            if c.uri != XSL:
                continue
            env_ns = ns_env_of(c)
            l = c.local
            if l == 'template':
                self.add_template(c, m, env_ns)
            elif l == 'key':
                name = self.expand(attr(c, 'name'), env_ns)
                alts = X.parse_pattern(attr(c, 'match'))
                use = X.parse(attr(c, 'use'))
                self.keys.setdefault(name, []).append((alts, use, env_ns))
            elif l in ('variable', 'param'):
                self.globals.append((m.precedence, self.order, self.expand(attr(c, 'name'), env_ns), c, env_ns, l == 'param'))
            elif l == 'attribute-set':
                self.attribute_sets.setdefault(self.expand(attr(c, 'name'), env_ns), []).append((m.precedence, self.order, c, env_ns))
            elif l in ('strip-space', 'preserve-space'):
                for tok in attr(c, 'elements', '').split():
                    if tok == '*':
                        self.space.append((m.precedence, -0.5, self.order, l, None, None))
                    elif tok.endswith(':*'):
                        self.space.append((m.precedence, -0.25, self.order, l, env_ns.get(tok[:-2]), None))
                    else:
                        p, loc = refxml.split_qname(tok)
                        self.space.append((m.precedence, 0.0, self.order, l, env_ns.get(p, '') if p else '', loc))
            elif l == 'output':
                for a in c.attrs:
                    self.output[a.local] = a.value
            elif l == 'namespace-alias':
                sp, rp = attr(c, 'stylesheet-prefix'), attr(c, 'result-prefix')
                su = self.default_ns(c) if sp == '#default' else env_ns.get(sp)
                ru = self.default_ns(c) if rp == '#default' else env_ns.get(rp)
                self.aliases[su] = (ru, '' if rp == '#default' else rp, m.precedence)
            elif l == 'decimal-format':
                kw = dict((a.local, a.value) for a in c.attrs if a.local != 'name')
                nm = attr(c, 'name')
                self.decimal_formats[self.expand(nm, env_ns) if nm else None] = X.DecimalFormat(**kw)

    def default_ns(self, e):
        for ns in e.nss:
            if ns.name == '':
                return ns.value
        return ''

    def expand(self, qname, env_ns):
        p, l = refxml.split_qname(qname)
        if p:
            if p not in env_ns:
                raise XsltError('unbound prefix ' + p)
            return (env_ns[p], l)
        return ('', l)

    def add_template(self, c, m, env_ns):
        name = attr(c, 'name')
        match = attr(c, 'match')
        mode = attr(c, 'mode')
        prio = attr(c, 'priority')
        if name is not None:
            t = Template()
            t.alts, t.mode, t.priority, t.precedence, t.position, t.elem, t.module, t.env = None, None, 0, m.precedence, self.order, c, m, env_ns
            t.name = self.expand(name, env_ns)
            old = self.named.get(t.name)
            if old is None or old.precedence <= t.precedence:
                self.named[t.name] = t
        if match is not None:
            alts = X.parse_pattern(match)
            for alt in alts:
                t = Template()
                t.alts = [alt]
                t.mode = self.expand(mode, env_ns) if mode else None
                t.priority = float(prio) if prio is not None else X.default_priority(alt)
                t.precedence, t.position, t.elem, t.module, t.env, t.name = m.precedence, self.order, c, m, env_ns, None
                self.templates.append(t)


# =============================================================================================
# numbering helpers (7.7.1)
def to_roman(n, upper):
    if n <= 0 or n >= 4000:
        return str(n)
    vals = [(1000, 'm'), (900, 'cm'), (500, 'd'), (400, 'cd'), (100, 'c'), (90, 'xc'), (50, 'l'), (40, 'xl'), (10, 'x'), (9, 'ix'), (5, 'v'), (4, 'iv'), (1, 'i')]
    out = ''
    for v, s in vals:
        while n >= v:
            out += s
            n -= v
    return out.upper() if upper else out


def to_alpha(n, upper):
    if n <= 0:
        return str(n)
    out = ''
    while n > 0:
        n -= 1
        out = chr(ord('a') + n % 26) + out
        n //= 26
    return out.upper() if upper else out


def format_number_list(nums, fmt, gsep=None, gsize=None):
    if not nums:
        # XSLT 1.0 does not say whether prefix/suffix punctuation is written for an empty list;
        # XSLT 2.0 settled on the empty string, which is what is assumed here
        return ''
    # tokenize the format string into alphanumeric tokens and separators
    toks = re.findall(r'[0-9A-Za-z]+|[^0-9A-Za-z]+', fmt)
    prefix = ''
    suffix = ''
    if toks and not toks[0][0].isalnum():
        prefix = toks.pop(0)
    if toks and not toks[-1][0].isalnum():
        suffix = toks.pop()
    fmts = [t for t in toks if t[0].isalnum()]
    seps = [t for t in toks if not t[0].isalnum()]
    if not fmts:
        fmts = ['1']
    out = prefix
    for i, n in enumerate(nums):
        if i > 0:
            out += seps[i - 1] if i - 1 < len(seps) else (seps[-1] if seps else '.')
        f = fmts[i] if i < len(fmts) else fmts[-1]
        out += format_one(n, f, gsep, gsize)
    return out + suffix


def format_one(n, f, gsep, gsize):
    if f == 'a':
        return to_alpha(n, False)
    if f == 'A':
        return to_alpha(n, True)
    if f == 'i':
        return to_roman(n, False)
    if f == 'I':
        return to_roman(n, True)
    if re.fullmatch(r'0*1', f):
        s = str(n).rjust(len(f), '0') if n >= 0 else str(n)
        if gsep and gsize and gsize > 0:
            parts = []
            while len(s) > gsize:
                parts.insert(0, s[-gsize:])
                s = s[:-gsize]
            parts.insert(0, s)
            s = gsep.join(parts)
        return s
    return str(n)


# =============================================================================================
class Processor(object):
    def __init__(self, sheet, source, params=None, doc_loader=None, max_steps=200000):
        self.sheet = sheet
        self.source = source
        self.params = params or {}
        self.docs = {}
        self.doc_texts = doc_loader or (lambda href: None)
        self.globals = {}
        self.global_state = {}
        self.steps = 0
        self.max_steps = max_steps
        self.key_env_cache = {}
        self.messages = []
        self.envs = {}
        self.executed = set()
        self.stripped_docs = set()
        self.number_alternatives = False      # True: an xsl:number with `from` yields every defensible reading, ALT_SEP separated

    # -- whitespace stripping (3.4) ---------------------------------------------------------------
    def should_strip(self, e):
        best = None
        for (prec, prio, order, kind, uri, local) in self.sheet.space:
            if local is None and uri is None:
                ok = True
            elif local is None:
                ok = e.uri == uri
            else:
                ok = e.uri == uri and e.local == local
            if ok:
                k = (prec, prio, order)
                if best is None or k > best[0]:
                    best = (k, kind)
        return best is not None and best[1] == 'strip-space'

    def strip_source(self, doc):
        if not self.sheet.space or id(doc) in self.stripped_docs:
            return
        self.stripped_docs.add(id(doc))

        def walk(n, preserve):
            if n.kind == ELEM:
                for a in n.attrs:
                    if a.uri == refxml.XML_NS and a.local == 'space':
                        preserve = a.value == 'preserve'
                strip = self.should_strip(n) and not preserve
                if strip:
                    n.children = [c for c in n.children if not (c.kind == TEXT and is_ws(c.value))]
            for c in n.children:
                if c.kind == ELEM:
                    walk(c, preserve)
        for c in doc.children:
            if c.kind == ELEM:
                walk(c, False)
        refxml.number(doc)

    # -- environments -----------------------------------------------------------------------------
    def env_for(self, elem, local_vars, current):
        key = id(elem)
        ns = self.envs.get(key)
        if ns is None:
            ns = ns_env_of(elem)
            self.envs[key] = ns
        env = X.Env(namespaces=ns, current=current, decimal_formats=self.sheet.decimal_formats, doc_loader=self.load_document)
        env.var_lookup = lambda name: self.lookup_var(name, local_vars)
        env.keys = self.key_decls()
        env.key_cache = self.global_state.setdefault('key_cache', {})
        env.genids = self.global_state.setdefault('genids', {})
        return env

    def key_decls(self):
        kd = self.global_state.get('key_decls')
        if kd is None:
            kd = {}
            for name, decls in self.sheet.keys.items():
                lst = []
                for (alts, use, env_ns) in decls:
                    kenv = X.Env(namespaces=env_ns, decimal_formats=self.sheet.decimal_formats, doc_loader=self.load_document)
                    kenv.var_lookup = lambda nm: self.lookup_var(nm, [])
                    kenv.keys = kd
                    kenv.key_cache = self.global_state.setdefault('key_cache', {})
                    kenv.genids = self.global_state.setdefault('genids', {})
                    lst.append((alts, use, kenv))
                kd[name] = lst
            self.global_state['key_decls'] = kd
        return kd

    def load_document(self, href, base):
        if href == '':
            return None
        if href in self.docs:
            return self.docs[href]
        t = self.doc_texts(href)
        if t is None:
            self.docs[href] = None
            return None
        try:
            d = refxml.parse(t)
        except refxml.ParseError:
            self.docs[href] = None
            return None
        self.strip_source(d)
        self.docs[href] = d
        return d

    def lookup_var(self, name, local_vars):
        for frame in reversed(local_vars):
            if name in frame:
                return frame[name]
        return self.global_value(name)

    def global_value(self, name):
        if name in self.globals:
            v = self.globals[name]
            if v is _PENDING:
                raise XsltError('circular global variable')
            return v
        best = None
        for g in self.sheet.globals:
            if g[2] == name and (best is None or (g[0], g[1]) > (best[0], best[1])):
                best = g
        if best is None:
            raise X.XPathError('unknown variable %s' % (name,))
        self.globals[name] = _PENDING
        prec, order, nm, elem, env_ns, is_param = best
        if is_param and nm in self.params:
            v = self.params[nm]
        else:
            v = self.eval_variable(elem, self.source, 1, 1, [], None, None)
        self.globals[name] = v
        return v

    # -- evaluation helpers -----------------------------------------------------------------------
    def xp(self, expr, elem, node, pos, size, lv, current=None):
        env = self.env_for(elem, lv, current if current is not None else node)
        try:
            return X.evaluate(X.parse(expr), X.Context(node, pos, size, env))
        except X.XPathSyntaxError as e:
            raise XsltError('bad expression %r: %s' % (expr, e))

    def avt(self, s, elem, node, pos, size, lv):
        out = ''
        for kind, v in parse_avt(s):
            if kind == 'lit':
                out += v
            else:
                out += X.to_string(self.xp(v, elem, node, pos, size, lv))
        return out

    def eval_variable(self, elem, node, pos, size, lv, mode, rule):
        sel = attr(elem, 'select')
        if sel is not None:
            return self.xp(sel, elem, node, pos, size, lv)
        if not elem.children:
            return ''
        b = Builder()
        self.run_body(elem.children, node, pos, size, lv + [{}], mode, rule, b)
        return X.RTF(b.finish())

    # -- template selection (5.5) ---------------------------------------------------------------------
    def find_template(self, node, mode, among=None):
        best = None
        menv = None
        for t in self.sheet.templates:
            if t.mode != mode:
                continue
            if among is not None and t.module not in among:
                continue
            key = (t.precedence, t.priority, t.position)
            if best is not None and key <= best[0]:
                continue
            env = X.Env(namespaces=t.env, decimal_formats=self.sheet.decimal_formats, doc_loader=self.load_document)
            env.var_lookup = lambda nm: self.lookup_var(nm, [])
            env.keys = self.key_decls()
            env.key_cache = self.global_state.setdefault('key_cache', {})
            env.genids = self.global_state.setdefault('genids', {})
            env.current = node
            if X.pattern_matches(t.alts, node, env):
                best = (key, t)
        return best[1] if best else None

    def apply_templates(self, nodes, mode, params, b, lv_unused=None, among=None):
        size = len(nodes)
        for i, n in enumerate(nodes):
            self.apply_one(n, i + 1, size, mode, params, b, among)

    def apply_one(self, n, pos, size, mode, params, b, among=None):
        self.tick()
        t = self.find_template(n, mode, among)
        if t is None:
            self.builtin(n, pos, size, mode, b)
            return
        self.instantiate(t, n, pos, size, mode, params, b)

    def builtin(self, n, pos, size, mode, b):
        if n.kind in (ROOT, ELEM):
            self.apply_templates(list(n.children), mode, {}, b)
        elif n.kind in (TEXT, ATTR):
            b.text(n.value)

    def instantiate(self, t, n, pos, size, mode, params, b):
        frame = {}
        lv = [frame]
        body = list(t.elem.children)
        # params first
        rest = []
        for c in body:
            if c.kind == ELEM and c.uri == XSL and c.local == 'param':
                name = self.sheet.expand(attr(c, 'name'), t.env)
                if name in params:
                    frame[name] = params[name]
                else:
                    frame[name] = self.eval_variable(c, n, pos, size, lv, mode, t)
            else:
                rest.append(c)
        self.run_body(rest, n, pos, size, lv, mode, t, b)

    def tick(self):
        self.steps += 1
        if self.steps > self.max_steps:
            raise XsltError('step budget exhausted')

    # -- sorting --------------------------------------------------------------------------------------
    def sort_nodes(self, nodes, sorts, cur_node, cur_pos, cur_size, lv):
        if not sorts:
            return nodes
        keys = []
        size = len(nodes)
        specs = []
        for s in sorts:
            dt = self.avt(attr(s, 'data-type', 'text'), s, cur_node, cur_pos, cur_size, lv)
            order = self.avt(attr(s, 'order', 'ascending'), s, cur_node, cur_pos, cur_size, lv)
            co = attr(s, 'case-order')
            co = self.avt(co, s, cur_node, cur_pos, cur_size, lv) if co is not None else None
            if attr(s, 'lang') is None:
                # without a language the collation is that of the environment (code points under the C / POSIX locale the checks run in, where
                # case-order makes no difference either)
                co = None
            elif co is None:
                co = 'lower-first'          # the default of the languages the checks name
            specs.append((attr(s, 'select', '.'), dt, order, s, co))
        rows = []
        for i, n in enumerate(nodes):
            ks = []
            for (sel, dt, order, s, co) in specs:
                v = X.to_string(self.xp(sel, s, n, i + 1, size, lv, current=n))
                if dt == 'number':
                    x = refnum.number_of(v)
                    k = (0, 0.0) if x != x else (1, x)
                elif co in ('upper-first', 'lower-first'):
                    # letters first without regard to case, then case as the tie-breaker (only meaningful for the ASCII alphabets the checks use)
                    k = text_sort_key(v, co)
                else:
                    k = v
                ks.append(k)
            rows.append((ks, i, n))
        import functools

        def cmp(a, b):
            for j, (sel, dt, order, s, co) in enumerate(specs):
                x, y = a[0][j], b[0][j]
                c = (x > y) - (x < y)
                if c:
                    return c if order != 'descending' else -c
            return (a[1] > b[1]) - (a[1] < b[1])
        rows.sort(key=functools.cmp_to_key(cmp))
        return [r[2] for r in rows]

    # -- instruction interpreter ----------------------------------------------------------------------
    def run_body(self, children, node, pos, size, lv, mode, rule, b):
        frame = {}
        lv = lv + [frame]
        for c in children:
            self.tick()
            if c.kind == TEXT:
                b.text(c.value)
            elif c.kind == ELEM:
                if c.uri == XSL:
                    self.xsl_instr(c, node, pos, size, lv, frame, mode, rule, b)
                else:
                    self.lre(c, node, pos, size, lv, mode, rule, b)

    def with_params(self, c, node, pos, size, lv, mode, rule):
        out = {}
        for w in c.children:
            if w.kind == ELEM and w.uri == XSL and w.local == 'with-param':
                out[self.sheet.expand(attr(w, 'name'), ns_env_of(w))] = self.eval_variable(w, node, pos, size, lv, mode, rule)
        return out

    def use_attribute_sets(self, names, elem_ns, node, pos, size, b, seen=()):
        for qn in names.split():
            name = self.sheet.expand(qn, elem_ns)
            if name in seen:
                raise XsltError('circular attribute sets')
            decls = sorted(self.sheet.attribute_sets.get(name, []), key=lambda d: (d[0], d[1]))
            for (prec, order, e, env_ns) in decls:
                u = attr(e, 'use-attribute-sets')
                if u:
                    self.use_attribute_sets(u, env_ns, node, pos, size, b, seen + (name,))
                for a in e.children:
                    if a.kind == ELEM and a.uri == XSL and a.local == 'attribute':
                        self.xsl_attribute(a, node, pos, size, [], None, None, b)

    def lre(self, c, node, pos, size, lv, mode, rule, b):
        self.executed.add('lre')
        uri, prefix = c.uri, c.prefix
        al = self.sheet.aliases.get(uri)
        if al is not None:
            uri, prefix = al[0], al[1]
        b.start(uri, c.local, prefix)
        for a in c.attrs:
            if a.uri == XSL and a.local == 'use-attribute-sets':
                self.use_attribute_sets(a.value, ns_env_of(c), node, pos, size, b)
        for a in c.attrs:
            if a.uri == XSL:
                continue
            au, ap = a.uri, a.prefix
            if au:
                al = self.sheet.aliases.get(au)
                if al is not None:
                    au, ap = al[0], al[1]
            b.attribute(au, a.local, self.avt(a.value, c, node, pos, size, lv), ap)
        self.run_body(c.children, node, pos, size, lv, mode, rule, b)
        b.end()

    def xsl_attribute(self, c, node, pos, size, lv, mode, rule, b):
        name = self.avt(attr(c, 'name'), c, node, pos, size, lv)
        nsa = attr(c, 'namespace')
        p, l = refxml.split_qname(name)
        if name == 'xmlns' or not l:
            raise XsltError('bad attribute name')
        if nsa is not None:
            uri = self.avt(nsa, c, node, pos, size, lv)
        elif p:
            env_ns = ns_env_of(c)
            if p == 'xml':
                uri = refxml.XML_NS
            elif p not in env_ns:
                raise XsltError('unbound prefix in attribute name')
            else:
                uri = env_ns[p]
        else:
            uri = ''
        vb = Builder()
        self.run_body(c.children, node, pos, size, lv, mode, rule, vb)
        val = vb.finish()
        if any(k.kind != TEXT for k in val.children):
            raise XsltError('non-text in attribute value')
        b.attribute(uri, l, val.string_value(), p if uri else '')

    def xsl_instr(self, c, node, pos, size, lv, frame, mode, rule, b):
        l = c.local
        self.executed.add(l)
        if l == 'apply-templates':
            sel = attr(c, 'select')
            if sel is None:
                nodes = list(node.children) if node.kind in (ROOT, ELEM) else []
            else:
                v = self.xp(sel, c, node, pos, size, lv)
                if not X.is_nodeset(v):
                    raise XsltError('apply-templates select is not a node-set')
                nodes = v
            m = attr(c, 'mode')
            newmode = self.sheet.expand(m, ns_env_of(c)) if m else None
            sorts = [s for s in c.children if s.kind == ELEM and s.uri == XSL and s.local == 'sort']
            nodes = self.sort_nodes(nodes, sorts, node, pos, size, lv)
            params = self.with_params(c, node, pos, size, lv, mode, rule)
            self.apply_templates(nodes, newmode, params, b)
        elif l == 'apply-imports':
            if rule is None or rule.alts is None:
                raise XsltError('apply-imports without current template rule')
            among = set(rule.module.subtree())
            self.apply_one(node, pos, size, mode, {}, b, among)
        elif l == 'call-template':
            t = self.sheet.named.get(self.sheet.expand(attr(c, 'name'), ns_env_of(c)))
            if t is None:
                raise XsltError('no such named template')
            params = self.with_params(c, node, pos, size, lv, mode, rule)
            self.instantiate(t, node, pos, size, mode, params, b) if False else self.call(t, node, pos, size, mode, rule, params, b)
        elif l == 'for-each':
            v = self.xp(attr(c, 'select'), c, node, pos, size, lv)
            if not X.is_nodeset(v):
                raise XsltError('for-each select is not a node-set')
            sorts = [s for s in c.children if s.kind == ELEM and s.uri == XSL and s.local == 'sort']
            body = [s for s in c.children if not (s.kind == ELEM and s.uri == XSL and s.local == 'sort')]
            nodes = self.sort_nodes(v, sorts, node, pos, size, lv)
            n = len(nodes)
            for i, x in enumerate(nodes):
                self.run_body(body, x, i + 1, n, lv, mode, None, b)
        elif l == 'value-of':
            b.text(X.to_string(self.xp(attr(c, 'select'), c, node, pos, size, lv)))
        elif l == 'copy-of':
            v = self.xp(attr(c, 'select'), c, node, pos, size, lv)
            if X.is_nodeset(v):
                for x in v:
                    b.copy(x)
            elif isinstance(v, X.RTF):
                b.copy(v.doc)
            else:
                b.text(X.to_string(v))
        elif l == 'copy':
            k = node.kind
            if k == ELEM:
                b.copy(node, deep=False)
                u = attr(c, 'use-attribute-sets')
                if u:
                    self.use_attribute_sets(u, ns_env_of(c), node, pos, size, b)
                self.run_body(c.children, node, pos, size, lv, mode, rule, b)
                b.end()
            elif k == ROOT:
                self.run_body(c.children, node, pos, size, lv, mode, rule, b)
            else:
                b.copy(node)
        elif l == 'element':
            name = self.avt(attr(c, 'name'), c, node, pos, size, lv)
            p, loc = refxml.split_qname(name)
            nsa = attr(c, 'namespace')
            if not loc or ':' in loc:
                raise XsltError('bad element name')
            if nsa is not None:
                uri = self.avt(nsa, c, node, pos, size, lv)
            elif p:
                env_ns = ns_env_of(c)
                if p not in env_ns:
                    raise XsltError('unbound prefix in element name')
                uri = env_ns[p]
            else:
                uri = self.sheet.default_ns(c)
            b.start(uri, loc, p if uri else '')
            u = attr(c, 'use-attribute-sets')
            if u:
                self.use_attribute_sets(u, ns_env_of(c), node, pos, size, b)
            self.run_body(c.children, node, pos, size, lv, mode, rule, b)
            b.end()
        elif l == 'attribute':
            self.xsl_attribute(c, node, pos, size, lv, mode, rule, b)
        elif l == 'text':
            b.text(''.join(k.value for k in c.children if k.kind == TEXT))
        elif l == 'comment':
            vb = Builder()
            self.run_body(c.children, node, pos, size, lv, mode, rule, vb)
            b.comment(vb.finish().string_value())
        elif l == 'processing-instruction':
            name = self.avt(attr(c, 'name'), c, node, pos, size, lv)
            vb = Builder()
            self.run_body(c.children, node, pos, size, lv, mode, rule, vb)
            b.pi(name, vb.finish().string_value())
        elif l == 'if':
            if X.to_boolean(self.xp(attr(c, 'test'), c, node, pos, size, lv)):
                self.run_body(c.children, node, pos, size, lv, mode, rule, b)
        elif l == 'choose':
            for w in c.children:
                if w.kind != ELEM or w.uri != XSL:
                    continue
                if w.local == 'when':
                    if X.to_boolean(self.xp(attr(w, 'test'), w, node, pos, size, lv)):
                        self.run_body(w.children, node, pos, size, lv, mode, rule, b)
                        break
                elif w.local == 'otherwise':
                    self.run_body(w.children, node, pos, size, lv, mode, rule, b)
                    break
        elif l in ('variable', 'param'):
            name = self.sheet.expand(attr(c, 'name'), ns_env_of(c))
            frame[name] = self.eval_variable(c, node, pos, size, lv, mode, rule)
        elif l == 'number':
            b.text(self.number(c, node, pos, size, lv))
        elif l == 'message':
            vb = Builder()
            self.run_body(c.children, node, pos, size, lv, mode, rule, vb)
            self.messages.append(vb.finish().string_value())
            if attr(c, 'terminate') == 'yes':
                raise Terminate()
        elif l in ('fallback', 'sort', 'with-param'):
            pass
        else:
            raise XsltError('unsupported instruction xsl:' + l)

    def call(self, t, node, pos, size, mode, rule, params, b):
        # call-template does not change the current template rule
        frame = {}
        lv = [frame]
        rest = []
        for c in t.elem.children:
            if c.kind == ELEM and c.uri == XSL and c.local == 'param':
                name = self.sheet.expand(attr(c, 'name'), t.env)
                frame[name] = params[name] if name in params else self.eval_variable(c, node, pos, size, lv, mode, rule)
            else:
                rest.append(c)
        self.run_body(rest, node, pos, size, lv, mode, rule, b)

    # -- xsl:number (7.7) ---------------------------------------------------------------------------
    def number(self, c, node, pos, size, lv):
        fmt = self.avt(attr(c, 'format', '1'), c, node, pos, size, lv)
        gsep = attr(c, 'grouping-separator')
        gsize = attr(c, 'grouping-size')
        gs = int(self.avt(gsize, c, node, pos, size, lv)) if gsize else None
        gsep = self.avt(gsep, c, node, pos, size, lv) if gsep else None
        val = attr(c, 'value')
        if val is not None:
            x = X.to_number(self.xp(val, c, node, pos, size, lv))
            r = refnum.xp_round(x)
            if r != r or r in (math.inf, -math.inf):
                return X.num_to_string(r)
            nums = [int(r)]
            return format_number_list(nums, fmt, gsep, gs)
        level = attr(c, 'level', 'single')
        count = attr(c, 'count')
        frm = attr(c, 'from')
        env = self.env_for(c, lv, node)

        def m_count(n):
            if count is None:
                if n.kind != node.kind:
                    return False
                if n.kind in (ELEM, ATTR):
                    return n.uri == node.uri and n.local == node.local
                if n.kind == PI:
                    return n.name == node.name
                return True
            return X.pattern_matches(X.parse_pattern(count), n, env)

        def m_from(n):
            return frm is not None and X.pattern_matches(X.parse_pattern(frm), n, env)

        def number_list(self_is_from, from_counted, none_is_empty):
            """the number list under one reading of `from`.  XSLT 1.0 read literally: the from node is an
            ANCESTOR / a node BEFORE the current node (self_is_from=False) and is itself outside the counted
            region (from_counted=False); it does not say what happens when from is given and no node matches
            it (none_is_empty).  XSLT 2.0 spells the rules out with self_is_from, from_counted, none_is_empty
            all true."""
            aos = X.axis_nodes('ancestor-or-self', node)          # nearest first
            if level in ('single', 'multiple'):
                limit = None
                if frm is not None:
                    for a in aos:
                        if (a is not node or self_is_from) and m_from(a):
                            limit = a
                            break
                    if limit is None and none_is_empty:
                        return []
                chain = []
                for a in aos:
                    if a is limit:
                        if from_counted:
                            chain.append(a)
                        break
                    chain.append(a)
                hits = [a for a in chain if m_count(a)]
                if level == 'single':
                    hits = hits[:1]
                return [1 + sum(1 for s in X.axis_nodes('preceding-sibling', a) if m_count(s)) for a in hits[::-1]]
            cand = X.sort_unique([node] + X.axis_nodes('preceding', node) + X.axis_nodes('ancestor', node))
            if frm is not None:
                start = None
                for a in cand:
                    if (a is not node or self_is_from) and m_from(a):
                        start = a
                if start is None and none_is_empty:
                    return []
                if start is not None:
                    cand = [a for a in cand if a.order > start.order or (from_counted and a is start)]
            n = sum(1 for a in cand if m_count(a))
            return [n] if n else []
        primary = format_number_list(number_list(False, False, False), fmt, gsep, gs)
        if frm is not None and self.number_alternatives:
            alts = [primary]
            for reading in ((False, False, True), (True, True, True)):
                t = format_number_list(number_list(*reading), fmt, gsep, gs)
                if t not in alts:
                    alts.append(t)
            return ALT_SEP.join(alts)
        return primary

    # -- entry ----------------------------------------------------------------------------------------
    def run(self):
        self.strip_source(self.source)
        b = Builder()
        # evaluate every global (errors in unused globals are still errors for some processors: lazily here)
        try:
            self.apply_one(self.source, 1, 1, None, {}, b)
        except Terminate:
            raise
        self.builder_errors = b.errors
        return b.finish()


_PENDING = object()
ALT_SEP = '\ue000'        # separates the readings of an ambiguous xsl:number (Processor.number_alternatives)


def transform(xsl_text, xml_text, loader=None, params=None, doc_loader=None, number_alternatives=False):
    sheet = Stylesheet(xsl_text, loader)
    src = refxml.parse(xml_text)
    p = Processor(sheet, src, params, doc_loader)
    p.number_alternatives = number_alternatives
    out = p.run()
    return out, p



def text_sort_key(v, case_order):
    """sort key of a text value under case-order: compare the letters first, case breaks ties, position by position"""
    upper_first = case_order == 'upper-first'
    return (v.lower(), tuple((0 if (c.isupper() == upper_first) else 1) if c.isalpha() else 0 for c in v))
