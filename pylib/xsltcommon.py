"""Shared helpers of the stylesheet-level checks: running a transformation through xvdrv, turning
output bytes into canonical trees, and shrinking (stylesheet, document) witnesses."""
import os, re
import refxml, refxslt, refxpath as X


class Runner(object):
    """one XalanTransformer inside the worker's driver"""

    def __init__(self, ctx, flavour='plain'):
        self.ctx = ctx
        self.flavour = flavour
        self.t = None
        self.drv = None

    def ensure(self):
        d = self.ctx.drv(self.flavour)
        if self.t is None or d is not self.drv or not d.alive():
            self.drv = d
            self.t = d.call(cmd='tnew')['t'].decode()
        return d

    def transform(self, xsl, xml, **kw):
        d = self.ensure()
        fields = dict(cmd='transform', t=self.t, src=kw.pop('src', 'stream'), sty=kw.pop('sty', 'stream'), tgt=kw.pop('tgt', 'stream'), xml=xml, xsl=xsl)
        fields.update(kw)
        try:
            rep = d.call(**fields)
        except Exception:
            self.t = None
            raise
        return Result(rep)


class Result(object):
    def __init__(self, rep):
        self.rep = rep
        self.status = int(rep.get('status', b'-99'))
        self.out = rep.get('out', b'')
        self.err = rep.get('err', b'').decode('utf-8', 'replace')
        self.warn = rep.get('warn', b'').decode('utf-8', 'replace')
        self.escaped = rep.get('escaped', b'').decode('utf-8', 'replace')
        self.error = rep.get('error', b'').decode('utf-8', 'replace')


_DECL = re.compile(r'^﻿?<\?xml[^>]*\?>')


def output_tree(out, encoding='utf-8'):
    """canonical tree of serialized xml output (fragment allowed): wrapped in a dummy element"""
    if isinstance(out, bytes):
        out = out.decode(encoding)
    out = _DECL.sub('', out)
    out = re.sub(r'^\s*<!DOCTYPE[^>]*>', '', out)
    doc = refxml.parse('<xv-wrap>' + out + '</xv-wrap>')
    return refxml.canon(doc)[1][0][-1]


def ref_tree(doc):
    return refxml.canon(doc)[1]


def dump_tree(dump):
    return refxml.canon(refxml.from_dump(dump))[1]


# ---- shrinking -------------------------------------------------------------------------------
def _elements(n, out):
    for c in n.children:
        if c.kind == refxml.ELEM:
            out.append(c)
            _elements(c, out)


def shrink_xml(text, still, budget=150, protect=None):
    """removes subtrees / attributes / text of an XML text while still(text) holds.  `protect`
    is a predicate on element nodes that must stay."""
    head = ''
    m = re.match(r'^(<!DOCTYPE[^\]]*\]>)', text)
    if m:
        head = m.group(1)
    progress = True
    while progress and budget > 0:
        progress = False
        try:
            doc = refxml.parse(text)
        except refxml.ParseError:
            return text
        nodes = []
        _elements(doc, nodes)
        # biggest subtrees first
        nodes.sort(key=lambda e: -(e.end_order - e.order))
        for e in nodes:
            if e.parent.kind == refxml.ROOT or (protect and protect(e)):
                continue
            budget -= 1
            if budget <= 0:
                break
            par = e.parent
            idx = par.children.index(e)
            del par.children[idx]
            cand = head + refxml.serialize(doc)
            if still(cand):
                text = cand
                progress = True
                break
            par.children.insert(idx, e)
            # hoist children
            if e.children:
                par.children[idx:idx + 1] = e.children
                cand = head + refxml.serialize(doc)
                budget -= 1
                if still(cand):
                    text = cand
                    progress = True
                    break
                par.children[idx:idx + len(e.children)] = [e]
        if progress:
            continue
        for e in nodes:
            for a in list(e.attrs):
                if protect and protect(e):
                    continue
                budget -= 1
                if budget <= 0:
                    break
                e.attrs.remove(a)
                cand = head + refxml.serialize(doc)
                if still(cand):
                    text = cand
                    progress = True
                    break
                e.attrs.append(a)
            if progress or budget <= 0:
                break
    return text


def is_xsl(e, local=None):
    return e.uri == X.XSLT_NS and (local is None or e.local == local)


def protect_stylesheet(e):
    """stylesheet elements that cannot be removed without making the stylesheet invalid"""
    return is_xsl(e, 'stylesheet') or is_xsl(e, 'when') and len([c for c in e.parent.children if c.kind == refxml.ELEM and is_xsl(c, 'when')]) == 1
