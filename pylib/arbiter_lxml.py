"""Optional second opinion (libxslt / libxml2 through lxml, only available for /usr/bin/python3).
Line protocol on stdin/stdout: requests are JSON objects {"op":"xslt","xsl":..,"xml":..} or
{"op":"xpath",...}; replies JSON {"ok":bool,"out":str,"err":str}.  Never the only voice."""
import json, sys
try:
    import lxml.etree as E
except Exception as e:      # pragma: no cover
    print(json.dumps({'ready': False, 'err': str(e)}))
    sys.exit(0)
print(json.dumps({'ready': True}))
sys.stdout.flush()
for line in sys.stdin:
    try:
        q = json.loads(line)
        if q['op'] == 'xslt':
            parser = E.XMLParser(resolve_entities=False, no_network=True)
            xsl = E.XSLT(E.fromstring(q['xsl'].encode('utf-8'), parser))
            doc = E.fromstring(q['xml'].encode('utf-8'), parser).getroottree()
            res = xsl(doc)
            out = bytes(res).decode('utf-8', 'replace') if res.getroot() is not None else str(res)
            r = {'ok': True, 'out': out}
        else:
            r = {'ok': False, 'err': 'bad op'}
    except Exception as e:
        r = {'ok': False, 'err': str(e)[:500]}
    print(json.dumps(r))
    sys.stdout.flush()
