"""Process wrapper around the C++ drivers (framing of drivers/xvproto.hpp)."""
import os, re, select, signal, subprocess, time

VERIF = os.path.dirname(os.path.dirname(os.path.abspath(__file__)))
BUILD = os.environ.get('VERIF_BUILD', os.path.join(VERIF, '.build'))
WORK = os.environ.get('VERIF_WORK', os.path.join(VERIF, '.work'))


class DriverDied(Exception):
    def __init__(self, rc, stderr, request, timeout=False):
        Exception.__init__(self, 'driver died rc=%s timeout=%s' % (rc, timeout))
        self.rc = rc
        self.stderr = stderr
        self.request = request
        self.timeout = timeout


def sanitizer_env(flavour):
    env = dict(os.environ)
    env.pop('LD_PRELOAD', None)
    # the locale of the environment decides the collation of xsl:sort without lang and the code page of messages: fix it
    for k in list(env):
        if k.startswith('LC_') or k in ('LANG', 'LANGUAGE'):
            del env[k]
    env['LC_ALL'] = 'C'
    if flavour in ('asan', 'fuzz'):
        env['ASAN_OPTIONS'] = ('abort_on_error=1:halt_on_error=1:detect_leaks=0:allocator_may_return_null=1:'
                               'detect_stack_use_after_return=0:max_malloc_fill_size=0:malloc_context_size=12:'
                               'handle_abort=1:symbolize=1')
        env['UBSAN_OPTIONS'] = 'halt_on_error=1:abort_on_error=1:print_stacktrace=1:symbolize=1'
    elif flavour == 'tsan':
        env['TSAN_OPTIONS'] = 'halt_on_error=0:second_deadlock_stack=1:history_size=4'
    return env


def exe_path(flavour, name):
    return os.path.join(BUILD, flavour, name)


class Driver(object):
    def __init__(self, flavour='plain', name='xvdrv', tag='w', timeout=None, extra_env=None, args=()):
        self.flavour = flavour
        self.name = name
        self.tag = tag
        self.timeout = timeout if timeout is not None else (30.0 if flavour == 'plain' else 240.0)
        self.extra_env = extra_env or {}
        self.args = list(args)
        self.p = None
        self.buf = b''
        self.last_request = None
        self.restarts = 0
        self.calls = 0
        os.makedirs(os.path.join(WORK, 'stderr'), exist_ok=True)
        self.errpath = os.path.join(WORK, 'stderr', '%s.%s.%s.%d.err' % (name, flavour, tag, os.getpid()))

    def start(self):
        env = sanitizer_env(self.flavour)
        env.update(self.extra_env)
        self.errf = open(self.errpath, 'wb')
        self.p = subprocess.Popen([exe_path(self.flavour, self.name)] + self.args, stdin=subprocess.PIPE,
                                  stdout=subprocess.PIPE, stderr=self.errf, env=env, bufsize=0,
                                  preexec_fn=os.setsid)
        self.buf = b''
        self.restarts += 1

    def alive(self):
        return self.p is not None and self.p.poll() is None

    def stop(self):
        if self.p is None:
            return
        try:
            if self.p.poll() is None:
                try:
                    self.p.stdin.write(b'cmd 4\nquit\n.\n')
                    self.p.stdin.flush()
                    self.p.stdin.close()
                except Exception:
                    pass
                try:
                    self.p.wait(timeout=20)
                except Exception:
                    self._kill()
        finally:
            try:
                self.errf.close()
            except Exception:
                pass
            self.p = None

    def _kill(self):
        try:
            os.killpg(self.p.pid, signal.SIGKILL)
        except Exception:
            pass
        try:
            self.p.wait(timeout=10)
        except Exception:
            pass

    def stderr_text(self):
        try:
            self.errf.flush()
        except Exception:
            pass
        try:
            with open(self.errpath, 'rb') as f:
                return f.read()[-200000:].decode('utf-8', 'replace')
        except Exception:
            return ''

    # -- framing -------------------------------------------------------------------------
    @staticmethod
    def encode(fields):
        out = []
        for k, v in fields.items():
            if v is None:
                continue
            if isinstance(v, str):
                v = v.encode('utf-8', 'surrogatepass')
            elif isinstance(v, bool):
                v = b'1' if v else b'0'
            elif isinstance(v, (int, float)):
                v = repr(v).encode()
            out.append(k.encode() + b' ' + str(len(v)).encode() + b'\n' + v + b'\n')
        out.append(b'.\n')
        return b''.join(out)

    def _fill(self, deadline):
        fd = self.p.stdout.fileno()
        while True:
            left = deadline - time.time()
            if left <= 0:
                return False
            r, _, _ = select.select([fd], [], [], min(left, 5.0))
            if r:
                chunk = os.read(fd, 1 << 16)
                if not chunk:
                    raise EOFError()
                self.buf += chunk
                return True
            if self.p.poll() is not None:
                # drain
                chunk = os.read(fd, 1 << 16)
                if not chunk:
                    raise EOFError()
                self.buf += chunk
                return True

    def _readline(self, deadline):
        while True:
            i = self.buf.find(b'\n')
            if i >= 0:
                line = self.buf[:i]
                self.buf = self.buf[i + 1:]
                return line
            if not self._fill(deadline):
                raise TimeoutError()

    def _readn(self, n, deadline):
        while len(self.buf) < n + 1:
            if not self._fill(deadline):
                raise TimeoutError()
        v = self.buf[:n]
        self.buf = self.buf[n + 1:]
        return v

    def call(self, _timeout=None, **fields):
        if not self.alive():
            if self.p is not None:
                self.stop()
            self.start()
        self.last_request = fields
        self.calls += 1
        data = self.encode(fields)
        deadline = time.time() + (_timeout or self.timeout)
        try:
            self.p.stdin.write(data)
            self.p.stdin.flush()
            reply = {}
            while True:
                line = self._readline(deadline)
                if line == b'.':
                    break
                k, n = line.split(b' ')
                reply[k.decode()] = self._readn(int(n), deadline)
            return reply
        except TimeoutError:
            self._kill()
            err = self.stderr_text()
            self.stop()
            raise DriverDied(None, err, fields, timeout=True)
        except (EOFError, BrokenPipeError, OSError, ValueError):
            try:
                rc = self.p.wait(timeout=60)
            except Exception:
                self._kill()
                rc = self.p.returncode
            err = self.stderr_text()
            self.stop()
            raise DriverDied(rc, err, fields)


# -- sanitizer report parsing ----------------------------------------------------------------
_FRAME = re.compile(r'^\s*#(\d+)\s+0x[0-9a-f]+\s+in\s+(.+?)\s+(\S+?)(?::(\d+))?(?::\d+)?\s*$')
_FRAME2 = re.compile(r'^\s*#(\d+)\s+0x[0-9a-f]+\s+in\s+(.+?)\s*(?:\(|$)')


def report_key(stderr):
    """Returns (kind, [frames]) for the first sanitizer/abort report in stderr; frames are the
    innermost functions of namespace xalanc (argument lists stripped)."""
    kind = None
    frames = []
    started = False
    for line in stderr.splitlines():
        if kind is None:
            m = re.search(r'ERROR: (AddressSanitizer|LeakSanitizer|ThreadSanitizer|UndefinedBehaviorSanitizer): ([\w\-]+)', line)
            if m:
                kind = m.group(1) + ':' + m.group(2)
                started = True
                continue
            m = re.search(r'runtime error: (.*)$', line)
            if m:
                msg = re.sub(r'-?\d[\d\.e\+\-]*', 'N', m.group(1))
                msg = re.sub(r'0x[0-9a-f]+', 'P', msg)
                kind = 'UBSan:' + msg[:80]
                loc = re.search(r'([\w\.]+\.[ch]pp):(\d+)', line)
                if loc:
                    kind += '@' + loc.group(1)
                started = True
                continue
            m = re.search(r'terminate called|XV-TERMINATE|XV-SIGNAL (\w+)', line)
            if m:
                kind = 'terminate' if not m.group(1) else 'signal:' + m.group(1)
                started = True
                continue
        elif started:
            m = _FRAME2.match(line)
            if m:
                fn = m.group(2)
                if 'xalanc_1_12::' in fn or 'xalanc::' in fn:
                    fn = re.sub(r'\(.*$', '', fn)
                    fn = re.sub(r'<.*>', '<>', fn)
                    fn = fn.replace('xalanc_1_12::', '')
                    if fn not in frames:
                        frames.append(fn)
                    if len(frames) >= 3:
                        break
            elif frames and not line.strip():
                break
    return kind, frames
