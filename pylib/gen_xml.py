"""Seeded generator of source documents: shapes, namespaces (re-bound prefixes, default namespace),
mixed content, comments, PIs, whitespace-only text, ID attributes, small value alphabets."""
import refxml
from refxml import Node, Document, ELEM, ATTR, TEXT, COMMENT, PI

NS_P = 'urn:p'
NS_Q = 'urn:q'
NS_D = 'urn:default'
PREFIXES = {'p': NS_P, 'q': NS_Q}           # bindings used by expressions / stylesheets
LOCALS = ['a', 'b', 'c', 'd', 'e']
ATTRS = ['id', 'x', 'y', 'n']
VALUES = ['1', '2', '3', '10', '2', '3.5', '-1', '007', '0', 'abc', 'ab', 'b', '', ' 12 ', 'x y', 'NaN', '1e3', 'A', 'a', '-0', '0.5', '2.50']
WORDS = ['alpha', 'beta', 'b', 'ab', 'x', '1', '2', '10', ' ', 'a b', 'é', 'ü', '<&>', "'q'", '"', '7', 'z', '']
WS = [' ', '\n', '  ', '\n  ', '\t', ' \n ']


class DocInfo(object):
    def __init__(self):
        self.elem_names = set()     # qnames as written with canonical prefixes p:/q: (for expressions)
        self.attr_names = set()
        self.ids = []
        self.has_ns = False
        self.values = set()
        self.pis = set()


def gen_tree(r, size=30, ns=True, ids=True, ws=True, comments=True, astral=False, default_ns=None, max_depth=6, ws_heavy=False):
    """returns (xml text, DocInfo).  Prefixes in the TEXT may differ from the canonical ones
    (p, q) used in expressions: the same URI can be bound to other prefixes / the default."""
    info = DocInfo()
    budget = [size]
    idn = [0]
    use_default = ns and (default_ns if default_ns is not None else r.random() < 0.25)
    out = []

    def name_for(uri, scope, decls, attr=False, used=None):
        """pick a qname for uri given the in-scope bindings, declaring as needed"""
        local = r.choice(LOCALS if not attr else ATTRS)
        if uri == '':
            if not attr and scope.get('') not in (None, ''):
                decls.append(('', ''))          # undeclare the default namespace
                scope[''] = ''
            return local, local
        canon = 'p' if uri == NS_P else 'q' if uri == NS_Q else 'dflt'
        cands = [p for p, u in scope.items() if u == uri and (p != '' or not attr)]
        if cands and r.random() < 0.8:
            p = r.choice(sorted(cands))
        else:
            if not attr and r.random() < 0.3:
                p = ''
            else:
                p = r.choice(['p', 'q', 'r', 'ns1']) if r.random() < 0.5 else canon
            if scope.get(p) != uri:
                if any(d[0] == p for d in decls) or (used is not None and p in used):
                    # this element already declares p: reuse any prefix bound to uri, else a fresh one
                    p = 'n%d' % len(decls)
                decls.append((p, uri))
                scope[p] = uri
        if used is not None:
            used.add(p)
        q = (p + ':' + local) if p else local
        return q, (canon + ':' + local if canon != 'dflt' else 'dflt:' + local)

    def text_value():
        k = r.random()
        if k < 0.35:
            return r.choice(VALUES)
        if k < 0.9:
            return r.choice(WORDS)
        if astral:
            return r.choice(['\U0001F600', 'a\U00010000b', '\uFFFD'])
        return r.choice(WORDS) + r.choice(WORDS)

    def element(depth, scope):
        budget[0] -= 1
        scope = dict(scope)
        decls = []
        uri = ''
        if ns:
            k = r.random()
            uri = NS_P if k < 0.2 else NS_Q if k < 0.3 else (NS_D if use_default and k < 0.6 else '')
        used = set()
        q, canon = name_for(uri, scope, decls, used=used)
        info.elem_names.add(canon)
        attrs = []
        seen = set()
        for _ in range(r.choice([0, 0, 1, 1, 2, 3])):
            auri = ''
            if ns and r.random() < 0.2:
                auri = r.choice([NS_P, NS_Q])
            aq, acanon = name_for(auri, scope, decls, attr=True, used=used)
            al = aq.split(':')[-1]
            if (auri, al) in seen or aq in seen:
                continue
            seen.add((auri, al))
            seen.add(aq)
            if al == 'id' and auri == '' and ids:
                idn[0] += 1
                v = 'i%d' % idn[0] if r.random() < 0.9 else 'i1'
                info.ids.append(v)
            else:
                v = r.choice(VALUES)
            info.attr_names.add(acanon)
            info.values.add(v)
            attrs.append((aq, v))
        if ns and r.random() < 0.08:
            extra = r.choice([('r', NS_P), ('q', NS_Q), ('u', 'urn:unused')])
            if extra[0] not in [d[0] for d in decls] and extra[0] not in used:
                decls.append(extra)
                scope[extra[0]] = extra[1]
        attrs.sort(key=lambda kv: kv[0])     # Xerces keeps attributes sorted by name: keep one order for all trees
        out.append('<' + q)
        for p, u in decls:
            out.append(' xmlns%s="%s"' % (':' + p if p else '', u))
        for aq, v in attrs:
            out.append(' %s="%s"' % (aq, refxml.esc_attr(v)))
        nchild = 0
        if depth < max_depth and budget[0] > 0:
            nchild = r.choice([0, 1, 2, 2, 3, 4, 6]) if depth > 0 else r.choice([2, 3, 4, 6])
        kids = []
        if nchild == 0 and r.random() < 0.5:
            kids.append('t')
        for _ in range(nchild):
            k = r.random()
            if k < 0.55:
                kids.append('e')
            elif k < 0.8:
                kids.append('t')
            elif k < 0.88 and ws:
                kids.append('w')
            elif k < 0.94 and comments:
                kids.append('c')
            elif comments:
                kids.append('p')
            else:
                kids.append('e')
        if not kids:
            out.append('/>')
            return
        out.append('>')
        if ws_heavy:
            # whitespace-only text between, before and after children (what indentation leaves behind)
            k2 = []
            for k in kids:
                if r.random() < 0.6:
                    k2.append('w')
                k2.append(k)
            if r.random() < 0.6:
                k2.append('w')
            kids = k2
        for k in kids:
            if k == 'e':
                if budget[0] > 0:
                    element(depth + 1, scope)
                else:
                    out.append(refxml.esc_text(text_value()))
            elif k == 't':
                v = text_value()
                info.values.add(v)
                out.append(refxml.esc_text(v))
            elif k == 'w':
                out.append(r.choice(WS))
            elif k == 'c':
                out.append('<!--' + r.choice(['c', ' note ', 'x-y', '']) + '-->')
            else:
                t = r.choice(['pi', 'target', 'p2'])
                info.pis.add(t)
                out.append('<?' + t + ' ' + r.choice(['d', 'a="b"', '']) + '?>')
        out.append('</' + q + '>')

    head = ''
    if ids:
        head = '<!DOCTYPE doc [' + ''.join('<!ATTLIST %s id ID #IMPLIED>' % n for n in LOCALS + ['doc']) + ']>'
    # fixed document element 'doc' (no namespace unless default is in use)
    out.append('<doc')
    scope = {'xml': refxml.XML_NS}
    if use_default and r.random() < 0.5:
        out.append(' xmlns="%s"' % NS_D)
        scope[''] = NS_D
        info.elem_names.add('dflt:doc')
    else:
        info.elem_names.add('doc')
    if ns and r.random() < 0.7:
        out.append(' xmlns:p="%s"' % NS_P)
        scope['p'] = NS_P
    if ns and r.random() < 0.4:
        out.append(' xmlns:q="%s"' % NS_Q)
        scope['q'] = NS_Q
    out.append('>')
    n = 0
    while budget[0] > 0 and n < 8:
        if ws and r.random() < 0.3:
            out.append(r.choice(WS))
        element(1, scope)
        n += 1
    out.append('</doc>')
    tail = ''
    if comments and r.random() < 0.2:
        tail = '<!--end-->'
    if comments and r.random() < 0.15:
        head = head + '<?top x?>'
    info.has_ns = ns
    return head + ''.join(out) + tail, info


def expr_namespaces():
    return {'p': NS_P, 'q': NS_Q, 'dflt': NS_D}


def gen_doc(r, **kw):
    """gen_tree, verified with the harness's own parser (a generator slip must not become a verdict)"""
    for _ in range(8):
        xml, info = gen_tree(r, **kw)
        try:
            refxml.parse(xml)
            return xml, info
        except refxml.ParseError:
            continue
    return '<doc><a id="i1">1</a><b x="2">t</b></doc>', gen_tree(r, size=1, ns=False)[1]
