"""XPath 1.0 reference model written from the Recommendation: lexer (3.7 disambiguation rules),
recursive-descent parser, evaluator over refxml trees, core function library, the XSLT additions
and the deterministic EXSLT / xalan extension functions.  Also XSLT patterns (5.2) with
matching by the defining expression and default priorities (5.5).  Standard library only."""
import math, re
import refxml
from refxml import ROOT, ELEM, ATTR, NS, TEXT, COMMENT, PI
import refnum


class XPathSyntaxError(Exception):
    pass


class XPathError(Exception):
    """dynamic error (unknown variable/function, wrong type)"""
    pass


# =============================================================================================
# lexer
NCNAME_START = r'A-Za-z_À-ÖØ-öø-˿Ͱ-ͽͿ-῿‌-‍⁰-↏Ⰰ-⿯、-퟿豈-﷏ﷰ-�'
NCNAME_CHAR = NCNAME_START + r'\-\.0-9·̀-ͯ‿-⁀'
NCNAME = '[%s][%s]*' % (NCNAME_START, NCNAME_CHAR)
_TOKEN = re.compile(r'''
    (?P<ws>[ \t\r\n]+)
  | (?P<number>[0-9]+(?:\.[0-9]*)?|\.[0-9]+)
  | (?P<literal>"[^"]*"|'[^']*')
  | (?P<op2>//|::|\.\.|!=|<=|>=)
  | (?P<op1>[()\[\]@,/|+\-=<>.*$])
  | (?P<name>%s(?::%s|:\*)?)
''' % (NCNAME, NCNAME), re.X)

AXES = ('ancestor', 'ancestor-or-self', 'attribute', 'child', 'descendant', 'descendant-or-self', 'following',
        'following-sibling', 'namespace', 'parent', 'preceding', 'preceding-sibling', 'self')
NODETYPES = ('comment', 'text', 'processing-instruction', 'node')
OPNAMES = ('and', 'or', 'mod', 'div')


def tokenize(s):
    toks = []
    i = 0
    n = len(s)
    while i < n:
        m = _TOKEN.match(s, i)
        if not m:
            raise XPathSyntaxError('bad character %r at %d' % (s[i], i))
        i = m.end()
        k = m.lastgroup
        v = m.group(k)
        if k == 'ws':
            continue
        if k == 'name':
            # a QName followed by a colon-less ':' cannot happen; 'a:*' and 'a:b' are single tokens,
            # but "a :b" is not (no whitespace inside a QName)
            toks.append(('name', v))
        elif k in ('op1', 'op2'):
            if v == '$' and (i >= n or s[i] in ' \t\r\n'):
                # VariableReference ::= '$' QName is ONE token of the lexical structure (3.7 [28], [36]): no white space inside it
                raise XPathSyntaxError("white space after '$'")
            toks.append(('op', v))
        else:
            toks.append((k, v))
    # disambiguation 3.7
    out = []
    for idx, (k, v) in enumerate(toks):
        prev = out[-1] if out else None
        operator_position = prev is not None and not (
            prev[0] == 'op' and prev[1] in ('@', '::', '(', '[', ',', '/', '//', '|', '+', '-', '=', '!=', '<', '<=', '>', '>=', '$')
            or prev[0] == 'opname' or prev[0] == 'mul' or prev[0] == 'axis')
        if k == 'op' and v == '*':
            out.append(('mul', '*') if operator_position else ('star', '*'))
            continue
        if k == 'name':
            if operator_position and prev[0] != 'op' or (operator_position and prev[0] == 'op' and prev[1] in (')', ']', '.', '..')):
                if v in OPNAMES:
                    out.append(('opname', v))
                    continue
                raise XPathSyntaxError('operator expected, found %r' % v)
            nxt = toks[idx + 1] if idx + 1 < len(toks) else None
            if nxt and nxt == ('op', '::'):
                if v not in AXES:
                    raise XPathSyntaxError('unknown axis %r' % v)
                out.append(('axis', v))
                continue
            if nxt and nxt == ('op', '('):
                if v in NODETYPES:
                    out.append(('nodetype', v))
                else:
                    if v.endswith(':*'):
                        raise XPathSyntaxError('bad function name')
                    out.append(('func', v))
                continue
            out.append(('name', v))
            continue
        out.append((k, v))
    out.append(('eof', ''))
    return out


# =============================================================================================
# parser
class Parser(object):
    def __init__(self, s):
        self.toks = tokenize(s)
        self.i = 0

    def peek(self):
        return self.toks[self.i]

    def next(self):
        t = self.toks[self.i]
        self.i += 1
        return t

    def accept(self, kind, val=None):
        t = self.toks[self.i]
        if t[0] == kind and (val is None or t[1] == val):
            self.i += 1
            return t
        return None

    def expect(self, kind, val=None):
        t = self.accept(kind, val)
        if t is None:
            raise XPathSyntaxError('expected %s %s, found %r' % (kind, val or '', self.toks[self.i]))
        return t

    def parse_expr_top(self):
        e = self.or_expr()
        if self.peek()[0] != 'eof':
            raise XPathSyntaxError('trailing tokens %r' % (self.peek(),))
        return e

    def or_expr(self):
        e = self.and_expr()
        while self.accept('opname', 'or'):
            e = ('or', e, self.and_expr())
        return e

    def and_expr(self):
        e = self.eq_expr()
        while self.accept('opname', 'and'):
            e = ('and', e, self.eq_expr())
        return e

    def eq_expr(self):
        e = self.rel_expr()
        while True:
            t = self.accept('op', '=') or self.accept('op', '!=')
            if not t:
                return e
            e = (t[1], e, self.rel_expr())

    def rel_expr(self):
        e = self.add_expr()
        while True:
            t = self.accept('op', '<') or self.accept('op', '<=') or self.accept('op', '>') or self.accept('op', '>=')
            if not t:
                return e
            e = (t[1], e, self.add_expr())

    def add_expr(self):
        e = self.mul_expr()
        while True:
            t = self.accept('op', '+') or self.accept('op', '-')
            if not t:
                return e
            e = (t[1], e, self.mul_expr())

    def mul_expr(self):
        e = self.unary_expr()
        while True:
            t = self.accept('mul') or self.accept('opname', 'div') or self.accept('opname', 'mod')
            if not t:
                return e
            e = (t[1], e, self.unary_expr())

    def unary_expr(self):
        if self.accept('op', '-'):
            return ('neg', self.unary_expr())
        return self.union_expr()

    def union_expr(self):
        e = self.path_expr()
        while self.accept('op', '|'):
            e = ('union', e, self.path_expr())
        return e

    def is_primary_start(self):
        k, v = self.peek()
        return (k in ('literal', 'number', 'func') or (k == 'op' and v in ('$', '(')))

    def path_expr(self):
        if self.is_primary_start():
            prim = self.primary()
            preds = self.predicates()
            e = ('filter', prim, preds) if preds else prim
            if self.peek() in (('op', '/'), ('op', '//')):
                steps = []
                while True:
                    t = self.accept('op', '/') or self.accept('op', '//')
                    if not t:
                        break
                    if t[1] == '//':
                        steps.append(('descendant-or-self', ('type', 'node', None), []))
                    steps.append(self.step())
                return ('path', e, steps)
            return e
        return self.location_path()

    def location_path(self):
        t = self.accept('op', '/')
        if t:
            if self.step_start():
                return ('path', 'root', self.rel_steps())
            return ('path', 'root', [])
        t = self.accept('op', '//')
        if t:
            steps = [('descendant-or-self', ('type', 'node', None), [])]
            steps += self.rel_steps()
            return ('path', 'root', steps)
        return ('path', None, self.rel_steps())

    def step_start(self):
        k, v = self.peek()
        return k in ('name', 'star', 'axis', 'nodetype') or (k == 'op' and v in ('@', '.', '..'))

    def rel_steps(self):
        steps = [self.step()]
        while True:
            t = self.accept('op', '/') or self.accept('op', '//')
            if not t:
                return steps
            if t[1] == '//':
                steps.append(('descendant-or-self', ('type', 'node', None), []))
            steps.append(self.step())

    def step(self):
        if self.accept('op', '.'):
            return ('self', ('type', 'node', None), [])
        if self.accept('op', '..'):
            return ('parent', ('type', 'node', None), [])
        axis = 'child'
        t = self.accept('axis')
        if t:
            self.expect('op', '::')
            axis = t[1]
        elif self.accept('op', '@'):
            axis = 'attribute'
        nt = self.node_test()
        return (axis, nt, self.predicates())

    def node_test(self):
        t = self.accept('star')
        if t:
            return ('wild',)
        t = self.accept('nodetype')
        if t:
            self.expect('op', '(')
            lit = None
            if t[1] == 'processing-instruction':
                l = self.accept('literal')
                if l:
                    lit = l[1][1:-1]
            self.expect('op', ')')
            return ('type', t[1], lit)
        t = self.accept('name')
        if t:
            v = t[1]
            if v.endswith(':*'):
                return ('nswild', v[:-2])
            p, l = refxml.split_qname(v)
            return ('name', p, l)
        raise XPathSyntaxError('node test expected, found %r' % (self.peek(),))

    def predicates(self):
        preds = []
        while self.accept('op', '['):
            preds.append(self.or_expr())
            self.expect('op', ']')
        return preds

    def primary(self):
        k, v = self.peek()
        if k == 'literal':
            self.next()
            return ('lit', v[1:-1])
        if k == 'number':
            self.next()
            return ('num', float(v))
        if k == 'op' and v == '$':
            self.next()
            t = self.expect('name')
            if t[1].endswith(':*'):
                raise XPathSyntaxError('bad variable name')
            return ('var', t[1])
        if k == 'op' and v == '(':
            self.next()
            e = self.or_expr()
            self.expect('op', ')')
            return ('group', e)
        if k == 'func':
            self.next()
            self.expect('op', '(')
            args = []
            if not self.accept('op', ')'):
                args.append(self.or_expr())
                while self.accept('op', ','):
                    args.append(self.or_expr())
                self.expect('op', ')')
            return ('func', v, args)
        raise XPathSyntaxError('primary expected')


_cache = {}


def parse(s):
    r = _cache.get(s)
    if r is None:
        r = Parser(s).parse_expr_top()
        if len(_cache) > 50000:
            _cache.clear()
        _cache[s] = r
    return r


def is_xpath(s):
    try:
        Parser(s).parse_expr_top()
        return True
    except XPathSyntaxError:
        return False


# =============================================================================================
# values
class RTF(object):
    """result tree fragment: a Document whose root is the fragment root"""
    __slots__ = ('doc',)

    def __init__(self, doc):
        self.doc = doc


def is_nodeset(v):
    return isinstance(v, list)


def to_string(v):
    if isinstance(v, str):
        return v
    if isinstance(v, bool):
        return 'true' if v else 'false'
    if isinstance(v, float):
        return num_to_string(v)
    if isinstance(v, list):
        return v[0].string_value() if v else ''
    if isinstance(v, RTF):
        return v.doc.string_value()
    raise XPathError('cannot convert %r' % (v,))


def num_to_string(x):
    if x != x:
        return 'NaN'
    if x == math.inf:
        return 'Infinity'
    if x == -math.inf:
        return '-Infinity'
    if x == 0:
        return '0'
    if x == math.floor(x):
        return str(int(x))      # an integer is written with all its digits (XPath 4.2)
    # shortest digits that round-trip, positional
    r = repr(abs(x))
    if 'e' in r or 'E' in r:
        mant, exp = r.lower().split('e')
        exp = int(exp)
        digs = mant.replace('.', '')
        point = len(mant.split('.')[0]) + exp
        if point <= 0:
            s = '0.' + '0' * (-point) + digs
        elif point >= len(digs):
            s = digs + '0' * (point - len(digs))
        else:
            s = digs[:point] + '.' + digs[point:]
        if '.' in s:
            s = s.rstrip('0').rstrip('.')
    else:
        s = r
        if s.endswith('.0'):
            s = s[:-2]
    return ('-' if x < 0 else '') + s


def to_number(v):
    if isinstance(v, bool):
        return 1.0 if v else 0.0
    if isinstance(v, float):
        return v
    if isinstance(v, str):
        return refnum.number_of(v)
    return refnum.number_of(to_string(v))


def to_boolean(v):
    if isinstance(v, bool):
        return v
    if isinstance(v, float):
        return not (v == 0 or v != v)
    if isinstance(v, str):
        return len(v) > 0
    if isinstance(v, list):
        return len(v) > 0
    if isinstance(v, RTF):
        return True
    raise XPathError('cannot convert')


def type_name(v):
    if isinstance(v, bool):
        return 'boolean'
    if isinstance(v, float):
        return 'number'
    if isinstance(v, str):
        return 'string'
    if isinstance(v, list):
        return 'node-set'
    if isinstance(v, RTF):
        return 'RTF'
    return '?'


def doc_order_key(n):
    return (n.doc.seq, n.order)


def sort_unique(nodes):
    seen = set()
    out = []
    for n in nodes:
        if id(n) not in seen:
            seen.add(id(n))
            out.append(n)
    out.sort(key=doc_order_key)
    return out


# =============================================================================================
# axes
def _desc(n, out):
    for c in n.children:
        out.append(c)
        if c.kind == ELEM:
            _desc(c, out)


def axis_nodes(axis, n):
    """nodes on the axis in AXIS order (reverse axes: reverse document order)"""
    k = n.kind
    if axis == 'child':
        return list(n.children) if k in (ROOT, ELEM) else []
    if axis == 'attribute':
        return list(n.attrs) if k == ELEM else []
    if axis == 'namespace':
        return list(n.nss) if k == ELEM else []
    if axis == 'self':
        return [n]
    if axis == 'parent':
        return [n.parent] if n.parent is not None else []
    if axis == 'descendant' or axis == 'descendant-or-self':
        out = [n] if axis == 'descendant-or-self' else []
        if k in (ROOT, ELEM):
            _desc(n, out)
        return out
    if axis == 'ancestor' or axis == 'ancestor-or-self':
        out = [n] if axis == 'ancestor-or-self' else []
        p = n.parent
        while p is not None:
            out.append(p)
            p = p.parent
        return out
    if axis == 'following-sibling':
        if k in (ATTR, NS) or n.parent is None:
            return []
        sib = n.parent.children
        i = sib.index(n)
        return sib[i + 1:]
    if axis == 'preceding-sibling':
        if k in (ATTR, NS) or n.parent is None:
            return []
        sib = n.parent.children
        i = sib.index(n)
        return sib[:i][::-1]
    if axis == 'following':
        out = []
        cur = n
        if k in (ATTR, NS):
            # descendants of the parent follow an attribute
            cur = n.parent
            _desc(cur, out)
        while cur is not None and cur.parent is not None:
            sib = cur.parent.children
            i = sib.index(cur)
            for s in sib[i + 1:]:
                out.append(s)
                if s.kind == ELEM:
                    _desc(s, out)
            cur = cur.parent
        return out
    if axis == 'preceding':
        anc = set()
        p = n.parent
        while p is not None:
            anc.add(id(p))
            p = p.parent
        start = n if k not in (ATTR, NS) else n.parent
        out = []
        root = n.doc
        allnodes = []
        _desc(root, allnodes)
        limit = start.order
        for x in allnodes:
            if x.order < limit and id(x) not in anc:
                out.append(x)
        if k in (ATTR, NS):
            pass
        return out[::-1]
    raise XPathError('axis ' + axis)


REVERSE_AXES = ('ancestor', 'ancestor-or-self', 'preceding', 'preceding-sibling')


def principal_kind(axis):
    return ATTR if axis == 'attribute' else NS if axis == 'namespace' else ELEM


# =============================================================================================
class Context(object):
    __slots__ = ('node', 'pos', 'size', 'env')

    def __init__(self, node, pos, size, env):
        self.node, self.pos, self.size, self.env = node, pos, size, env


class Env(object):
    """static + dynamic environment shared by an evaluation"""

    def __init__(self, variables=None, namespaces=None, current=None, keys=None, docs=None, functions=None,
                 decimal_formats=None, var_lookup=None, base_uri=None, doc_loader=None, strip=None):
        self.variables = variables or {}
        self.namespaces = namespaces if namespaces is not None else {}
        self.current = current
        self.keys = keys or {}            # (uri, local) -> list of (match pattern ast list, use ast, env)
        self.docs = docs or {}
        self.functions = functions or {}
        self.decimal_formats = decimal_formats or {}
        self.var_lookup = var_lookup
        self.base_uri = base_uri
        self.doc_loader = doc_loader
        self.key_cache = {}
        self.genids = {}

    def resolve_prefix(self, p):
        if p == '':
            return ''
        if p == 'xml':
            return refxml.XML_NS
        if p not in self.namespaces:
            raise XPathError('unbound prefix ' + p)
        return self.namespaces[p]

    def expand(self, qname):
        p, l = refxml.split_qname(qname)
        return (self.resolve_prefix(p), l)


def node_test(nt, n, axis, env):
    t = nt[0]
    if t == 'type':
        ty = nt[1]
        if ty == 'node':
            return True
        if ty == 'text':
            return n.kind == TEXT
        if ty == 'comment':
            return n.kind == COMMENT
        if ty == 'processing-instruction':
            return n.kind == PI and (nt[2] is None or n.name == nt[2])
        return False
    pk = principal_kind(axis)
    if n.kind != pk:
        return False
    if t == 'wild':
        return True
    if t == 'nswild':
        if pk == NS:
            return False
        return n.uri == env.resolve_prefix(nt[1]) and nt[1] != ''
    # name
    p, l = nt[1], nt[2]
    if pk == NS:
        return p == '' and n.name == l
    uri = env.resolve_prefix(p) if p else ''
    return n.local == l and n.uri == uri


def apply_predicates(nodes, preds, env, reverse):
    """nodes in axis order; returns surviving nodes in the same order"""
    for pr in preds:
        size = len(nodes)
        out = []
        for i, n in enumerate(nodes):
            v = evaluate(pr, Context(n, i + 1, size, env))
            if isinstance(v, float):
                if v == i + 1:
                    out.append(n)
            elif to_boolean(v):
                out.append(n)
        nodes = out
    return nodes


def eval_steps(start_nodes, steps, env):
    cur = start_nodes
    for (axis, nt, preds) in steps:
        acc = []
        for n in cur:
            cand = [x for x in axis_nodes(axis, n) if node_test(nt, x, axis, env)]
            if preds:
                cand = apply_predicates(cand, preds, env, axis in REVERSE_AXES)
            acc.extend(cand)
        cur = sort_unique(acc)
    return cur


def compare_values(op, a, b):
    """XPath 3.4"""
    # a result tree fragment is treated like a node-set containing just its root node (XSLT 11.1)
    if isinstance(a, RTF):
        a = [a.doc]
    if isinstance(b, RTF):
        b = [b.doc]
    an, bn = is_nodeset(a), is_nodeset(b)
    if an and bn:
        if op in ('=', '!='):
            sa = set(x.string_value() for x in a)
            sb = set(x.string_value() for x in b)
            if op == '=':
                return bool(sa & sb)
            return any(x != y for x in sa for y in sb)
        na = [refnum.number_of(x.string_value()) for x in a]
        nb = [refnum.number_of(x.string_value()) for x in b]
        return any(num_cmp(op, x, y) for x in na for y in nb)
    if an or bn:
        ns, other, flipped = (a, b, False) if an else (b, a, True)
        if isinstance(other, bool):
            l, r = to_boolean(ns), other
            if flipped:
                l, r = r, l
            return cmp_atomic(op, l, r)
        if isinstance(other, float):
            for x in ns:
                l, r = refnum.number_of(x.string_value()), other
                if flipped:
                    l, r = r, l
                if num_cmp(op, l, r):
                    return True
            return False
        # string
        for x in ns:
            l, r = x.string_value(), other
            if flipped:
                l, r = r, l
            if cmp_atomic(op, l, r):
                return True
        return False
    return cmp_atomic(op, a, b)


def num_cmp(op, x, y):
    if op == '=':
        return x == y
    if op == '!=':
        return x != y
    if op == '<':
        return x < y
    if op == '<=':
        return x <= y
    if op == '>':
        return x > y
    return x >= y


def cmp_atomic(op, a, b):
    if op in ('=', '!='):
        if isinstance(a, bool) or isinstance(b, bool):
            r = to_boolean(a) == to_boolean(b)
        elif isinstance(a, float) or isinstance(b, float):
            r = to_number(a) == to_number(b)
        else:
            r = to_string(a) == to_string(b)
        return r if op == '=' else not r
    return num_cmp(op, to_number(a), to_number(b))


def ieee_div(a, b):
    if b == 0:
        if a != a or a == 0:
            return math.nan
        neg = (math.copysign(1, a) < 0) != (math.copysign(1, b) < 0)
        return -math.inf if neg else math.inf
    return a / b


def ieee_mod(a, b):
    if a != a or b != b or a in (math.inf, -math.inf) or b == 0:
        return math.nan
    if b in (math.inf, -math.inf):
        return a
    return math.fmod(a, b)


def evaluate(ast, ctx):
    t = ast[0]
    env = ctx.env
    if t == 'path':
        start = ast[1]
        if start is None:
            nodes = [ctx.node]
        elif start == 'root':
            r = ctx.node
            while r.parent is not None:
                r = r.parent
            nodes = [r]
        else:
            v = evaluate(start, ctx)
            if not is_nodeset(v):
                raise XPathError('path step on %s' % type_name(v))
            nodes = v
        return eval_steps(nodes, ast[2], env)
    if t == 'filter':
        v = evaluate(ast[1], ctx)
        if not is_nodeset(v):
            raise XPathError('predicate on %s' % type_name(v))
        return apply_predicates(list(v), ast[2], env, False)
    if t == 'group':
        return evaluate(ast[1], ctx)
    if t == 'lit':
        return ast[1]
    if t == 'num':
        return ast[1]
    if t == 'var':
        name = env.expand(ast[1])
        if env.var_lookup is not None:
            return env.var_lookup(name)
        if name not in env.variables:
            raise XPathError('unknown variable %s' % ast[1])
        return env.variables[name]
    if t == 'func':
        return call_function(ast[1], ast[2], ctx)
    if t == 'or':
        return to_boolean(evaluate(ast[1], ctx)) or to_boolean(evaluate(ast[2], ctx))
    if t == 'and':
        return to_boolean(evaluate(ast[1], ctx)) and to_boolean(evaluate(ast[2], ctx))
    if t in ('=', '!=', '<', '<=', '>', '>='):
        return compare_values(t, evaluate(ast[1], ctx), evaluate(ast[2], ctx))
    if t in ('+', '-', '*', 'div', 'mod'):
        a = to_number(evaluate(ast[1], ctx))
        b = to_number(evaluate(ast[2], ctx))
        if t == '+':
            return a + b
        if t == '-':
            return a - b
        if t == '*':
            return a * b
        if t == 'div':
            return ieee_div(a, b)
        return ieee_mod(a, b)
    if t == 'neg':
        return -to_number(evaluate(ast[1], ctx))
    if t == 'union':
        a = evaluate(ast[1], ctx)
        b = evaluate(ast[2], ctx)
        if not is_nodeset(a) or not is_nodeset(b):
            raise XPathError('union of non node-sets')
        return sort_unique(a + b)
    raise XPathError('bad ast ' + t)


# =============================================================================================
# functions
XSLT_NS = 'http://www.w3.org/1999/XSL/Transform'
EXSLT_COMMON = 'http://exslt.org/common'
EXSLT_SETS = 'http://exslt.org/sets'
EXSLT_MATH = 'http://exslt.org/math'
EXSLT_STR = 'http://exslt.org/strings'
EXSLT_DYN = 'http://exslt.org/dynamic'
XALAN_NS = 'http://xml.apache.org/xalan'


def _args(n_min, n_max, args, name):
    if len(args) < n_min or (n_max is not None and len(args) > n_max):
        raise XPathError('wrong number of arguments for %s' % name)


def _nodeset_arg(v, name):
    if not is_nodeset(v):
        raise XPathError('%s needs a node-set' % name)
    return v


def xp_substring(s, start, length=None):
    # positions are 1-based; characters at p with p >= round(start) and p < round(start)+round(length)
    rs = refnum.xp_round(start)
    if rs != rs:
        return ''
    if length is None:
        out = []
        for i, ch in enumerate(s):
            if i + 1 >= rs:
                out.append(ch)
        return ''.join(out)
    rl = refnum.xp_round(length)
    end = rs + rl
    if end != end:
        return ''
    out = []
    for i, ch in enumerate(s):
        p = i + 1
        if p >= rs and p < end:
            out.append(ch)
    return ''.join(out)


def xp_normalize_space(s):
    return ' '.join(x for x in re.split('[ \t\r\n]+', s) if x)


def xp_translate(s, frm, to):
    m = {}
    for i, ch in enumerate(frm):
        if ch not in m:
            m[ch] = to[i] if i < len(to) else None
    out = []
    for ch in s:
        if ch in m:
            if m[ch] is not None:
                out.append(m[ch])
        else:
            out.append(ch)
    return ''.join(out)


def xp_lang(node, lang):
    n = node
    if n.kind in (ATTR, NS):
        n = n.parent
    while n is not None:
        if n.kind == ELEM:
            for a in n.attrs:
                if a.uri == refxml.XML_NS and a.local == 'lang':
                    v = a.value.lower()
                    l = lang.lower()
                    return v == l or v.startswith(l + '-')
        n = n.parent
    return False


def generate_id(env, n):
    k = id(n)
    if k not in env.genids:
        env.genids[k] = 'N%d_%d' % (n.doc.seq, n.order)
    return env.genids[k]


def name_of(n):
    if n.kind in (ELEM, ATTR):
        return n.name
    if n.kind == PI:
        return n.name
    if n.kind == NS:
        return n.name
    return ''


def call_function(qname, argasts, ctx):
    env = ctx.env
    p, l = refxml.split_qname(qname)
    if p:
        uri = env.resolve_prefix(p)
        return call_ext(uri, l, argasts, ctx)
    f = CORE.get(l)
    if f is None:
        raise XPathError('unknown function ' + qname)
    return f(ctx, argasts)


def ev(ctx, a):
    return evaluate(a, ctx)


def f_last(ctx, a):
    _args(0, 0, a, 'last')
    return float(ctx.size)


def f_position(ctx, a):
    _args(0, 0, a, 'position')
    return float(ctx.pos)


def f_count(ctx, a):
    _args(1, 1, a, 'count')
    return float(len(_nodeset_arg(ev(ctx, a[0]), 'count')))


def f_id(ctx, a):
    _args(1, 1, a, 'id')
    v = ev(ctx, a[0])
    toks = []
    if is_nodeset(v):
        for n in v:
            toks += n.string_value().split()
    else:
        toks = to_string(v).split()
    doc = ctx.node.doc
    out = []
    for t in toks:
        e = doc.ids.get(t)
        if e is not None:
            out.append(e)
    return sort_unique(out)


def _node_arg(ctx, a, name):
    _args(0, 1, a, name)
    if not a:
        return ctx.node
    v = _nodeset_arg(ev(ctx, a[0]), name)
    return v[0] if v else None


def f_local_name(ctx, a):
    n = _node_arg(ctx, a, 'local-name')
    if n is None:
        return ''
    if n.kind in (ELEM, ATTR):
        return n.local
    if n.kind in (PI, NS):
        return n.name
    return ''


def f_namespace_uri(ctx, a):
    n = _node_arg(ctx, a, 'namespace-uri')
    if n is None:
        return ''
    return n.uri if n.kind in (ELEM, ATTR) else ''


def f_name(ctx, a):
    n = _node_arg(ctx, a, 'name')
    return '' if n is None else name_of(n)


def f_string(ctx, a):
    _args(0, 1, a, 'string')
    return ctx.node.string_value() if not a else to_string(ev(ctx, a[0]))


def f_concat(ctx, a):
    _args(2, None, a, 'concat')
    return ''.join(to_string(ev(ctx, x)) for x in a)


def f_starts_with(ctx, a):
    _args(2, 2, a, 'starts-with')
    return to_string(ev(ctx, a[0])).startswith(to_string(ev(ctx, a[1])))


def f_contains(ctx, a):
    _args(2, 2, a, 'contains')
    return to_string(ev(ctx, a[1])) in to_string(ev(ctx, a[0]))


def f_substring_before(ctx, a):
    _args(2, 2, a, 'substring-before')
    s, t = to_string(ev(ctx, a[0])), to_string(ev(ctx, a[1]))
    i = s.find(t)
    return s[:i] if i >= 0 else ''


def f_substring_after(ctx, a):
    _args(2, 2, a, 'substring-after')
    s, t = to_string(ev(ctx, a[0])), to_string(ev(ctx, a[1]))
    i = s.find(t)
    return s[i + len(t):] if i >= 0 else ''


def f_substring(ctx, a):
    _args(2, 3, a, 'substring')
    s = to_string(ev(ctx, a[0]))
    st = to_number(ev(ctx, a[1]))
    if len(a) == 3:
        return xp_substring(s, st, to_number(ev(ctx, a[2])))
    return xp_substring(s, st)


def f_string_length(ctx, a):
    _args(0, 1, a, 'string-length')
    s = ctx.node.string_value() if not a else to_string(ev(ctx, a[0]))
    return float(len(s))


def f_normalize_space(ctx, a):
    _args(0, 1, a, 'normalize-space')
    s = ctx.node.string_value() if not a else to_string(ev(ctx, a[0]))
    return xp_normalize_space(s)


def f_translate(ctx, a):
    _args(3, 3, a, 'translate')
    return xp_translate(to_string(ev(ctx, a[0])), to_string(ev(ctx, a[1])), to_string(ev(ctx, a[2])))


def f_boolean(ctx, a):
    _args(1, 1, a, 'boolean')
    return to_boolean(ev(ctx, a[0]))


def f_not(ctx, a):
    _args(1, 1, a, 'not')
    return not to_boolean(ev(ctx, a[0]))


def f_true(ctx, a):
    _args(0, 0, a, 'true')
    return True


def f_false(ctx, a):
    _args(0, 0, a, 'false')
    return False


def f_lang(ctx, a):
    _args(1, 1, a, 'lang')
    return xp_lang(ctx.node, to_string(ev(ctx, a[0])))


def f_number(ctx, a):
    _args(0, 1, a, 'number')
    if not a:
        return refnum.number_of(ctx.node.string_value())
    return to_number(ev(ctx, a[0]))


def f_sum(ctx, a):
    _args(1, 1, a, 'sum')
    tot = 0.0
    for n in _nodeset_arg(ev(ctx, a[0]), 'sum'):
        tot += refnum.number_of(n.string_value())
    return tot


def f_floor(ctx, a):
    _args(1, 1, a, 'floor')
    return refnum.xp_floor(to_number(ev(ctx, a[0])))


def f_ceiling(ctx, a):
    _args(1, 1, a, 'ceiling')
    return refnum.xp_ceil(to_number(ev(ctx, a[0])))


def f_round(ctx, a):
    _args(1, 1, a, 'round')
    return refnum.xp_round(to_number(ev(ctx, a[0])))


# ---- XSLT additions ---------------------------------------------------------------------------
def f_current(ctx, a):
    _args(0, 0, a, 'current')
    c = ctx.env.current
    return [c] if c is not None else [ctx.node]


def f_generate_id(ctx, a):
    n = _node_arg(ctx, a, 'generate-id')
    return '' if n is None else generate_id(ctx.env, n)


def key_lookup(env, name, doc, values):
    decls = env.keys.get(name)
    if decls is None:
        raise XPathError('unknown key')
    ck = (name, doc.seq)
    table = env.key_cache.get(ck)
    if table is None:
        table = {}
        allnodes = []
        _desc(doc, allnodes)
        cand = []
        for n in [doc] + allnodes:
            cand.append(n)
            if n.kind == ELEM:
                cand.extend(n.attrs)
        for (match, use, kenv) in decls:
            for n in cand:
                if pattern_matches(match, n, kenv):
                    saved = kenv.current
                    kenv.current = n
                    try:
                        v = evaluate(use, Context(n, 1, 1, kenv))
                    finally:
                        kenv.current = saved
                    vals = [x.string_value() for x in v] if is_nodeset(v) else [to_string(v)]
                    for s in vals:
                        table.setdefault(s, []).append(n)
        env.key_cache[ck] = table
    out = []
    for v in values:
        out.extend(table.get(v, ()))
    return sort_unique(out)


def f_key(ctx, a):
    _args(2, 2, a, 'key')
    name = ctx.env.expand(to_string(ev(ctx, a[0])))
    v = ev(ctx, a[1])
    vals = [x.string_value() for x in v] if is_nodeset(v) else [to_string(v)]
    return key_lookup(ctx.env, name, ctx.node.doc, vals)


def f_document(ctx, a):
    _args(1, 2, a, 'document')
    env = ctx.env
    if env.doc_loader is None:
        raise XPathError('document() not available')
    v = ev(ctx, a[0])
    base = None
    if len(a) == 2:
        b = _nodeset_arg(ev(ctx, a[1]), 'document')
        base = b[0] if b else None
    out = []
    if is_nodeset(v):
        for n in v:
            d = env.doc_loader(n.string_value(), base if base is not None else n)
            if d is not None:
                out.append(d)
    else:
        d = env.doc_loader(to_string(v), base)
        if d is not None:
            out.append(d)
    return sort_unique(out)


def f_system_property(ctx, a):
    _args(1, 1, a, 'system-property')
    name = ctx.env.expand(to_string(ev(ctx, a[0])))
    if name == (XSLT_NS, 'version'):
        return 1.0
    raise XPathError('implementation defined')


def f_unparsed_entity_uri(ctx, a):
    _args(1, 1, a, 'unparsed-entity-uri')
    raise XPathError('implementation defined')


# format-number, JDK 1.1 DecimalFormat subset
class DecimalFormat(object):
    def __init__(self, **kw):
        self.decimal_separator = '.'
        self.grouping_separator = ','
        self.infinity = 'Infinity'
        self.minus_sign = '-'
        self.nan = 'NaN'
        self.percent = '%'
        self.per_mille = '‰'
        self.zero_digit = '0'
        self.digit = '#'
        self.pattern_separator = ';'
        for k, v in kw.items():
            setattr(self, k.replace('-', '_'), v)


def format_number(x, pattern, df):
    if x != x:
        return df.nan
    pats = pattern.split(df.pattern_separator)
    pos = pats[0]
    neg = pats[1] if len(pats) > 1 else None
    negative = x < 0 or (x == 0 and math.copysign(1, x) < 0)
    sub = neg if (negative and neg is not None) else pos

    def analyse(pt):
        special = set([df.digit, df.zero_digit, df.grouping_separator, df.decimal_separator])
        i = 0
        while i < len(pt) and pt[i] not in special:
            i += 1
        j = len(pt)
        while j > i and pt[j - 1] not in special:
            j -= 1
        return pt[:i], pt[i:j], pt[j:]
    prefix, body, suffix = analyse(sub)
    _, pbody, _ = analyse(pos)
    if neg is not None and negative:
        # the negative sub-pattern only supplies prefix/suffix
        body = pbody
    mult = 1
    if df.percent in prefix + suffix:
        mult = 100
    elif df.per_mille in prefix + suffix:
        mult = 1000
    if x in (math.inf, -math.inf):
        core = df.infinity
    else:
        if df.decimal_separator in body:
            ipart, fpart = body.split(df.decimal_separator, 1)
        else:
            ipart, fpart = body, ''
        min_int = ipart.count(df.zero_digit)
        gpos = ipart.rfind(df.grouping_separator)
        group = len(ipart) - gpos - 1 if gpos >= 0 else 0
        min_frac = fpart.count(df.zero_digit)
        max_frac = min_frac + fpart.count(df.digit)
        from fractions import Fraction
        from decimal import Decimal, ROUND_HALF_EVEN
        # JDK 1.1 DecimalFormat works on the shortest digit string that identifies the double
        # (Double.toString), not on its exact binary value
        import decimal
        with decimal.localcontext() as c:
            c.prec = 1200
            q = Decimal(repr(abs(x))) * mult
            r = q.quantize(Decimal(1).scaleb(-max_frac), rounding=ROUND_HALF_EVEN)
        s = format(r, 'f')
        if '.' in s:
            ip, fp = s.split('.')
        else:
            ip, fp = s, ''
        fp = fp.rstrip('0')
        if len(fp) < min_frac:
            fp = fp + '0' * (min_frac - len(fp))
        ip = ip.lstrip('0')
        if len(ip) < min_int:
            ip = '0' * (min_int - len(ip)) + ip
        if group > 0:
            parts = []
            while len(ip) > group:
                parts.insert(0, ip[-group:])
                ip = ip[:-group]
            parts.insert(0, ip)
            ip = df.grouping_separator.join(parts)
        if df.zero_digit != '0':
            zd = ord(df.zero_digit)
            ip = ''.join(chr(zd + int(ch)) if ch.isdigit() else ch for ch in ip)
            fp = ''.join(chr(zd + int(ch)) for ch in fp)
        core = ip + (df.decimal_separator + fp if fp else '')
        if core == '':
            core = df.zero_digit
        if r == 0:
            pass
    out = prefix + core + suffix
    if negative and neg is None:
        out = df.minus_sign + out
    return out


def f_format_number(ctx, a):
    _args(2, 3, a, 'format-number')
    x = to_number(ev(ctx, a[0]))
    pat = to_string(ev(ctx, a[1]))
    df = ctx.env.decimal_formats.get(None) or DecimalFormat()
    if len(a) == 3:
        name = ctx.env.expand(to_string(ev(ctx, a[2])))
        df = ctx.env.decimal_formats.get(name)
        if df is None:
            raise XPathError('unknown decimal-format')
    return format_number(x, pat, df)


CORE = {
    'last': f_last, 'position': f_position, 'count': f_count, 'id': f_id, 'local-name': f_local_name,
    'namespace-uri': f_namespace_uri, 'name': f_name, 'string': f_string, 'concat': f_concat,
    'starts-with': f_starts_with, 'contains': f_contains, 'substring-before': f_substring_before,
    'substring-after': f_substring_after, 'substring': f_substring, 'string-length': f_string_length,
    'normalize-space': f_normalize_space, 'translate': f_translate, 'boolean': f_boolean, 'not': f_not,
    'true': f_true, 'false': f_false, 'lang': f_lang, 'number': f_number, 'sum': f_sum, 'floor': f_floor,
    'ceiling': f_ceiling, 'round': f_round,
    'current': f_current, 'generate-id': f_generate_id, 'key': f_key, 'document': f_document,
    'system-property': f_system_property, 'unparsed-entity-uri': f_unparsed_entity_uri,
    'format-number': f_format_number,
}


# ---- extension functions (published definitions) ----------------------------------------------------
def rtf_to_nodeset(v):
    if isinstance(v, RTF):
        return [v.doc]
    if is_nodeset(v):
        return v
    raise XPathError('node-set() of a non node-set')


def call_ext(uri, l, a, ctx):
    A = [ev(ctx, x) for x in a] if not (uri == EXSLT_DYN or (uri == XALAN_NS and l == 'evaluate')) else None
    if (uri == EXSLT_COMMON and l == 'node-set') or (uri == XALAN_NS and l == 'nodeset'):
        _args(1, 1, a, l)
        v = A[0]
        if isinstance(v, (str, float, bool)):
            if uri == XALAN_NS:
                raise XPathError('xalan:nodeset of non node-set')
            raise XPathError('exsl:node-set of primitive: a text node in a new document (not modelled)')
        return rtf_to_nodeset(v)
    if uri == EXSLT_COMMON and l == 'object-type':
        _args(1, 1, a, l)
        return type_name(A[0])
    if uri in (EXSLT_SETS, XALAN_NS) and l in ('difference', 'intersection', 'distinct', 'has-same-node', 'hasSameNodes',
                                               'leading', 'trailing'):
        if l == 'distinct':
            _args(1, 1, a, l)
            seen = set()
            out = []
            for n in _nodeset_arg(A[0], l):
                s = n.string_value()
                if s not in seen:
                    seen.add(s)
                    out.append(n)
            return out
        _args(2, 2, a, l)
        x, y = _nodeset_arg(A[0], l), _nodeset_arg(A[1], l)
        ids = set(id(n) for n in y)
        if l == 'difference':
            return [n for n in x if id(n) not in ids]
        if l == 'intersection':
            return [n for n in x if id(n) in ids]
        if l == 'has-same-node':
            return any(id(n) in ids for n in x)
        if l == 'hasSameNodes':
            return len(x) == len(y) and all(id(n) in ids for n in x)
        if l == 'leading':
            if not y:
                return x
            f = y[0]
            if id(f) not in set(id(n) for n in x):
                return []
            return [n for n in x if doc_order_key(n) < doc_order_key(f)]
        if l == 'trailing':
            if not y:
                return x
            f = y[0]
            if id(f) not in set(id(n) for n in x):
                return []
            return [n for n in x if doc_order_key(n) > doc_order_key(f)]
    if uri == EXSLT_MATH:
        if l in ('min', 'max'):
            _args(1, 1, a, l)
            ns = _nodeset_arg(A[0], l)
            if not ns:
                return math.nan
            vals = [refnum.number_of(n.string_value()) for n in ns]
            if any(v != v for v in vals):
                return math.nan
            return min(vals) if l == 'min' else max(vals)
        if l in ('highest', 'lowest'):
            _args(1, 1, a, l)
            ns = _nodeset_arg(A[0], l)
            if not ns:
                return []
            vals = [refnum.number_of(n.string_value()) for n in ns]
            if any(v != v for v in vals):
                return []
            m = max(vals) if l == 'highest' else min(vals)
            return [n for n, v in zip(ns, vals) if v == m]
        if l == 'abs':
            _args(1, 1, a, l)
            return abs(to_number(A[0]))
    if uri == EXSLT_STR:
        if l == 'concat':
            _args(1, 1, a, l)
            return ''.join(n.string_value() for n in _nodeset_arg(A[0], l))
        if l == 'padding':
            _args(1, 2, a, l)
            n = to_number(A[0])
            pad = to_string(A[1]) if len(A) > 1 else ' '
            if n != n or n <= 0 or pad == '':
                return ''
            n = int(n)
            return (pad * (n // len(pad) + 1))[:n]
        if l == 'align':
            _args(2, 3, a, l)
            s, pad = to_string(A[0]), to_string(A[1])
            al = to_string(A[2]) if len(A) > 2 else 'left'
            if len(s) >= len(pad):
                return s[:len(pad)]
            if al == 'right':
                return pad[:len(pad) - len(s)] + s
            if al == 'center':
                left = (len(pad) - len(s)) // 2
                return pad[:left] + s + pad[left + len(s):]
            return s + pad[len(s):]
    if uri == EXSLT_DYN and l == 'evaluate' or (uri == XALAN_NS and l == 'evaluate'):
        _args(1, 1, a, l)
        s = to_string(ev(ctx, a[0]))
        try:
            ast = parse(s)
        except XPathSyntaxError:
            if uri == EXSLT_DYN:
                return []
            raise XPathError('bad expression')
        return evaluate(ast, ctx)
    f = ctx.env.functions.get((uri, l))
    if f is not None:
        return f(ctx, A if A is not None else [ev(ctx, x) for x in a])
    raise XPathError('unknown extension function {%s}%s' % (uri, l))


# =============================================================================================
# patterns (XSLT 5.2)
def parse_pattern(s):
    """returns list of alternatives; each is a 'path' ast restricted to the Pattern grammar"""
    p = Parser(s)
    alts = [_pattern_alt(p)]
    while p.accept('op', '|'):
        alts.append(_pattern_alt(p))
    if p.peek()[0] != 'eof':
        raise XPathSyntaxError('trailing tokens in pattern')
    return alts


def _pattern_step(p):
    axis = 'child'
    t = p.accept('axis')
    if t:
        if t[1] not in ('child', 'attribute'):
            raise XPathSyntaxError('axis %s not allowed in a pattern' % t[1])
        p.expect('op', '::')
        axis = t[1]
    elif p.accept('op', '@'):
        axis = 'attribute'
    nt = p.node_test()
    return (axis, nt, p.predicates())


def _pattern_alt(p):
    steps = []
    start = None
    k, v = p.peek()
    if k == 'func' and v in ('id', 'key'):
        p.next()
        p.expect('op', '(')
        args = []
        l1 = p.expect('literal')
        args.append(('lit', l1[1][1:-1]))
        if v == 'key':
            p.expect('op', ',')
            l2 = p.expect('literal')
            args.append(('lit', l2[1][1:-1]))
        p.expect('op', ')')
        start = ('func', v, args)
        if p.peek() not in (('op', '/'), ('op', '//')):
            return ('path', start, [])
    elif p.accept('op', '/'):
        start = 'root'
        if not p.step_start():
            return ('path', 'root', [])
        steps.append(_pattern_step(p))
    elif p.accept('op', '//'):
        start = 'root'
        steps.append(('descendant-or-self', ('type', 'node', None), []))
        steps.append(_pattern_step(p))
    else:
        steps.append(_pattern_step(p))
    while True:
        t = p.accept('op', '/') or p.accept('op', '//')
        if not t:
            break
        if t[1] == '//':
            steps.append(('descendant-or-self', ('type', 'node', None), []))
        steps.append(_pattern_step(p))
    return ('path', start, steps)


def pattern_matches(alts, node, env):
    """5.2: node matches iff some ancestor-or-self A has node in eval(pattern, A)"""
    for alt in alts:
        a = node
        while a is not None:
            res = evaluate(alt, Context(a, 1, 1, env))
            for x in res:
                if x is node:
                    return True
            a = a.parent
    return False


def default_priority(alt):
    """5.5 default priority of one alternative"""
    start, steps = alt[1], alt[2]
    if start is None and len(steps) == 1:
        axis, nt, preds = steps[0]
        if not preds:
            if nt[0] == 'name':
                return 0.0
            if nt[0] == 'type' and nt[1] == 'processing-instruction' and nt[2] is not None:
                return 0.0
            if nt[0] == 'nswild':
                return -0.25
            return -0.5
    return 0.5


# =============================================================================================
# static checks (errors a processor may report at compile time)
ARITY = {'last': (0, 0), 'position': (0, 0), 'count': (1, 1), 'id': (1, 1), 'local-name': (0, 1), 'namespace-uri': (0, 1), 'name': (0, 1),
         'string': (0, 1), 'concat': (2, None), 'starts-with': (2, 2), 'contains': (2, 2), 'substring-before': (2, 2),
         'substring-after': (2, 2), 'substring': (2, 3), 'string-length': (0, 1), 'normalize-space': (0, 1), 'translate': (3, 3),
         'boolean': (1, 1), 'not': (1, 1), 'true': (0, 0), 'false': (0, 0), 'lang': (1, 1), 'number': (0, 1), 'sum': (1, 1),
         'floor': (1, 1), 'ceiling': (1, 1), 'round': (1, 1), 'current': (0, 0), 'generate-id': (0, 1), 'key': (2, 2),
         'document': (1, 2), 'system-property': (1, 1), 'unparsed-entity-uri': (1, 1), 'format-number': (2, 3),
         'element-available': (1, 1), 'function-available': (1, 1)}


def static_errors(ast, xslt=True, namespaces=None):
    """returns a reason when the expression has a static error (unknown core function, wrong
    number of arguments, unbound prefix), else None"""
    return _static(ast, xslt, namespaces)


def _unbound(p, namespaces):
    return namespaces is not None and p not in ('', 'xml') and p not in namespaces


def _static(ast, xslt, namespaces):
    static_errors = lambda a, x: _static(a, x, namespaces)
    t = ast[0]
    if t == 'var':
        p, l = refxml.split_qname(ast[1])
        return 'unbound prefix ' + p if _unbound(p, namespaces) else None
    if t == 'func':
        p, l = refxml.split_qname(ast[1])
        if _unbound(p, namespaces):
            return 'unbound prefix ' + p
        if not p:
            if l not in ARITY or (not xslt and l in ('current', 'key', 'document', 'format-number', 'generate-id', 'system-property', 'unparsed-entity-uri', 'element-available', 'function-available')):
                return 'unknown function ' + l
            lo, hi = ARITY[l]
            if len(ast[2]) < lo or (hi is not None and len(ast[2]) > hi):
                return 'wrong number of arguments for ' + l
        for a in ast[2]:
            e = static_errors(a, xslt)
            if e:
                return e
        return None
    if t in ('lit', 'num'):
        return None
    if t == 'path':
        if ast[1] not in (None, 'root'):
            e = static_errors(ast[1], xslt)
            if e:
                return e
        for (ax, nt, preds) in ast[2]:
            if nt[0] in ('name', 'nswild') and _unbound(nt[1], namespaces):
                return 'unbound prefix ' + nt[1]
            for p in preds:
                e = static_errors(p, xslt)
                if e:
                    return e
        return None
    if t == 'filter':
        e = static_errors(ast[1], xslt)
        if e:
            return e
        for p in ast[2]:
            e = static_errors(p, xslt)
            if e:
                return e
        return None
    for x in ast[1:]:
        if isinstance(x, tuple):
            e = static_errors(x, xslt)
            if e:
                return e
    return None
