"""Seeded generator of error-free XSLT 1.0 stylesheets over the core instruction set.  Stylesheets
terminate by construction: apply-templates only selects down the child / attribute axes, named
templates call only templates declared later with a decreasing depth parameter."""
import gen_xml, gen_xpath

XSL = 'http://www.w3.org/1999/XSL/Transform'
MODES = [None, 'm1', 'm2']
HEAD = ('<xsl:stylesheet version="1.0" xmlns:xsl="%s" xmlns:p="%s" xmlns:q="%s" xmlns:dflt="%s"%%s>' % (XSL, gen_xml.NS_P, gen_xml.NS_Q, gen_xml.NS_D))


def xesc(s):
    return s.replace('&', '&amp;').replace('<', '&lt;').replace('"', '&quot;').replace('{', '{{').replace('}', '}}')


def aesc(s):
    """escape an XPath expression for use in an attribute"""
    return s.replace('&', '&amp;').replace('<', '&lt;').replace('"', '&quot;').replace('\n', ' ')


def avt(expr):
    return '{' + aesc(expr).replace('{', '').replace('}', '') + '}'


class SGen(object):
    def __init__(self, r, info, avoid=(), features=None, max_templates=8, body_depth=3, ext=False):
        self.r = r
        self.info = info
        self.avoid = set(avoid)
        self.max_templates = max_templates
        self.body_depth = body_depth
        self.ext = ext
        self.used = set()
        self.keys = []
        self.named = []          # names of named templates, in declaration order
        self.globals = {}        # global variable/param name -> type
        self.attribute_sets = []
        self.counter = 0
        self.can_apply = True
        self.want = features or {}

    def f(self, name):
        self.used.add(name)

    def fresh(self, prefix):
        self.counter += 1
        return '%s%d' % (prefix, self.counter)

    def xp(self, scope, xslt=True, depth=3):
        vt = dict(self.globals)
        vt.update(scope)
        g = gen_xpath.Gen(self.r, self.info, vt, avoid=self.avoid, ext=False, xslt=xslt, keys=[k[0] for k in self.keys], max_depth=depth)
        return g

    def expr(self, typ, scope, depth=2):
        g = self.xp(scope, depth=depth)
        e = g.expr(typ, 0)
        for ft in g.features:
            self.used.add('xp:' + ft.split(':')[0])
        return e

    # ---- patterns --------------------------------------------------------------------------
    def pattern(self):
        r = self.r
        g = self.xp({}, depth=1)
        k = r.random()
        names = g.names
        if k < 0.35:
            return r.choice(names)
        if k < 0.45:
            return '*'
        if k < 0.5:
            return r.choice(['p:*', 'q:*'])
        if k < 0.56:
            return 'text()'
        if k < 0.6:
            return r.choice(['comment()', 'processing-instruction()', "processing-instruction('%s')" % r.choice(g.pis)])
        if k < 0.66:
            return '@' + r.choice(g.attrs + ['*'])
        if k < 0.74:
            return r.choice(names) + '/' + r.choice(names + ['*', 'text()'])
        if k < 0.8:
            return r.choice(names) + '[' + r.choice(['1', '2', 'last()', '@' + r.choice(g.attrs), 'position() mod 2 = 0', r.choice(names)]) + ']'
        if k < 0.86:
            return r.choice(names) + ' | ' + r.choice(names + ['@' + r.choice(g.attrs), 'text()'])
        if k < 0.9 and 'pattern-node()-root' not in self.avoid:
            return 'node()'
        if k < 0.94:
            return r.choice(names) + '//' + r.choice(names)
        if k < 0.97:
            return "id('%s')" % r.choice(['i1', 'i2', 'i3'])
        return '*[' + r.choice(['@' + r.choice(g.attrs), r.choice(names), 'not(*)', 'text()']) + ']'

    # ---- instruction bodies ------------------------------------------------------------------
    def use_sets(self):
        """value of a use-attribute-sets attribute: one to three of the declared sets (a set may be named twice)"""
        r = self.r
        return ' '.join(r.choice(self.attribute_sets) for _ in range(r.choice([1, 1, 2, 3])))

    def body(self, depth, scope, in_element=False, ctx='node'):
        """sequence of instructions; scope: visible local variable types"""
        r = self.r
        out = []
        scope = dict(scope)
        n = r.choice([1, 1, 2, 2, 3, 4]) if depth > 0 else r.choice([1, 2])
        if in_element and r.random() < 0.35:
            out.append(self.attribute_instr(scope, depth))
            if r.random() < 0.3:
                out.append(self.attribute_instr(scope, depth))
        for _ in range(n):
            out.append(self.instr(depth, scope))
        return ''.join(out)

    def attribute_instr(self, scope, depth):
        r = self.r
        self.f('attribute')
        name = r.choice(['k', 'x', 'id', 'n', 'p:a1', 'q:a2'])
        ns = ''
        if r.random() < 0.15:
            ns = ' namespace="%s"' % r.choice([gen_xml.NS_P, 'urn:other', ''])
            name = r.choice(['k', 'z:k', 'p:k'])
            if name.startswith('z:'):
                name = 'k'
        if r.random() < 0.2:
            name = '{concat(\'a\', %s)}' % r.choice(['1', '2', 'position()'])
        val = '<xsl:value-of select="%s"/>' % aesc(self.expr('str', scope)) if r.random() < 0.6 else xesc(r.choice(gen_xml.WORDS))
        return '<xsl:attribute name="%s"%s>%s</xsl:attribute>' % (name, ns, val)

    def sort(self, scope):
        r = self.r
        self.f('sort')
        # text keys are restricted to strings whose collation order is unambiguous (lower-case names, digits)
        num_only = ['.', '@x', '@n', 'number(@x) + 1']
        both = ['@id', 'name()', 'local-name()', 'count(*)', 'string-length(.)', 'position()', 'count(preceding-sibling::*)', 'count(@*)']
        sel = r.choice(num_only + both + both)
        a = ' select="%s"' % sel
        if sel in num_only:
            a += ' data-type="number"'
        elif r.random() < 0.5:
            a += ' data-type="%s"' % r.choice(['number', 'text'])
        if r.random() < 0.4:
            a += ' order="%s"' % r.choice(['ascending', 'descending'])
        return '<xsl:sort%s/>' % a

    def instr(self, depth, scope):
        r = self.r
        k = r.random()
        leaf = depth <= 0
        if k < 0.02:
            # an element that holds nothing but white space the stylesheet wrote: kept wherever it ends up (result tree fragments included),
            # whatever xsl:strip-space says about the source
            self.f('whitespace-only-element')
            e = '<%s><xsl:text>%s</xsl:text></%s>' % (('w', r.choice([' ', '\n', ' \t ', '  ']), 'w') if r.random() < 0.7 else ('o xml:space="default"', ' ', 'o'))
            if r.random() < 0.6:
                # ... also after a detour through a result tree fragment
                vn = self.fresh('v')
                return '<xsl:variable name="%s">%s<t>-</t></xsl:variable><xsl:copy-of select="$%s"/>' % (vn, e, vn)
            return e
        if k < 0.16:
            self.f('value-of')
            return '<xsl:value-of select="%s"/>' % aesc(self.expr(r.choice(['str', 'num', 'ns', 'bool', 'any']), scope))
        if k < 0.24:
            self.f('text')
            t = r.choice(gen_xml.WORDS + gen_xml.WS)
            if r.random() < 0.5:
                return '<xsl:text>%s</xsl:text>' % t.replace('&', '&amp;').replace('<', '&lt;')
            return t.replace('&', '&amp;').replace('<', '&lt;') if t.strip() else '<xsl:text>%s</xsl:text>' % t
        if k < 0.38 and not leaf:
            self.f('lre')
            name = r.choice(['o', 'r', 'p:r', 'item', 'q:x'])
            attrs = ''
            for an in r.sample(['a', 'b', 'p:c', 'id'], r.choice([0, 0, 1, 2])):
                attrs += ' %s="%s"' % (an, r.choice([xesc(r.choice(gen_xml.VALUES)), avt(self.expr('str', scope, 1)), 'v' + avt(self.expr('num', scope, 1)) + 'w']))
            if self.attribute_sets and r.random() < 0.2:
                self.f('use-attribute-sets')
                attrs += ' xsl:use-attribute-sets="%s"' % self.use_sets()
            return '<%s%s>%s</%s>' % (name, attrs, self.body(depth - 1, scope, in_element=True), name)
        if k < 0.44 and not leaf:
            self.f('element')
            name = r.choice(['e1', 'p:e2', "{local-name()}", "{concat('n', position())}", 'e3'])
            ns = ''
            if r.random() < 0.25 and not name.startswith('p:') and not name.startswith('{local'):
                ns = ' namespace="%s"' % r.choice(['urn:dyn', gen_xml.NS_Q, ''])
            if name == '{local-name()}':
                # only valid where the context node has a name: guard with a choose
                inner = self.body(depth - 1, scope, in_element=True)
                return ('<xsl:choose><xsl:when test="self::*"><xsl:element name="{local-name()}">%s</xsl:element></xsl:when>'
                        '<xsl:otherwise><e0>%s</e0></xsl:otherwise></xsl:choose>' % (inner, inner))
            if self.attribute_sets and r.random() < 0.2:
                self.f('use-attribute-sets')
                ns += ' use-attribute-sets="%s"' % self.use_sets()
            return '<xsl:element name="%s"%s>%s</xsl:element>' % (name, ns, self.body(depth - 1, scope, in_element=True))
        if k < 0.52 and not leaf and self.can_apply:
            self.f('apply-templates')
            sel = r.choice(['', '', ' select="*"', ' select="node()"', ' select="@*"', ' select="*[1]"', ' select="*[position() &gt; 1]"', ' select="text()"',
                            ' select="%s"' % r.choice(self.xp({}).names), ' select="*/*"', ' select="@*|node()"', ' select="comment()|processing-instruction()"'])
            mode = r.choice(MODES)
            ms = ' mode="%s"' % mode if mode else ''
            inner = ''
            if r.random() < 0.3:
                inner += self.sort(scope)
                if r.random() < 0.3:
                    inner += self.sort(scope)
            if r.random() < 0.3:
                self.f('with-param')
                inner += self.with_param('w', scope, ['num', 'str', 'ns'])
            return '<xsl:apply-templates%s%s>%s</xsl:apply-templates>' % (sel, ms, inner) if inner else '<xsl:apply-templates%s%s/>' % (sel, ms)
        if k < 0.58 and not leaf:
            self.f('for-each')
            downward = r.random() < 0.4
            if downward:
                sel = r.choice(['*', 'node()', '*[position() mod 2 = 1]', 'text()', '*/*', r.choice(self.xp({}).names), '@*'])
            else:
                sel = self.expr('ns', scope, 2)
            inner = ''
            if r.random() < 0.4:
                inner += self.sort(scope)
            saved = self.can_apply
            # apply-templates below a for-each that can move anywhere in the document could recurse for ever
            self.can_apply = saved and downward
            try:
                b = self.body(depth - 1, scope)
            finally:
                self.can_apply = saved
            return '<xsl:for-each select="%s">%s%s</xsl:for-each>' % (aesc(sel), inner, b)
        if k < 0.63 and not leaf:
            self.f('if')
            return '<xsl:if test="%s">%s</xsl:if>' % (aesc(self.expr(r.choice(['bool', 'ns', 'num', 'str']), scope)), self.body(depth - 1, scope))
        if k < 0.69 and not leaf:
            self.f('choose')
            whens = ''.join('<xsl:when test="%s">%s</xsl:when>' % (aesc(self.expr(r.choice(['bool', 'ns']), scope)), self.body(depth - 1, scope)) for _ in range(r.choice([1, 2, 3])))
            other = '<xsl:otherwise>%s</xsl:otherwise>' % self.body(depth - 1, scope) if r.random() < 0.6 else ''
            return '<xsl:choose>%s%s</xsl:choose>' % (whens, other)
        if k < 0.76:
            self.f('variable')
            name = self.fresh('v')
            if r.random() < 0.6:
                typ = r.choice(['num', 'str', 'ns', 'bool'])
                s = '<xsl:variable name="%s" select="%s"/>' % (name, aesc(self.expr(typ, scope)))
                scope[name] = typ
            else:
                self.f('rtf')
                if r.random() < 0.2:
                    # content that produces nothing is still content: the variable is a result tree fragment (true as a boolean), not an empty string
                    self.f('rtf-empty')
                    inner = r.choice(['<xsl:text/>', '<xsl:text></xsl:text>', '<xsl:if test="false()">x</xsl:if>', '<xsl:value-of select="\'\'"/>', '<xsl:for-each select="/.."><q/></xsl:for-each>', '<xsl:text/><xsl:text/>'])
                else:
                    inner = self.body(max(depth - 1, 0), scope)
                s = '<xsl:variable name="%s">%s</xsl:variable>' % (name, inner)
                if r.random() < 0.15:
                    # what the variable is shows at once: a fragment is true, whatever it contains
                    s += r.choice(['<xsl:value-of select="boolean($%s)"/>', '<xsl:if test="$%s">T</xsl:if>', '<xsl:value-of select="not($%s)"/>', '<xsl:value-of select="$%s = true()"/>']) % name
                scope[name] = 'rtf'      # usable wherever a string is (gen_xpath.var), and compared like a node-set
            return s
        if k < 0.8:
            self.f('copy-of')
            c = [n for n, t in scope.items()]
            # copied attribute nodes must arrive before any child: give them an element of their own
            if c and r.random() < 0.5:
                return '<w><xsl:copy-of select="$%s"/></w>' % r.choice(c)
            return '<w><xsl:copy-of select="%s"/></w>' % aesc(self.expr(r.choice(['ns', 'ns', 'str', 'num']), scope))
        if k < 0.85 and not leaf:
            self.f('copy')
            us = ''
            if self.attribute_sets and r.random() < 0.2:
                us = ' use-attribute-sets="%s"' % self.use_sets()
            return '<w><xsl:copy%s>%s</xsl:copy></w>' % (us, self.body(depth - 1, scope, in_element=True))
        if k < 0.89:
            self.f('number')
            a = r.choice(['', ' level="single"', ' level="multiple"', ' level="any"'])
            if r.random() < 0.4:
                a += ' count="%s"' % r.choice(self.xp({}).names + ['*'])
            if r.random() < 0.5:
                a += ' format="%s"' % r.choice(['1', '1.', 'a', 'A.', 'i', 'I', '01', '1.1', '(a)'])
            if r.random() < 0.3:
                a = ' value="%s" format="%s"' % (r.choice(['position()', 'count(*) + 1', '3', 'last()']), r.choice(['1', 'a', 'I', '001']))
            return '<xsl:number%s/>' % a
        if k < 0.92:
            self.f('comment')
            return '<xsl:comment>%s</xsl:comment>' % r.choice(['c', '<xsl:value-of select="name()"/>', 'x y'])
        if k < 0.94:
            self.f('processing-instruction')
            return '<xsl:processing-instruction name="%s">%s</xsl:processing-instruction>' % (r.choice(['pi', 'out']), r.choice(['d', '<xsl:value-of select="count(*)"/>', '']))
        if k < 0.97 and self.named and not leaf:
            self.f('call-template')
            return '<xsl:call-template name="%s"><xsl:with-param name="d" select="2"/>%s</xsl:call-template>' % (r.choice(self.named), self.with_param('w', scope, ['num', 'str']))
        self.f('value-of')
        return '<xsl:value-of select="%s"/>' % aesc(self.expr('str', scope, 1))

    def with_param(self, name, scope, types):
        """the three ways of giving a parameter a value: select, content (a result tree fragment), nothing (the empty string, NOT the default)"""
        r = self.r
        k = r.random()
        if k < 0.6:
            return '<xsl:with-param name="%s" select="%s"/>' % (name, aesc(self.expr(r.choice(types), scope, 1)))
        if k < 0.8:
            return '<xsl:with-param name="%s">%s<xsl:value-of select="%s"/></xsl:with-param>' % (name, r.choice(['', 'c', ' ']), aesc(self.expr('str', scope, 1)))
        if k < 0.95:
            return '<xsl:with-param name="%s"/>' % name
        return '<xsl:with-param name="nosuchparam" select="1"/>'

    # ---- top level ---------------------------------------------------------------------------
    def stylesheet(self, output='xml', imports=0, strip=None):
        r = self.r
        parts = []
        extra = ''
        if r.random() < 0.25:
            extra = ' exclude-result-prefixes="%s"' % r.choice(['p', 'q', 'p q dflt', 'dflt'])
            self.f('exclude-result-prefixes')
        parts.append(HEAD % extra)
        parts.append('<xsl:output method="%s" indent="no"/>' % output)
        if strip is None and 'no-strip-space' not in self.avoid and r.random() < 0.2:
            # whitespace stripping applies to source documents only: text nodes the stylesheet creates (in result tree fragments too) stay
            names = sorted(n for n in self.info.elem_names if ':' not in n) if self.info is not None and self.info.elem_names else []
            strip = '<xsl:strip-space elements="%s"/>' % r.choice(['*', '*', ' '.join(r.sample(names, min(len(names), 2)) + ['w', 'o']) or '*'])
            if r.random() < 0.3:
                strip += '<xsl:preserve-space elements="%s"/>' % r.choice(['w', 'o r', (names or ['doc'])[0]])
            self.f('strip-space')
        if strip:
            parts.append(strip)
        # keys
        for _ in range(r.choice([0, 0, 1, 2])):
            kn = self.fresh('k')
            g = self.xp({})
            self.keys.append((kn,))
            parts.append('<xsl:key name="%s" match="%s" use="%s"/>' % (kn, r.choice(g.names + ['*']), r.choice(['@x', '@n', '@id', '.', 'name()', '*', '@*'])))
            self.f('key')
        # attribute sets
        for _ in range(r.choice([0, 0, 1, 2, 3])):
            an = self.fresh('as')
            # a set may build on the sets declared before it (no cycles); the attribute names overlap, so the order of instantiation shows
            us = ' use-attribute-sets="%s"' % self.use_sets() if self.attribute_sets and r.random() < 0.4 else ''
            parts.append('<xsl:attribute-set name="%s"%s><xsl:attribute name="%s">%s</xsl:attribute><xsl:attribute name="s2"><xsl:value-of select="%s"/></xsl:attribute></xsl:attribute-set>'
                         % (an, us, r.choice(['s1', 's1', 's3']), r.choice(['x', 'y']), aesc(self.expr('str', {}, 1))))
            self.attribute_sets.append(an)
            self.f('attribute-set')
        # global variables / params
        for _ in range(r.choice([0, 1, 2])):
            gn = self.fresh('g')
            typ = r.choice(['num', 'str', 'ns', 'bool'])
            kind = r.choice(['variable', 'param'])
            parts.append('<xsl:%s name="%s" select="%s"/>' % (kind, gn, aesc(self.expr(typ, {}))))
            self.globals[gn] = typ
            self.f('global-' + kind)
        # named templates (each may call only those declared before it in this list; none recursive)
        ntpl = []
        for _ in range(r.choice([0, 1, 2])):
            tn = self.fresh('t')
            self.can_apply = False       # named templates run with the caller's context node
            body = self.body(self.body_depth - 1, {'d': 'num', 'w': 'str'})
            self.can_apply = True
            ntpl.append('<xsl:template name="%s"><xsl:param name="d" select="0"/><xsl:param name="w" select="\'dw\'"/>%s</xsl:template>' % (tn, body))
            self.named.append(tn)
        # template rules
        rules = []
        nrules = r.randint(2, self.max_templates)
        for i in range(nrules):
            pat = self.pattern()
            mode = r.choice(MODES + [None, None])
            a = ' match="%s"' % aesc(pat)
            if mode:
                a += ' mode="%s"' % mode
            if r.random() < 0.25:
                a += ' priority="%s"' % r.choice(['1', '0', '0.5', '-1', '2', '0.25'])
                self.f('priority')
            params = '<xsl:param name="w" select="\'none\'"/>' if r.random() < 0.5 else ''
            scope = {'w': 'str'} if params else {}
            rules.append('<xsl:template%s>%s%s</xsl:template>' % (a, params, self.body(self.body_depth, scope)))
            self.f('template')
        root = ''
        if r.random() < 0.6:
            root = '<xsl:template match="/"><out>%s</out></xsl:template>' % self.body(self.body_depth, {}, in_element=True)
        parts += ntpl + rules + [root]
        parts.append('</xsl:stylesheet>')
        return ''.join(parts)


def features_signature(used):
    return ','.join(sorted(used))
